(* Cache layer proofs, part 4: every call of PagedCachedFile preserves the invariant and answers like the
   plain byte array (step_sound). *)
From RV Require Import Base.Bytes Storage.Backend Storage.BackendP Storage.Latch Storage.Cache Storage.CacheInv
  Storage.CacheBaseP Storage.CacheInvP Storage.CacheOpsP.
Local Open Scope N_scope.

Ltac splits := repeat match goal with |- _ /\ _ => split end.

(* the stripe loops run over 131 stripes: never unroll them *)
Local Opaque NSTRIPES.

(* ------------------------------------------------------------------ what is proved of one call *)
Definition sound (c : config) (s : state) (I : image) (g : ghost) (x : op) (o : oracle) (g' : ghost)
                 (s' : state) (t : list ev) (r : res) : Prop :=
  r <> Panic /\
  (res_is_err r = true -> Inv c s' I (proto_fail g x)) /\
  (res_is_err r = false -> Inv c s' (ideal_step I x) g' /\ spec_res I x r) /\
  tr_ok s s' t /\
  (res_is_err r = true -> io_failed (latch s) = true \/ req_failed t = true) /\
  (req_failed t = true -> res_is_err r = true) /\
  (fault_free o -> any_failed t = false).

(* a call that does not touch the backend and cannot fail *)
Lemma sound_pure c s I g x o g' s' r :
  r <> Panic -> res_is_err r = false -> latch s' = latch s ->
  Inv c s' (ideal_step I x) g' -> spec_res I x r -> sound c s I g x o g' s' [] r.
Proof.
  intros Hp He El Hi Hs. unfold sound. splits; auto; try congruence.
  - eapply tr_ok_latch; [apply (tr_ok_refl s)|reflexivity|exact El].
  - discriminate.
Qed.

(* ------------------------------------------------------------------ ranges *)
Lemma in_both_overlap a b i : in_rng a i -> in_rng b i -> overlapb a b = true.
Proof.
  unfold in_rng, overlapb, disjointb. intros Ha Hb. rewrite negb_true_iff.
  rewrite !orb_false_iff, !N.eqb_neq, !N.leb_gt. lia.
Qed.

Lemma compat_exact_start G o n off len :
  compat G (off, len) = true -> In (o, n) G -> o = off -> 0 < n -> 0 < len -> n = len.
Proof.
  intros Hc Hin -> Hn Hl. apply compat_spec with (a := (off, n)) in Hc; auto.
  destruct Hc as [E|E]; [inversion E; auto|]. rewrite overlapb_true_same_start in E by auto. discriminate.
Qed.

Lemma compat_exact_cover G a r i :
  compat G r = true -> In a G -> in_rng a i -> in_rng r i -> a = r.
Proof.
  intros Hc Hin Ha Hr. apply compat_spec with (a := a) in Hc; auto.
  destruct Hc as [E|E]; auto. rewrite (in_both_overlap _ _ _ Ha Hr) in E. discriminate.
Qed.

Lemma no_overlap_start G o n off len :
  no_overlap G (off, len) = true -> In (o, n) G -> 0 < n -> 0 < len -> o <> off.
Proof.
  intros Hc Hin Hn Hl ->. apply no_overlap_spec with (a := (off, n)) in Hc; auto.
  rewrite overlapb_true_same_start in Hc by auto. discriminate.
Qed.

(* ------------------------------------------------------------------ ghost changes that keep the invariant *)
Definition g_set_rc (g : ghost) (l : list (N * N)) : ghost :=
  mkG l (g_wb g) (g_out g) (g_unc g) (g_poison g) (g_flushing g) (g_len g).

Lemma Inv_grow_rc c s I g l :
  Inv c s I g -> (forall a, In a (g_rc g) -> In a l) ->
  (forall a, In a l -> 0 < snd a /\ fst a + snd a <= g_len g) ->
  (forall a r, In a l -> In r (g_out g) -> overlapb a r = false) ->
  Inv c s I (g_set_rc g l).
Proof.
  intros H Hs Hv Ho. destruct H. constructor; simpl; try assumption.
  - intros o d Hin. destruct (i_rc o d Hin). split; auto.
  - intros r Hr. destruct (i_sep r Hr) as (A & B & C). splits; auto.
Qed.

Lemma out_positive c s I g o l : Inv c s I g -> In (o, l) (g_out g) -> 0 < l /\ o + l <= g_len g.
Proof.
  intros H Hin. destruct (i_out _ _ _ _ H _ _ Hin) as (_ & _ & W). apply (i_rng_wb _ _ _ _ H) in W. auto.
Qed.

(* the bytes of a range that no buffered page, outstanding page or undefined range overlaps are in the file *)
Lemma range_in_file c s I g off len :
  Inv c s I g -> off + len <= g_len g ->
  (forall o d, In (o, Some d) (wb s) -> overlapb (o, blen d) (off, len) = false) ->
  no_overlap (g_out g) (off, len) = true -> no_overlap (g_poison g) (off, len) = true ->
  in_file (file s) off len = true /\ fread (file s) off len = rd (iat I) off (N.to_nat len).
Proof.
  intros H Hl Hw Ho Hp. destruct (i_len _ _ _ _ H) as [E1 E2].
  assert (Hin : in_file (file s) off len = true) by (apply in_file_spec; lia).
  split; auto. rewrite fread_rd by auto. apply rd_ext. intros i Hi.
  apply (i_file _ _ _ _ H). unfold uncovered. splits.
  - intros o d Hd. destruct (covers o d i) eqn:Ec; auto. exfalso.
    apply covers_in_rng in Ec. specialize (Hw _ _ Hd).
    rewrite (in_both_overlap (o, blen d) (off, len) i) in Hw; [discriminate|auto|unfold in_rng; simpl; lia].
  - intros r Hr Hir. apply no_overlap_spec with (a := r) in Ho; auto.
    rewrite (in_both_overlap r (off, len) i) in Ho; [discriminate|auto|unfold in_rng; simpl; lia].
  - intros r Hr Hir. apply no_overlap_spec with (a := r) in Hp; auto.
    rewrite (in_both_overlap r (off, len) i) in Hp; [discriminate|auto|unfold in_rng; simpl; lia].
Qed.

(* an entry found under the offset of a compatible range is that range and holds the array's bytes *)
Lemma entry_is_range I G o d len :
  compat G (o, len) = true -> In (o, blen d) G -> 0 < blen d -> 0 < len -> agrees I o d ->
  blen d = len /\ d = rd (iat I) o (N.to_nat len).
Proof.
  intros Hc Hin Hd Hl Ha.
  assert (E : blen d = len) by (eapply compat_exact_start; eauto).
  split; auto. rewrite <- E. unfold blen. rewrite Nat2N.id. symmetry. apply agrees_rd. auto.
Qed.

(* ------------------------------------------------------------------ read *)
Lemma proto_read c g off len h g' : proto_step c g (ORead off len h) = Some g' ->
  0 < len /\ off + len <= g_len g /\ compat (g_rc g) (off, len) = true /\ compat (g_wb g) (off, len) = true /\
  no_overlap (g_out g) (off, len) = true /\ no_overlap (g_poison g) (off, len) = true /\
  (h = HClean -> ~ In off (g_unc g)) /\ g' = g_set_rc g (radd (off, len) (g_rc g)).
Proof.
  cbn [proto_step]. destruct (_ && _) eqn:E; [|discriminate]. intros [= <-].
  repeat (apply andb_true_iff in E as [E ?]).
  apply N.ltb_lt in E. apply N.leb_le in H4. splits; auto.
  intros ->. simpl in H. apply negb_true_iff in H. intros Hin. apply memN_In in Hin. congruence.
Qed.

Lemma Inv_read_ghost c s I g off len :
  Inv c s I g -> 0 < len -> off + len <= g_len g -> no_overlap (g_out g) (off, len) = true ->
  Inv c s I (g_set_rc g (radd (off, len) (g_rc g))).
Proof.
  intros H Hl Hb Ho. apply Inv_grow_rc; auto.
  - intros a Ha. apply In_radd. auto.
  - intros a Ha. apply In_radd in Ha as [->|Ha]; [simpl; auto|apply (i_rng_rc _ _ _ _ H); auto].
  - intros a r Ha Hr. apply In_radd in Ha as [->|Ha].
    + rewrite overlapb_sym. apply no_overlap_spec with (a := r) in Ho; auto.
    + destruct (i_sep _ _ _ _ H r Hr) as (A & _). auto.
Qed.

Lemma read_miss_sound c s I g off len h o s' t r :
  Inv c s I g -> 0 < len -> off + len <= g_len g ->
  no_overlap (g_out g) (off, len) = true -> no_overlap (g_poison g) (off, len) = true ->
  alookup off (rc s) = None ->
  (forall o d, In (o, Some d) (wb s) -> overlapb (o, blen d) (off, len) = false) ->
  read_miss c s off len o = (s', t, r) ->
  sound c s I g (ORead off len h) o (g_set_rc g (radd (off, len) (g_rc g))) s' t r.
Proof.
  intros H Hl Hb Nout Npo Erc Hnowb E.
  pose proof (Inv_read_ghost _ _ _ _ off len H Hl Hb Nout) as H'.
  set (g' := g_set_rc g (radd (off, len) (g_rc g))) in *.
  assert (Fout : forall a, In a (g_out g) -> fst a <> off).
  { intros [o0 l] Ha. simpl. destruct (out_positive _ _ _ _ _ _ H Ha) as [Hp1 Hp2]. exact (no_overlap_start _ _ _ _ _ Nout Ha Hp1 Hl). }
  unfold read_miss in E.
  destruct (bcall_step s o false (BRead off len)) as [[[s1 o1] e1] r1] eqn:Eb.
  revert E.
  destruct (range_in_file _ _ _ _ off len H Hb Hnowb Nout Npo) as [Hin Hrd].
  pose proof (bcall_picks _ _ _ _ _ _ _ _ Eb) as (P1 & P2 & P3).
  apply bcall_facts in Eb. destruct Eb as (SC & TR & SH & ER & FR & OK & NOK & FF).
  assert (Hbe : Forall (fun e => e_be e = false) e1).
  { eapply Forall_impl; [|exact SH]. intros e [_ X]. exact X. }
  destruct (wres_ok r1) eqn:Er; simpl.
  2:{ (* the backend read failed or was refused *)
    specialize (NOK eq_refl). intros [= <- <- <-].
    unfold sound. splits; auto; try discriminate.
    - intros _. simpl. eapply Inv_same_caches; eauto.
    - intros _. destruct (ER eq_refl) as [X|X]; auto. right.
      unfold any_failed in X. unfold req_failed. apply existsb_exists in X as [e [He Hx]].
      apply existsb_exists. exists e. split; auto. rewrite Forall_forall in Hbe. rewrite (Hbe e He), Hx. reflexivity.
    - intros Hf. destruct (FF Hf) as [_ X]. apply X. simpl. rewrite Hin. reflexivity. }
  destruct (OK eq_refl) as (_ & Ef & El). simpl in Ef.
  assert (H1 : Inv c s1 I g') by (eapply Inv_same_caches; eauto).
  destruct SC as (S1 & S2 & S3 & S4 & S5 & S6).
  rewrite Ef, Hrd. set (buf := rd (iat I) off (N.to_nat len)).
  assert (Lbuf : blen buf = len) by (unfold buf, blen; rewrite rd_length; lia).
  (* reclaim *)
  destruct (if cpb s1 && (max_cache c <? rc_bytes s1 + len + wb_bytes s1)
            then let '(s', o', e', _, _) := flush_buffered_pages len s1 o1 in (s', o', e')
            else (s1, o1, [])) as [[s2 o2] e2] eqn:E2.
  assert (W2 : exists rX, wfacts true c I g' s1 s2 o1 o2 e2 rX).
  { destruct (cpb s1 && (max_cache c <? rc_bytes s1 + len + wb_bytes s1)).
    - destruct (flush_buffered_pages len s1 o1) as [[[[sa oa] ea] ra] fa] eqn:Ea. injection E2 as <- <- <-.
      exists ra. eapply flush_buffered_pages_facts; eauto.
    - injection E2 as <- <- <-. exists ROk. apply wfacts_refl; auto. }
  destruct W2 as (rX & H2 & (R2 & RB2 & C2) & TR2 & SH2 & _ & _ & FF2 & Q1 & Q2 & Q3 & _).
  assert (Erc2 : alookup off (rc s2) = None) by congruence.
  unfold rc_insert. simpl. rewrite Erc2.
  set (c' := mkC (page_size c) (max_cache c + len)).
  set (s3 := set_rc (set_rcb s2 (rc_bytes s2 + len)) (aset off buf (rc s2))).
  assert (Hsum3 : sum_rc (aset off buf (rc s2)) = rc_bytes s2 + len).
  { pose proof (sum_rc_aset off buf (rc s2) (i_nd_rc _ _ _ _ H2)) as X. rewrite Erc2 in X.
    destruct (i_rcb _ _ _ _ H2) as [Y _]. lia. }
  assert (H3 : Inv c' s3 I g').
  { eapply (inv_rc_aset c' s2 s3 I g' off buf); unfold s3; simpl; auto.
    - eapply Inv_budget; eauto. simpl. destruct (i_rcb _ _ _ _ H2). lia.
    - apply rd_agrees. auto.
    - rewrite Lbuf. apply In_radd. auto.
    - unfold aset in Hsum3. simpl in Hsum3. rewrite Hsum3. destruct (i_rcb _ _ _ _ H2). lia. }
  assert (TRall : tr_ok s (set_rc (set_rcb s2 (rc_bytes s2 + len)) (aset off buf (rc s2))) (e1 ++ e2)).
  { eapply tr_ok_trans; [exact TR|]. eapply tr_ok_latch; [exact TR2|reflexivity|reflexivity]. }
  assert (Hreq : req_failed (e1 ++ e2) = false).
  { rewrite req_failed_app. apply orb_false_iff. split.
    - destruct (req_failed e1) eqn:X; auto. apply req_failed_any in X. apply FR in X. discriminate.
    - unfold req_failed. destruct (existsb _ e2) eqn:X; auto. apply existsb_exists in X as [e [He Hx]].
      rewrite Forall_forall in SH2. destruct (SH2 e He) as [_ Y]. rewrite Y in Hx. rewrite andb_false_r in Hx. discriminate. }
  assert (Hff : fault_free o -> any_failed (e1 ++ e2) = false).
  { intros Hf. destruct (FF Hf) as [Hf1 X]. rewrite any_failed_app. rewrite X by (simpl; rewrite Hin; reflexivity).
    destruct (FF2 Hf1) as [_ Y]. rewrite Y. reflexivity. }
  assert (Fin : forall s5, Inv c' s5 I g' -> sum_rc (rc s5) <= max_cache c -> latch s5 = latch s3 ->
                sound c s I g (ORead off len h) o g' s5 (e1 ++ e2) (Data buf)).
  { intros s5 H5 Hle L5. unfold sound. splits; auto; try discriminate.
    - intros _. split; [eapply Inv_budget; eauto|reflexivity].
    - eapply tr_ok_latch; [exact TRall|reflexivity|exact L5].
    - intros X. congruence. }
  destruct (max_cache c <? rc_bytes s2 + len + wb_bytes s3) eqn:Eover.
  + (* evict from this stripe *)
    destruct (evict_stripe (length (rc s3)) (stripe off) len 0 (picks_for (stripe off) (rpicks o2)) s3) as [s5 fr] eqn:E5.
    simpl. intros [= <- <- <-]. eapply evict_stripe_facts in E5; eauto. destruct E5 as (H5 & Sh & _ & Eq & _ & Term).
    apply Fin; auto.
    * destruct (Term (le_n _)) as [Hfr|Hemp].
      -- destruct (i_rcb _ _ _ _ H5) as [Y _]. rewrite <- Y. unfold s3 in Eq. simpl in Eq.
         destruct (i_rcb _ _ _ _ H2). lia.
      -- (* the stripe is empty: the new page went too *)
         destruct Sh as (_ & _ & _ & _ & _ & Sub).
         apply N.le_trans with (sum_rc (rc s2)); [|apply (i_rcb _ _ _ _ H2)].
         apply sum_rc_sub; [apply (i_nd_rc _ _ _ _ H5)|apply (i_nd_rc _ _ _ _ H2)|].
         intros [k d] He. pose proof (Sub _ He) as He3. unfold s3 in He3. simpl in He3.
         apply In_aset in He3 as [[-> ->]|[He3 _]]; auto.
         exfalso. assert (X : In off (rc_cands (stripe off) s5)) by (apply rc_cands_In; eauto).
         rewrite Hemp in X. destruct X.
    * destruct Sh as (_ & _ & _ & _ & L & _). exact L.
  + intros [= <- <- <-]. apply Fin; auto. unfold s3. cbn [rc set_rc set_rcb]. rewrite Hsum3. apply N.ltb_ge in Eover. unfold s3 in Eover. simpl in Eover. lia.
Qed.

Lemma read_sound c s I g off len h o g' s' t r :
  Inv c s I g -> proto_step c g (ORead off len h) = Some g' -> read_op c s off len h o = (s', t, r) ->
  sound c s I g (ORead off len h) o g' s' t r.
Proof.
  intros H Hp E. apply proto_read in Hp as (Hl & Hb & Crc & Cwb & Nout & Npo & Hunc & ->).
  pose proof (Inv_read_ghost _ _ _ _ off len H Hl Hb Nout) as H'.
  set (g' := g_set_rc g (radd (off, len) (g_rc g))) in *.
  assert (Fwb : forall d, alookup off (wb s) = Some (Some d) -> blen d = len /\ d = rd (iat I) off (N.to_nat len)).
  { intros d El. apply alookup_In in El. destruct (i_wb_some _ _ _ _ H _ _ El) as [A B].
    pose proof (i_rng_wb _ _ _ _ H _ A) as [Hpos _]. simpl in Hpos. apply (entry_is_range I (g_wb g) off d len); auto. }
  assert (Fno : alookup off (wb s) <> Some None).
  { intros El. apply alookup_In in El. destruct (i_wb_none _ _ _ _ H _ El) as [l Hlo].
    destruct (out_positive _ _ _ _ _ _ H Hlo) as [Hp1 Hp2]. exact (no_overlap_start _ _ _ _ _ Nout Hlo Hp1 Hl eq_refl). }
  assert (Frc : forall d, alookup off (rc s) = Some d -> blen d = len /\ d = rd (iat I) off (N.to_nat len)).
  { intros d El. apply alookup_In in El. destruct (i_rc _ _ _ _ H _ _ El) as [A B].
    pose proof (i_rng_rc _ _ _ _ H _ A) as [Hpos _]. simpl in Hpos. apply (entry_is_range I (g_rc g) off d len); auto. }
  assert (Fout : forall a, In a (g_out g) -> fst a <> off).
  { intros [o0 l] Ha. simpl. destruct (out_positive _ _ _ _ _ _ H Ha) as [Hp1 Hp2]. exact (no_overlap_start _ _ _ _ _ Nout Ha Hp1 Hl). }
  (* a buffered page under the range is the page at this offset *)
  assert (Fcov : forall o0 d, In (o0, Some d) (wb s) -> overlapb (o0, blen d) (off, len) = true ->
                 alookup off (wb s) = Some (Some d)).
  { intros o0 d Hd Eo. destruct (i_wb_some _ _ _ _ H _ _ Hd) as [A _].
    apply compat_spec with (a := (o0, blen d)) in Cwb; auto.
    destruct Cwb as [X|X]; [|congruence]. inversion X; subst. apply In_alookup; auto. apply (i_nd_wb _ _ _ _ H). }
  unfold read_op in E.
  destruct (match h with HNone => alookup off (wb s) | HClean => None end) as [[d|]|] eqn:E1.
  - (* PageHint::None, found in the write buffer *)
    destruct h; [|discriminate]. injection E as <- <- <-. destruct (Fwb d E1) as [_ ->].
    apply sound_pure; auto; discriminate || reflexivity.
  - destruct h; [|discriminate]. exfalso. apply Fno. auto.
  - destruct (alookup off (rc s)) as [d|] eqn:Erc.
    + injection E as <- <- <-. destruct (Frc d eq_refl) as [_ ->]. apply sound_pure; auto; discriminate || reflexivity.
    + destruct (if is_clean h && cpb s then alookup off (wb s) else None) as [[d|]|] eqn:E3.
      * (* PageHint::Clean served from the write buffer, copied into the read cache when it fits *)
        assert (Ewb : alookup off (wb s) = Some (Some d)).
        { destruct (is_clean h && cpb s); [auto|discriminate]. }
        destruct (Fwb d Ewb) as [Ld ->]. set (buf := rd (iat I) off (N.to_nat len)) in *.
        injection E as <- <- <-. apply sound_pure; auto; try discriminate.
        -- unfold clean_copy. destruct (rc_bytes s + len <=? max_cache c); [|reflexivity].
           unfold rc_insert. simpl. rewrite Erc. reflexivity.
        -- unfold clean_copy. destruct (rc_bytes s + len <=? max_cache c) eqn:Em; auto.
           apply N.leb_le in Em. unfold rc_insert. simpl. rewrite Erc.
           pose proof (sum_rc_aset off buf (rc s) (i_nd_rc _ _ _ _ H)) as X. rewrite Erc in X.
           destruct (i_rcb _ _ _ _ H) as [Y Z].
           eapply (inv_rc_aset c s _ I g' off buf); simpl; auto.
           ++ apply alookup_In in Ewb. apply (i_wb_some _ _ _ _ H _ _ Ewb).
           ++ rewrite Ld. apply In_radd. auto.
           ++ unfold aset in X. simpl in X. lia.
           ++ unfold aset in X. simpl in X. lia.
        -- reflexivity.
      * exfalso. apply Fno. destruct (is_clean h && cpb s); [auto|discriminate].
      * eapply read_miss_sound; eauto.
        intros o0 d Hd. destruct (overlapb (o0, blen d) (off, len)) eqn:Eo; auto. exfalso.
        pose proof (Fcov _ _ Hd Eo) as Ewb.
        destruct h; simpl in E1, E3.
        -- congruence.
        -- destruct (cpb s) eqn:Ecpb; [congruence|].
           apply (Hunc eq_refl). apply alookup_In in Ewb. eapply (i_cpb _ _ _ _ H); eauto.
Qed.

(* ------------------------------------------------------------------ write *)
Definition g_write (g : ghost) (off len : N) : ghost :=
  mkG (rdel (off, len) (g_rc g)) (radd (off, len) (g_wb g)) ((off, len) :: g_out g) (off :: g_unc g)
      (g_poison g) None (g_len g).

Lemma proto_write c g off len ow g' : proto_step c g (OWrite off len ow) = Some g' ->
  g_flushing g = None /\ 0 < len /\ off mod page_size c = 0 /\ off + len <= g_len g /\
  compat (g_rc g) (off, len) = true /\ compat (g_wb g) (off, len) = true /\
  no_overlap (g_out g) (off, len) = true /\ (ow = false -> no_overlap (g_poison g) (off, len) = true) /\
  g' = g_write g off len.
Proof.
  cbn [proto_step]. destruct (_ && _) eqn:E; [|discriminate]. intros [= <-].
  repeat (apply andb_true_iff in E as [E ?]).
  apply negb_true_iff in E. apply N.ltb_lt in H5. apply N.eqb_eq in H4. apply N.leb_le in H3. splits; auto.
  - destruct (g_flushing g); [discriminate|reflexivity].
  - intros ->. simpl in H. exact H.
Qed.

Lemma wb_sum_cons k v l out :
  wb_sum ((k, v) :: l) out = (match v with Some d => blen d | None => out_len k out end) + wb_sum l out.
Proof. unfold wb_sum. simpl. destruct v; reflexivity. Qed.

Lemma out_len_cons_same o l out : out_len o ((o, l) :: out) = l.
Proof. simpl. rewrite N.eqb_refl. reflexivity. Qed.

Lemma out_len_cons_other o r out : fst r <> o -> out_len o (r :: out) = out_len o out.
Proof. intros Hn. simpl. destruct (fst r =? o) eqn:E; auto. apply N.eqb_eq in E. contradiction. Qed.

(* the common part: the ghost after write() given a state whose buffer has the page taken *)
Lemma inv_write_common c s s' I g off len :
  Inv c s I g -> 0 < len -> off + len <= g_len g ->
  compat (g_rc g) (off, len) = true -> compat (g_wb g) (off, len) = true -> no_overlap (g_out g) (off, len) = true ->
  alookup off (rc s) = None ->
  (* the buffer: the entry at off is now the taken one, the others are as before *)
  (forall o v, In (o, v) (wb s') <-> (o = off /\ v = None) \/ (In (o, v) (wb s) /\ o <> off)) ->
  NoDup (map fst (wb s')) ->
  (forall d, In (off, Some d) (wb s) -> blen d = len) ->
  wb_sum (wb s') ((off, len) :: g_out g) <= wb_bytes s' ->
  file s' = file s -> rc s' = rc s -> rc_bytes s' = rc_bytes s -> cpb s' = cpb s ->
  Inv c s' I (g_write g off len).
Proof.
  intros H Hl Hb Crc Cwb Nout Erc Hwb ND Hlen Hsum E1 E2 E4 E6.
  assert (Fout : forall o l, In (o, l) (g_out g) -> o <> off).
  { intros o l Ha. destruct (out_positive _ _ _ _ _ _ H Ha) as [Hp1 Hp2]. exact (no_overlap_start _ _ _ _ _ Nout Ha Hp1 Hl). }
  destruct H. constructor; unfold uncovered, g_write in *; simpl; rewrite ?E1, ?E2, ?E4, ?E6; try assumption.
  - (* i_wb_some *)
    intros o d Hin. apply Hwb in Hin as [[_ X]|[Hin _]]; [discriminate|].
    destruct (i_wb_some _ _ Hin). split; auto. apply In_radd. auto.
  - (* i_wb_none *)
    intros o Hin. apply Hwb in Hin as [[-> _]|[Hin _]]; [exists len; auto|].
    destruct (i_wb_none _ Hin) as [l Hlo]. exists l. auto.
  - (* i_out *)
    intros o l [X|Hin].
    + inversion X; subst. splits; auto. * apply Hwb. auto. * apply In_radd. auto.
    + destruct (i_out _ _ Hin) as (A & B & C). splits; auto.
      * apply Hwb. right. split; auto. eapply Fout; eauto.
      * apply In_radd. auto.
  - (* i_rc *)
    intros o d Hin. destruct (i_rc _ _ Hin) as [A B]. split; auto. apply In_rdel. split; auto.
    intros X. inversion X; subst. apply In_alookup in Hin; auto. congruence.
  - (* i_file *)
    intros i (U1 & U2 & U3). apply i_file. splits; auto.
    intros o d Hin. destruct (N.eq_dec o off) as [->|Hne].
    + destruct (covers off d i) eqn:Ec; auto. exfalso. apply (U2 (off, len)); [left; auto|].
      apply covers_in_rng in Ec. rewrite (Hlen _ Hin) in Ec. exact Ec.
    + apply U1. apply Hwb. auto.
  - (* i_cpb *)
    intros Hc o v Hin. apply Hwb in Hin as [[-> _]|[Hin _]]; [left; auto|right; eauto].
  - (* i_rng_wb *)
    intros r Hr. apply In_radd in Hr as [->|Hr]; auto.
  - (* i_rng_rc *)
    intros r Hr. apply In_rdel in Hr as [Hr _]. auto.
  - (* i_sep *)
    intros r [<-|Hr].
    + splits.
      * intros a Ha. apply In_rdel in Ha as [Ha Hn]. apply compat_spec with (a := a) in Crc; auto. destruct Crc; [contradiction|auto].
      * intros a Ha. apply In_radd in Ha as [->|Ha]; auto. apply compat_spec with (a := a) in Cwb; auto.
      * intros a [<-|Ha]; auto. right. apply no_overlap_spec with (a := a) in Nout; auto.
    + destruct (i_sep r Hr) as (A & B & C). splits.
      * intros a Ha. apply In_rdel in Ha as [Ha _]. auto.
      * intros a Ha. apply In_radd in Ha as [->|Ha]; auto. right. rewrite overlapb_sym.
        apply no_overlap_spec with (a := r) in Nout; auto.
      * intros a [<-|Ha]; auto. right. rewrite overlapb_sym. apply no_overlap_spec with (a := r) in Nout; auto.
  - (* i_flush *)
    intros k Hk. discriminate.
Qed.

Lemma any_failed_req t : Forall (fun e => e_be e = false) t -> req_failed t = any_failed t.
Proof.
  induction 1 as [|e t He _ IH]; simpl; auto. unfold req_failed, any_failed in *. simpl. rewrite He, IH.
  rewrite andb_true_r. reflexivity.
Qed.

Lemma writes_not_be t : Forall (fun e => is_write_ev e = true /\ e_be e = false) t -> Forall (fun e => e_be e = false) t.
Proof. apply Forall_impl. tauto. Qed.

Lemma sound_latch c s0 s I g x o g' s' t r :
  sound c s0 I g x o g' s' t r -> latch s = latch s0 -> sound c s I g x o g' s' t r.
Proof.
  intros (A1 & A2 & A3 & A4 & A5 & A6 & A7) E. unfold sound. splits; auto.
  - eapply tr_ok_latch; eauto.
  - rewrite E. auto.
Qed.

Lemma wfacts_ok_res be c I g s s' o o' t r :
  wfacts be c I g s s' o o' t r -> wres_ok r = true -> wfacts be c I g s s' o o' t ROk.
Proof.
  intros (A1 & A2 & A3 & A4 & A5 & A6 & A7 & A8) Hok. unfold wfacts. splits; auto; try tauto.
  - discriminate.
  - intros Hf. apply A6 in Hf. congruence.
Qed.

Lemma write_miss_sound c s0 I g existing off len ow o s' t r :
  Inv c s0 I g -> 0 < len -> off + len <= g_len g ->
  compat (g_rc g) (off, len) = true -> compat (g_wb g) (off, len) = true -> no_overlap (g_out g) (off, len) = true ->
  (ow = false -> no_overlap (g_poison g) (off, len) = true) ->
  alookup off (rc s0) = None -> alookup off (wb s0) = None ->
  (forall x, existing = Some x -> blen x = len /\ x = rd (iat I) off (N.to_nat len)) ->
  write_miss c s0 existing off len ow o = (s', t, r) ->
  sound c s0 I g (OWrite off len ow) o (g_write g off len) s' t r.
Proof.
  intros H Hl Hb Crc Cwb Nout Npo Erc Ewb Hex E.
  unfold write_miss in E.
  set (s1 := set_wbb s0 (wb_bytes s0 + len)) in *.
  assert (H1 : Inv c s1 I g) by (eapply inv_wbb_grow; eauto; simpl; lia).
  assert (Slack1 : wb_sum (wb s1) (g_out g) + len <= wb_bytes s1).
  { simpl. pose proof (i_wbb _ _ _ _ H). lia. }
  (* rule 1 *)
  destruct (if max_cache c / 2 <? wb_bytes s1
            then let excess := wb_bytes s1 - max_cache c / 2 in
                 let '(sa, oa, ea, ra, fl) := flush_lowest_priority (stripe off) excess Required s1 o in
                 if negb (wres_ok ra) then (sa, oa, ea, ra)
                 else let excess' := excess - fl in
                      if 0 <? excess'
                      then let '(sb, ob, eb, rb) := flush_others (NSTRIPES - 1) (stripe off) 1 excess' sa oa in
                           (sb, ob, ea ++ eb, rb)
                      else (sa, oa, ea, ROk)
            else (s1, o, [], ROk)) as [[[s2 o2] e2] r2] eqn:E2.
  assert (W2 : wfacts false c I g s1 s2 o o2 e2 r2).
  { match type of E2 with (if ?b then _ else _) = _ => destruct b end.
    - cbv zeta in E2.
      match type of E2 with context [flush_lowest_priority ?a ?b ?m ?x ?y] =>
        destruct (flush_lowest_priority a b m x y) as [[[[sa oa] ea] ra] fl] eqn:Ea end.
      eapply flush_lowest_priority_facts in Ea; eauto. simpl in Ea.
      destruct (wres_ok ra) eqn:Era; cbn [negb] in E2.
      + match type of E2 with context [if ?b then _ else _] => destruct b end.
        * match type of E2 with context [flush_others ?a ?b ?m ?x ?y ?z] =>
            destruct (flush_others a b m x y z) as [[[sb ob] eb] rb] eqn:Eo end.
          injection E2 as <- <- <- <-. eapply flush_others_facts in Eo; [|apply Ea].
          eapply wfacts_trans; eauto.
        * injection E2 as <- <- <- <-. eapply wfacts_ok_res; eauto.
      + injection E2 as <- <- <- <-. exact Ea.
    - injection E2 as <- <- <- <-. apply wfacts_refl; auto. }
  destruct W2 as (H2 & (R2 & RB2 & C2) & TR2 & SH2 & ER2 & FR2 & FF2 & Q1 & Q2 & Q3 & _ & Slack & Sub2).
  specialize (Slack len Slack1).
  assert (Hbe2 : Forall (fun e => e_be e = false) e2) by (apply writes_not_be; auto).
  destruct (wres_ok r2) eqn:Er2; cbn [negb] in E.
  2:{ (* a required eviction failed *)
    injection E as <- <- <-. unfold sound. splits; auto; try discriminate.
    - intros _. destruct (ER2 eq_refl) as [X|X]; auto. right. rewrite any_failed_req; auto.
    - intros Hf. destruct (FF2 Hf). auto. }
  (* rules 2 + 3 *)
  set (s3 := if max_cache c <? wb_bytes s2 + rc_bytes s2
             then evict_from_read_cache (wb_bytes s2 + rc_bytes s2 - max_cache c) (rpicks o2) s2 else s2) in *.
  assert (X3 : Inv c s3 I g /\ rc_shrunk s2 s3).
  { unfold s3. destruct (max_cache c <? wb_bytes s2 + rc_bytes s2).
    - apply evict_from_read_cache_facts. auto.
    - split; auto using rc_shrunk_refl. }
  destruct X3 as (H3 & F3 & W3 & B3 & C3 & L3 & Sub3).
  assert (Erc3 : alookup off (rc s3) = None).
  { destruct (alookup off (rc s3)) eqn:Ex; auto. apply alookup_In in Ex. apply Sub3 in Ex. rewrite R2 in Ex.
    simpl in Ex. apply In_alookup in Ex; [congruence|apply (i_nd_rc _ _ _ _ H)]. }
  assert (Hnokey : forall v, ~ In (off, v) (wb s3)).
  { intros v Hin. rewrite W3 in Hin. apply Sub2 in Hin. simpl in Hin.
    apply In_alookup in Hin; [congruence|apply (i_nd_wb _ _ _ _ H)]. }
  (* what the page starts from *)
  destruct (match existing with
            | Some r => (s3, [], ROk, r)
            | None => if ow then (s3, [], ROk, zeros len)
                      else let '(sr, _, er, rr) := bcall_step s3 o2 false (BRead off len) in
                           (sr, er, rr, fread (file sr) off len)
            end) as [[[s4 e4] r4] data] eqn:E4.
  assert (X4 : Inv c s4 I g /\ same_caches s3 s4 /\ tr_ok s3 s4 e4 /\ Forall (fun e => e_be e = false) e4 /\
               (wres_ok r4 = false -> io_failed (latch s3) = true \/ any_failed e4 = true) /\
               (any_failed e4 = true -> wres_ok r4 = false) /\
               (fault_free o2 -> any_failed e4 = false) /\
               (wres_ok r4 = true -> file s4 = file s3 /\ blen data = len /\ (ow = false -> data = rd (iat I) off (N.to_nat len)))).
  { destruct existing as [x|].
    - injection E4 as <- <- <- <-. destruct (Hex x eq_refl) as [Lx ->].
      splits; auto using tr_ok_refl; try discriminate. unfold same_caches; auto 10.
    - destruct ow.
      + injection E4 as <- <- <- <-. splits; auto using tr_ok_refl; try discriminate.
        * unfold same_caches; auto 10.
        * intros _. splits; auto. apply zeros_blen. discriminate.
      + destruct (bcall_step s3 o2 false (BRead off len)) as [[[sr orr] er] rr] eqn:Eb.
        injection E4 as <- <- <- <-.
        assert (Hnowb : forall o0 d, In (o0, Some d) (wb s3) -> overlapb (o0, blen d) (off, len) = false).
        { intros o0 d Hd. destruct (overlapb (o0, blen d) (off, len)) eqn:Eo; auto. exfalso.
          destruct (i_wb_some _ _ _ _ H3 _ _ Hd) as [A _]. apply compat_spec with (a := (o0, blen d)) in Cwb; auto.
          destruct Cwb as [X|X]; [|congruence]. inversion X; subst. eapply Hnokey; eauto. }
        destruct (range_in_file _ _ _ _ off len H3 Hb Hnowb Nout (Npo eq_refl)) as [Hin Hrd].
        apply bcall_facts in Eb. destruct Eb as (SC & TR & SH & ER & FR & OK & NOK & FF).
        splits; auto.
        * destruct (wres_ok rr) eqn:Err.
          -- destruct (OK eq_refl) as (_ & Ef & _). simpl in Ef. eapply Inv_same_caches; eauto.
          -- eapply Inv_same_caches; eauto.
        * eapply Forall_impl; [|exact SH]. intros e [_ X]. exact X.
        * intros Hf. destruct (FF Hf) as [_ X]. apply X. simpl. rewrite Hin. reflexivity.
        * intros Hok. destruct (OK Hok) as (_ & Ef & _). simpl in Ef. splits; auto.
          -- rewrite Ef. apply fread_length. auto.
          -- intros _. rewrite Ef. exact Hrd. }
  destruct X4 as (H4 & (S41 & S42 & S43 & S44 & S45 & S46) & TR4 & Hbe4 & ER4 & FR4 & FF4 & OK4).
  assert (TRall : tr_ok s0 s4 (e2 ++ e4)).
  { eapply tr_ok_trans; [eapply tr_ok_latch; [exact TR2|reflexivity|reflexivity]|].
    eapply tr_ok_latch; [exact TR4|symmetry; exact L3|reflexivity]. }
  assert (Hbe : Forall (fun e => e_be e = false) (e2 ++ e4)) by (apply Forall_app; auto).
  assert (Hff : fault_free o -> any_failed (e2 ++ e4) = false).
  { intros Hf. destruct (FF2 Hf) as [Hf2 X]. rewrite any_failed_app, X, (FF4 Hf2). reflexivity. }
  destruct (wres_ok r4) eqn:Er4; cbn [negb] in E.
  2:{ injection E as <- <- <-. unfold sound. splits; auto; try discriminate.
      intros _. rewrite any_failed_req by auto. rewrite any_failed_app.
      destruct (ER4 eq_refl) as [X|X]; [|right; rewrite X; apply orb_true_r].
      destruct TR2 as (_ & L2 & _). rewrite L3, L2 in X. simpl in X.
      apply orb_true_iff in X as [X|X]; auto. right. apply req_failed_any in X. rewrite X. reflexivity. }
  injection E as <- <- <-. destruct (OK4 eq_refl) as (F4 & Ld & Hd).
  assert (Hany : any_failed (e2 ++ e4) = false).
  { rewrite any_failed_app. apply orb_false_iff. split.
    - destruct (any_failed e2) eqn:X; auto.
    - destruct (any_failed e4) eqn:X; auto. }
  unfold sound. splits; auto; try discriminate.
  - intros _. split.
    + eapply (inv_write_common c s4 _ I g off len); eauto; simpl; auto.
      * congruence.
      * intros o0 v. split.
        -- intros [X|Hin]; [inversion X; auto|]. right. split; auto. intros ->. apply (Hnokey v). congruence.
        -- intros [[-> ->]|[Hin _]]; auto.
      * constructor; [|apply (i_nd_wb _ _ _ _ H4)]. intros Hin. apply in_map_iff in Hin as [[k v] [Ek Hin]].
        simpl in Ek. subst. apply (Hnokey v). congruence.
      * intros d Hin. exfalso. apply (Hnokey (Some d)). congruence.
      * rewrite N.eqb_refl.
        rewrite (wb_sum_out_ext (wb s4) (g_out g) ((off, len) :: g_out g)).
        -- rewrite S42, W3, S44, B3. lia.
        -- intros o0 Hin. apply out_len_cons_other. simpl. intros <-. apply (Hnokey None). congruence.
    + simpl. exists data. auto.
  - rewrite any_failed_req by auto. congruence.
Qed.

Lemma write_sound c s I g off len ow o g' s' t r :
  Inv c s I g -> proto_step c g (OWrite off len ow) = Some g' -> write_op c s off len ow o = (s', t, r) ->
  sound c s I g (OWrite off len ow) o g' s' t r.
Proof.
  intros H Hp E. apply proto_write in Hp as (Hfl & Hl & Hal & Hb & Crc & Cwb & Nout & Npo & ->).
  assert (Fwb : forall d, In (off, Some d) (wb s) -> blen d = len /\ d = rd (iat I) off (N.to_nat len)).
  { intros d El. destruct (i_wb_some _ _ _ _ H _ _ El) as [A B].
    pose proof (i_rng_wb _ _ _ _ H _ A) as [Hpos _]. simpl in Hpos. apply (entry_is_range I (g_wb g) off d len); auto. }
  assert (Fno : ~ In (off, None) (wb s)).
  { intros El. destruct (i_wb_none _ _ _ _ H _ El) as [l Hlo].
    destruct (out_positive _ _ _ _ _ _ H Hlo) as [Hp1 Hp2]. exact (no_overlap_start _ _ _ _ _ Nout Hlo Hp1 Hl eq_refl). }
  assert (Frc : forall d, alookup off (rc s) = Some d -> blen d = len /\ d = rd (iat I) off (N.to_nat len)).
  { intros d El. apply alookup_In in El. destruct (i_rc _ _ _ _ H _ _ El) as [A B].
    pose proof (i_rng_rc _ _ _ _ H _ A) as [Hpos _]. simpl in Hpos. apply (entry_is_range I (g_rc g) off d len); auto. }
  unfold write_op in E. rewrite Hal in E. rewrite N.eqb_refl in E. cbn [negb] in E.
  set (existing := alookup off (rc s)) in *.
  assert (Hex : forall x, existing = Some x -> blen x = len /\ x = rd (iat I) off (N.to_nat len)) by (intros x Hx; apply Frc; auto).
  assert (Hnp : (match existing with Some r0 => negb (blen r0 =? len) | None => false end) = false).
  { destruct existing as [x|] eqn:Ex; auto. destruct (Hex x eq_refl) as [-> _]. rewrite N.eqb_refl. reflexivity. }
  rewrite Hnp in E.
  set (s0 := match existing with
             | Some r0 => set_rcb (set_rc s (aremove off (rc s))) (rc_bytes s - blen r0)
             | None => s end) in *.
  assert (X0 : Inv c s0 I g /\ alookup off (rc s0) = None /\ wb s0 = wb s /\ latch s0 = latch s).
  { unfold s0. destruct existing as [x|] eqn:Ex.
    - splits; auto. + eapply inv_rc_remove; eauto. + simpl. apply alookup_aremove_same.
    - splits; auto. }
  destruct X0 as (H0 & Erc0 & W0 & L0).
  destruct (alookup off (wb s0)) as [[d|]|] eqn:Ewb.
  - (* the page is already buffered: take it *)
    injection E as <- <- <-. rewrite W0 in Ewb. apply alookup_In in Ewb. destruct (Fwb d Ewb) as [Ld Hd].
    eapply sound_latch; [|symmetry; exact L0].
    apply sound_pure; try discriminate; try reflexivity.
    + eapply (inv_write_common c s0 _ I g off len); eauto; try reflexivity; cbn [wb set_wb].
      * intros o0 v. rewrite In_aset. tauto.
      * apply NoDup_aset. apply (i_nd_wb _ _ _ _ H0).
      * intros d' Hin. rewrite W0 in Hin. apply (Fwb d' Hin).
      * unfold aset. rewrite wb_sum_cons, out_len_cons_same.
        rewrite (wb_sum_out_ext (aremove off (wb s0)) (g_out g) ((off, len) :: g_out g)).
        -- pose proof (i_wbb _ _ _ _ H0) as X.
           rewrite (wb_sum_aremove off (Some d) (wb s0) (g_out g) (i_nd_wb _ _ _ _ H0)) in X by (rewrite W0; auto). cbn [wb_bytes set_wb]. lia.
        -- intros o0 Hin. apply In_aremove in Hin as [_ Hne]. apply out_len_cons_other. simpl. auto.
    + simpl. exists d. auto.
  - exfalso. apply Fno. rewrite <- W0. apply alookup_In. auto.
  - eapply sound_latch; [|symmetry; exact L0]. eapply write_miss_sound; eauto.
Qed.

(* ------------------------------------------------------------------ drop of the WritablePage *)
Lemma out_len_rdel_other r out o : fst r <> o -> out_len o (rdel r out) = out_len o out.
Proof.
  intros Hn. induction out as [|a out IH]; simpl; auto.
  destruct (range_eqb a r) eqn:E; simpl.
  - apply range_eqb_eq in E. subst. destruct (fst r =? o) eqn:E2; auto. apply N.eqb_eq in E2. contradiction.
  - rewrite IH. reflexivity.
Qed.

Lemma drop_sound c s I g off data o g' s' t r :
  Inv c s I g -> proto_step c g (ODrop off data) = Some g' -> drop_op s off data = (s', t, r) ->
  sound c s I g (ODrop off data) o g' s' t r.
Proof.
  intros H Hp E. cbn [proto_step] in Hp.
  destruct (negb (is_some (g_flushing g)) && existsb (range_eqb (off, blen data)) (g_out g)) eqn:Ec; [|discriminate].
  injection Hp as <-. apply andb_true_iff in Ec as [_ Ho]. apply existsb_exists in Ho as [a [Ha Ea]].
  apply range_eqb_eq in Ea. subst a. set (r0 := (off, blen data)) in *.
  destruct (i_out _ _ _ _ H _ _ Ha) as (Wn & Rn & Gw).
  destruct (i_sep _ _ _ _ H _ Ha) as (S1 & S2 & S3).
  destruct (out_positive _ _ _ _ _ _ H Ha) as [Hpos Hend].
  unfold drop_op in E. rewrite (In_alookup _ _ _ (i_nd_wb _ _ _ _ H) Wn) in E. injection E as <- <- <-.
  set (I' := apply_op (Write off data) I).
  assert (HI : forall i, iat I' i = if covers off data i then wbyte off data i else iat I i) by reflexivity.
  assert (Hout : forall i, ~ in_rng r0 i -> iat I' i = iat I i).
  { intros i Hi. rewrite HI. destruct (covers off data i) eqn:Ec; auto. apply covers_in_rng in Ec. contradiction. }
  assert (Hag : forall o0 d, agrees I o0 d -> overlapb (o0, blen d) r0 = false -> agrees I' o0 d).
  { intros o0 d Hag Hov. eapply agrees_ext; [|exact Hag]. intros i Hc. apply Hout. intros Hi.
    apply covers_in_rng in Hc. rewrite (in_both_overlap _ _ _ Hc Hi) in Hov. discriminate. }
  apply sound_pure; try discriminate; try reflexivity.
  constructor; unfold uncovered in *;
    cbn [wb rc file rc_bytes wb_bytes cpb set_wb g_rc g_wb g_out g_unc g_poison g_flushing g_len ideal_step].
  - intros o0 d Hin. apply In_aset in Hin as [[-> X]|[Hin Hne]].
    + inversion X; subst. split; auto. intros i Hc. rewrite HI, Hc. reflexivity.
    + destruct (i_wb_some _ _ _ _ H _ _ Hin) as [A B]. split; auto. apply Hag; auto.
      destruct (S2 _ A) as [X|X]; auto. inversion X; subst. contradiction.
  - intros o0 Hin. apply In_aset in Hin as [[_ X]|[Hin Hne]]; [discriminate|].
    destruct (i_wb_none _ _ _ _ H _ Hin) as [l Hlo]. exists l. apply In_rdel. split; auto.
    intros X. inversion X; subst. contradiction.
  - intros o0 l Hin. apply In_rdel in Hin as [Hin Hne].
    assert (Ho0 : o0 <> off).
    { intros ->. apply Hne. eapply (out_unique _ _ _ _ _ _ H Ha); eauto. }
    destruct (i_out _ _ _ _ H _ _ Hin) as (A & B & C). splits; auto. apply In_aset. auto.
  - intros o0 d Hin. destruct (i_rc _ _ _ _ H _ _ Hin) as [A B]. split; auto.
  - apply NoDup_aset. apply (i_nd_wb _ _ _ _ H).
  - apply (i_nd_rc _ _ _ _ H).
  - intros i (U1 & U2 & U3).
    assert (Hni : ~ in_rng r0 i).
    { intros Hi. assert (X : covers off data i = true) by (apply covers_in_rng; exact Hi).
      rewrite (U1 off data) in X; [discriminate|]. apply In_aset. auto. }
    rewrite Hout by auto. apply (i_file _ _ _ _ H). unfold uncovered. splits.
    + intros o0 d Hin. apply U1. apply In_aset. right. split; auto. intros ->.
      pose proof (In_alookup _ _ _ (i_nd_wb _ _ _ _ H) Hin) as X. pose proof (In_alookup _ _ _ (i_nd_wb _ _ _ _ H) Wn) as Y. congruence.
    + intros a Hin Hi. destruct (range_eqb a r0) eqn:Er.
      * apply range_eqb_eq in Er. subst. contradiction.
      * apply (U2 a); auto. unfold rdel. apply filter_In. rewrite Er. auto.
    + intros a Hin Hi. destruct (inside a r0) eqn:Ei.
      * apply Hni. unfold inside in Ei. apply andb_true_iff in Ei as [X Y]. apply N.leb_le in X, Y.
        unfold in_rng in *. simpl in *. lia.
      * apply (U3 a); auto. apply filter_In. rewrite Ei. auto.
  - destruct (i_len _ _ _ _ H). auto.
  - intros Hc o0 v Hin. apply In_aset in Hin as [[-> _]|[Hin _]].
    + eapply (i_cpb _ _ _ _ H); eauto.
    + eapply (i_cpb _ _ _ _ H); eauto.
  - pose proof (i_wbb _ _ _ _ H) as X.
    rewrite (wb_sum_aremove off None (wb s) (g_out g) (i_nd_wb _ _ _ _ H) Wn) in X.
    rewrite (out_len_In off (blen data) (g_out g) Ha (out_unique _ _ _ _ _ _ H Ha)) in X.
    unfold aset. rewrite wb_sum_cons.
    rewrite (wb_sum_out_ext (aremove off (wb s)) (g_out g) (rdel r0 (g_out g))); [lia|].
    intros o0 Hin. apply In_aremove in Hin as [_ Hne]. apply out_len_rdel_other. simpl. auto.
  - apply (i_rcb _ _ _ _ H).
  - apply (i_rng_wb _ _ _ _ H).
  - apply (i_rng_rc _ _ _ _ H).
  - intros a Hin. apply In_rdel in Hin as [Hin _]. destruct (i_sep _ _ _ _ H _ Hin) as (A & B & C). splits; auto.
    intros b Hb. apply In_rdel in Hb as [Hb _]. auto.
  - intros k Hk. discriminate.
Qed.

(* ------------------------------------------------------------------ flush_write_buffer / flush / sync *)
Definition g_flush0 (g : ghost) : ghost :=
  mkG (g_wb g ++ g_rc g) (g_wb g) (g_out g) (g_unc g) (g_poison g) (g_flushing g) (g_len g).
Definition g_set_flushing (g : ghost) (f : option N) : ghost :=
  mkG (g_rc g) (g_wb g) (g_out g) (g_unc g) (g_poison g) f (g_len g).
Definition g_done (g : ghost) : ghost :=
  mkG (g_wb g ++ g_rc g) [] (g_out g) [] (g_poison g) None (g_len g).

Lemma Inv_flush0 c s I g : Inv c s I g -> g_out g = [] -> Inv c s I (g_flush0 g).
Proof.
  intros H Ho. apply (Inv_grow_rc c s I g (g_wb g ++ g_rc g)); auto.
  - intros a Ha. apply in_or_app. auto.
  - intros a Ha. apply in_app_or in Ha as [Ha|Ha]; [apply (i_rng_wb _ _ _ _ H)|apply (i_rng_rc _ _ _ _ H)]; auto.
  - intros a r Ha Hr. rewrite Ho in Hr. destruct Hr.
Qed.

Lemma Inv_set_flushing c s I g f :
  Inv c s I g -> (forall k, f = Some k -> (forall o v, In (o, v) (wb s) -> k <= stripe o) /\ g_out g = []) ->
  Inv c s I (g_set_flushing g f).
Proof. intros H Hf. destruct H. constructor; simpl; try assumption. Qed.

Lemma Inv_cpb_false_empty c s I g : Inv c s I g -> wb s = [] -> Inv c (set_cpb s false) I g.
Proof.
  intros H Hw. destruct H. constructor; unfold uncovered in *; simpl; try assumption.
  intros _ o v Hin. rewrite Hw in Hin. destruct Hin.
Qed.

Lemma Inv_flush_done c s I g : Inv c s I (g_flush0 g) -> wb s = [] -> g_out g = [] -> Inv c s I (g_done g).
Proof.
  intros H Hw Ho. destruct H. constructor; unfold uncovered in *; simpl in *; try assumption.
  - intros o d Hin. rewrite Hw in Hin. destruct Hin.
  - intros o l Hin. rewrite Ho in Hin. destruct Hin.
  - intros _ o v Hin. rewrite Hw in Hin. destruct Hin.
  - intros r [].
  - intros r Hr. rewrite Ho in Hr. destruct Hr.
  - intros k Hk. discriminate.
Qed.

Lemma tfacts_sound_parts s s' o o' t wr :
  tfacts false s s' o o' t wr ->
  tr_ok s s' t /\ (wres_ok wr = false -> io_failed (latch s) = true \/ req_failed t = true) /\
  (req_failed t = true -> wres_ok wr = false) /\ (fault_free o -> any_failed t = false).
Proof.
  intros (A1 & A2 & A3 & A4 & A5 & _).
  assert (Hbe : Forall (fun e => e_be e = false) t) by (apply writes_not_be; auto).
  splits; auto.
  - intros Hr. rewrite any_failed_req; auto.
  - rewrite any_failed_req; auto.
  - intros Hf. apply A5 in Hf. tauto.
Qed.

Lemma flush_stripes_sound c s I g j k o g' s' t r :
  Inv c s I g -> proto_step c g (OFlushStripes j k) = Some g' -> step c s (OFlushStripes j k) o = (s', t, r) ->
  sound c s I g (OFlushStripes j k) o g' s' t r.
Proof.
  intros H Hp E. cbn [proto_step] in Hp.
  destruct (_ && _) eqn:Ec in Hp; [|discriminate]. injection Hp as <-.
  apply andb_true_iff in Ec as [Ec Hd]. apply andb_true_iff in Ec as [Ec Hk]. apply andb_true_iff in Ec as [Ec Hjk].
  apply N.leb_le in Hjk, Hk.
  assert (Ho : g_out g = []) by (destruct (g_out g); [reflexivity|discriminate]).
  assert (Hj : forall o0 v, In (o0, v) (wb s) -> j <= stripe o0).
  { intros o0 v Hin. destruct (g_flushing g) as [j'|] eqn:Ef.
    - apply N.eqb_eq in Ec. subst j'. destruct (i_flush _ _ _ _ H _ Ef) as [A _]. eauto.
    - apply N.eqb_eq in Ec. subst j. lia. }
  cbn [step] in E.
  destruct (flush_stripes c (N.to_nat (k - j)) j s o) as [[[s1 o1] e1] r1] eqn:E1. injection E as <- <- <-.
  pose proof (Inv_flush0 _ _ _ _ H Ho) as HF0.
  eapply flush_stripes_facts in E1; [|exact HF0|exact Ho|].
  2:{ simpl. intros a Ha. apply in_or_app. auto. }
  destruct E1 as (H1' & C1 & Sub & wr & T1 & X).
  destruct (tfacts_sound_parts _ _ _ _ _ _ T1) as (TR & ER & RQ & FF).
  destruct X as [(Ok & -> & Em)|(Er & ->)].
  - unfold sound. splits; auto; try discriminate.
    + intros _. split; [|reflexivity].
      apply (Inv_set_flushing c s1 I (g_flush0 g) (Some k)); auto.
      intros k0 [= <-]. split; auto. intros o0 v Hin.
      pose proof (Hj _ _ (Sub _ Hin)) as X1. pose proof (Em _ _ Hin) as X2. lia.
    + intros X. apply RQ in X. congruence.
  - unfold sound. splits; auto; try discriminate.
Qed.

Lemma flush_end_sound c s I g o g' :
  Inv c s I g -> proto_step c g OFlushEnd = Some g' ->
  sound c s I g OFlushEnd o g' (set_cpb s false) [] Done.
Proof.
  intros H Hp. cbn [proto_step] in Hp. destruct (g_flushing g) as [k|] eqn:Ef; [|discriminate].
  destruct (k =? STRIPES) eqn:Ek; [|discriminate]. injection Hp as <-. apply N.eqb_eq in Ek. subst k.
  destruct (i_flush _ _ _ _ H _ Ef) as [A Ho].
  assert (Hw : wb s = []).
  { destruct (wb s) as [|[o0 v] l] eqn:Ew; auto. exfalso. specialize (A o0 v (or_introl eq_refl)).
    pose proof (stripe_lt o0). lia. }
  apply sound_pure; try discriminate; try reflexivity.
  apply (Inv_flush_done c (set_cpb s false) I g); auto. apply Inv_cpb_false_empty; auto. apply Inv_flush0; auto.
Qed.

Lemma sync_step_facts c s I g o s' t r :
  sync_step s o = (s', t, r) -> Inv c s I g ->
  Inv c s' I g /\ wb s' = wb s /\ cpb s' = cpb s /\ (r = Done \/ exists e, r = Err e) /\
  tr_ok s s' t /\ (res_is_err r = true -> io_failed (latch s) = true \/ req_failed t = true) /\
  (req_failed t = true -> res_is_err r = true) /\ (fault_free o -> any_failed t = false) /\
  Forall (fun e => is_sync_ev e = true) t.
Proof.
  unfold sync_step. destruct (bcall_step s o false BSync) as [[[s1 o1] e1] r1] eqn:Eb. intros [= <- <- <-] H.
  pose proof Eb as Eb2. apply bcall_facts in Eb2. destruct Eb2 as (SC & _ & SH & _ & _ & OK & NOK & _).
  apply bcall_tfacts in Eb; [|reflexivity]. destruct Eb as (TR & Hbe & ER & FR & FF & _).
  assert (Hf : file s1 = file s).
  { destruct (wres_ok r1) eqn:Er; [destruct (OK eq_refl) as (_ & X & _); exact X|auto]. }
  splits; auto; try apply SC.
  - eapply Inv_same_caches; eauto.
  - destruct (wres_ok r1); eauto.
  - destruct (wres_ok r1) eqn:Er; [discriminate|]. intros _. rewrite any_failed_req; auto.
  - rewrite any_failed_req; auto. intros X. rewrite (FR X). reflexivity.
  - intros Hff. apply FF in Hff. tauto.
  - eapply Forall_impl; [|exact SH]. intros e [X _]. unfold is_sync_ev. rewrite X. reflexivity.
Qed.

Lemma sync_sound c s I g o s' t r :
  Inv c s I g -> sync_step s o = (s', t, r) -> sound c s I g OSync o g s' t r.
Proof.
  intros H E. eapply sync_step_facts in E; eauto. destruct E as (H1 & _ & _ & Hr & TR & ER & RQ & FF & _).
  unfold sound. splits; auto.
  - destruct Hr as [->|[e ->]]; discriminate.
  - intros Hne. split; auto. destruct Hr as [->|[e ->]]; [reflexivity|discriminate].
Qed.

Lemma flush_sound c s I g o g' s' t r :
  Inv c s I g -> proto_step c g OFlush = Some g' -> step c s OFlush o = (s', t, r) ->
  sound c s I g OFlush o g' s' t r.
Proof.
  intros H Hp E. cbn [proto_step] in Hp.
  destruct (_ && _) eqn:Ec in Hp; [|discriminate]. injection Hp as <-.
  apply andb_true_iff in Ec as [Ef Ho].
  assert (Ho' : g_out g = []) by (destruct (g_out g); [reflexivity|discriminate]).
  cbn [step] in E.
  destruct (flush_stripes c NSTRIPES 0 s o) as [[[s1 o1] e1] r1] eqn:E1.
  pose proof (Inv_flush0 _ _ _ _ H Ho') as HF0.
  eapply flush_stripes_facts in E1; [|exact HF0|exact Ho'|].
  2:{ simpl. intros a Ha. apply in_or_app. auto. }
  destruct E1 as (H1' & C1 & Sub & wr & T1 & X).
  destruct (tfacts_sound_parts _ _ _ _ _ _ T1) as (TR & ER & RQ & FF).
  destruct T1 as (_ & _ & _ & _ & FF1 & _).
  destruct X as [(Ok & -> & Em)|(Er & ->)].
  - assert (Hw : wb s1 = []).
    { destruct (wb s1) as [|[o0 v] l] eqn:Ew; auto. exfalso. apply (Em o0 v); [left; auto|].
      rewrite NSTRIPES_eq. pose proof (stripe_lt o0). lia. }
    destruct (sync_step (set_cpb s1 false) o1) as [[s2 e2] r2] eqn:E2. injection E as <- <- <-.
    assert (Hc : Inv c (set_cpb s1 false) I (g_flush0 g)) by (apply Inv_cpb_false_empty; auto).
    eapply sync_step_facts in E2; [|exact Hc].
    destruct E2 as (H2 & W2 & _ & Hr & TR2 & ER2 & RQ2 & FF2 & _).
    assert (TRall : tr_ok s s2 (e1 ++ e2)).
    { eapply tr_ok_trans; [exact TR|]. eapply tr_ok_latch; [exact TR2|reflexivity|reflexivity]. }
    unfold sound. splits; auto.
    + destruct Hr as [->|[e ->]]; discriminate.
    + intros Hne. split.
      * apply (Inv_flush_done c s2 I g); auto. simpl in W2. congruence.
      * destruct Hr as [->|[e ->]]; [reflexivity|discriminate].
    + intros Hre. rewrite req_failed_app. destruct (ER2 Hre) as [X|X].
      * destruct TR as (_ & L & _). simpl in X. rewrite L in X. apply orb_true_iff in X as [X|X]; auto.
        right. rewrite X. reflexivity.
      * right. rewrite X. apply orb_true_r.
    + rewrite req_failed_app. intros X. apply orb_true_iff in X as [X|X]; auto.
      apply RQ in X. congruence.
    + intros Hf. rewrite any_failed_app, (FF Hf). destruct (FF1 Hf) as [Hf1 _]. rewrite (FF2 Hf1). reflexivity.
  - injection E as <- <- <-. unfold sound. splits; auto; try discriminate.
Qed.

(* ------------------------------------------------------------------ write_barrier, discard_write_buffer *)
Lemma wb_empty_of_zero c s I g : Inv c s I g -> g_out g = [] -> wb_bytes s = 0 -> wb s = [].
Proof.
  intros H Ho Hz. pose proof (i_wbb _ _ _ _ H) as X. rewrite Hz in X.
  destruct (wb s) as [|[o v] l] eqn:Ew; auto. exfalso.
  rewrite wb_sum_cons in X. destruct v as [d|].
  - assert (Hin : In (o, Some d) (wb s)) by (rewrite Ew; left; auto).
    destruct (i_wb_some _ _ _ _ H _ _ Hin) as [A _]. apply (i_rng_wb _ _ _ _ H) in A. simpl in A. lia.
  - assert (Hin : In (o, None) (wb s)) by (rewrite Ew; left; auto).
    destruct (i_wb_none _ _ _ _ H _ Hin) as [l0 Hl0]. rewrite Ho in Hl0. destruct Hl0.
Qed.

Lemma barrier_sound c s I g o g' :
  Inv c s I g -> proto_step c g OBarrier = Some g' ->
  sound c s I g OBarrier o g' (if 0 <? wb_bytes s then set_cpb s true else s) [] Done.
Proof.
  intros H Hp. cbn [proto_step] in Hp.
  destruct (_ && _) eqn:Ec in Hp; [|discriminate]. injection Hp as <-.
  apply andb_true_iff in Ec as [Ef Ho].
  assert (Ho' : g_out g = []) by (destruct (g_out g); [reflexivity|discriminate]).
  apply sound_pure; try discriminate; try reflexivity.
  - destruct (0 <? wb_bytes s); reflexivity.
  - destruct (0 <? wb_bytes s) eqn:Eb.
    + destruct H. constructor; unfold uncovered in *; simpl; try assumption.
      * discriminate.
      * intros k Hk. discriminate.
    + apply N.ltb_ge in Eb. assert (Hz : wb_bytes s = 0) by lia.
      pose proof (wb_empty_of_zero _ _ _ _ H Ho' Hz) as Hw.
      destruct H. constructor; unfold uncovered in *; simpl; try assumption.
      * intros _ o0 v Hin. rewrite Hw in Hin. destruct Hin.
      * intros k Hk. discriminate.
Qed.

Lemma discard_sound c s I g o g' s' t r :
  Inv c s I g -> proto_step c g ODiscard = Some g' -> step c s ODiscard o = (s', t, r) ->
  sound c s I g ODiscard o g' s' t r.
Proof.
  intros H Hp E. cbn [proto_step] in Hp.
  destruct (_ && _) eqn:Ec in Hp; [|discriminate]. injection Hp as <-.
  apply andb_true_iff in Ec as [Ef Ho].
  assert (Ho' : g_out g = []) by (destruct (g_out g); [reflexivity|discriminate]).
  cbn [step] in E.
  assert (Hno : existsb (fun p : N * option bytes => negb (is_some (snd p))) (wb s) = false).
  { destruct (existsb _ (wb s)) eqn:Ex; auto. apply existsb_exists in Ex as [[o0 v] [Hin Hv]]. simpl in Hv.
    destruct v; [discriminate|]. destruct (i_wb_none _ _ _ _ H _ Hin) as [l Hl]. rewrite Ho' in Hl. destruct Hl. }
  rewrite Hno in E. injection E as <- <- <-.
  apply sound_pure; try discriminate; try reflexivity.
  destruct H. constructor; unfold uncovered in *; simpl; try assumption.
  - intros o0 d [].
  - intros o0 [].
  - intros o0 l Hin. rewrite Ho' in Hin. destruct Hin.
  - constructor.
  - intros i (U1 & U2 & U3). apply i_file. splits; auto.
    + intros o0 d Hin. destruct (covers o0 d i) eqn:Ecv; auto. exfalso.
      destruct (i_wb_some _ _ Hin) as [A _]. apply (U3 (o0, blen d)); [apply in_or_app; auto|].
      apply covers_in_rng. auto.
    + intros a Ha. apply U3. apply in_or_app. auto.
  - intros _ o0 v [].
  - lia.
  - intros r0 [].
  - intros r0 Hr. rewrite Ho' in Hr. destruct Hr.
  - intros k Hk. discriminate.
Qed.

(* ------------------------------------------------------------------ invalidate_cache, invalidate_cache_all *)
Lemma Inv_shrink_rc c s I g l :
  Inv c s I g -> (forall o d, In (o, d) (rc s) -> In (o, blen d) l) -> (forall a, In a l -> In a (g_rc g)) ->
  Inv c s I (g_set_rc g l).
Proof.
  intros H Hl Hs. destruct H. constructor; simpl; try assumption.
  - intros o d Hin. destruct (i_rc o d Hin). split; auto.
  - intros r Hr. auto.
  - intros r Hr. destruct (i_sep r Hr) as (A & B & C). splits; auto.
Qed.

Lemma invalidate_sound c s I g off len o g' s' t r :
  Inv c s I g -> proto_step c g (OInvalidate off len) = Some g' -> step c s (OInvalidate off len) o = (s', t, r) ->
  sound c s I g (OInvalidate off len) o g' s' t r.
Proof.
  intros H Hp E. cbn [proto_step] in Hp.
  destruct (_ && _) eqn:Ec in Hp; [|discriminate]. injection Hp as <-.
  apply andb_true_iff in Ec as [Hl Crc]. apply N.ltb_lt in Hl.
  cbn [step] in E.
  destruct (alookup off (rc s)) as [x|] eqn:El.
  - assert (Lx : blen x = len).
    { apply alookup_In in El. destruct (i_rc _ _ _ _ H _ _ El) as [A B].
      pose proof (i_rng_rc _ _ _ _ H _ A) as [Hpos _]. simpl in Hpos. eapply compat_exact_start; eauto. }
    rewrite Lx, N.eqb_refl in E. injection E as <- <- <-.
    apply sound_pure; try discriminate; try reflexivity.
    apply (Inv_shrink_rc c _ I g (rdel (off, len) (g_rc g))).
    + eapply inv_rc_remove; eauto; simpl; auto. rewrite Lx. reflexivity.
    + simpl. intros o0 d Hin. apply In_aremove in Hin as [Hin Hne]. apply In_rdel. split.
      * apply (i_rc _ _ _ _ H _ _ Hin).
      * intros X. inversion X. contradiction.
    + intros a Ha. apply In_rdel in Ha. tauto.
  - injection E as <- <- <-.
    apply sound_pure; try discriminate; try reflexivity.
    apply (Inv_shrink_rc c _ I g (rdel (off, len) (g_rc g))); auto.
    + intros o0 d Hin. apply In_rdel. split.
      * apply (i_rc _ _ _ _ H _ _ Hin).
      * intros X. inversion X; subst. apply In_alookup in Hin; [congruence|apply (i_nd_rc _ _ _ _ H)].
    + intros a Ha. apply In_rdel in Ha. tauto.
Qed.

Lemma invalidate_all_sound c s I g o g' s' t r :
  Inv c s I g -> proto_step c g OInvalidateAll = Some g' -> step c s OInvalidateAll o = (s', t, r) ->
  sound c s I g OInvalidateAll o g' s' t r.
Proof.
  intros H Hp E. cbn [proto_step] in Hp. injection Hp as <-. cbn [step] in E. injection E as <- <- <-.
  apply sound_pure; try discriminate; try reflexivity.
  apply (Inv_shrink_rc c _ I g []).
  - eapply inv_rc_sub; eauto; simpl; auto.
    + intros e [].
    + constructor.
    + destruct (i_rcb _ _ _ _ H) as [X _]. rewrite X. lia.
  - simpl. intros o0 d [].
  - intros a [].
Qed.

(* ------------------------------------------------------------------ cancel_pending_write *)
Lemma aremove_absent {A} k (l : list (N * A)) : alookup k l = None -> aremove k l = l.
Proof.
  intros H. unfold aremove. apply filter_id. intros [k2 v2] Hin. simpl. apply negb_true_iff. apply N.eqb_neq.
  intros ->. apply alookup_None in H. apply H. apply in_map_iff. exists (k, v2). auto.
Qed.

Lemma cancel_sound c s I g off len o g' s' t r :
  Inv c s I g -> proto_step c g (OCancel off len) = Some g' -> step c s (OCancel off len) o = (s', t, r) ->
  sound c s I g (OCancel off len) o g' s' t r.
Proof.
  intros H Hp E. cbn [proto_step] in Hp.
  destruct (_ && _) eqn:Ec in Hp; [|discriminate]. injection Hp as <-.
  apply andb_true_iff in Ec as [Ec Nout]. apply andb_true_iff in Ec as [Ec Cwb].
  apply andb_true_iff in Ec as [Ec Hal]. apply andb_true_iff in Ec as [Ef Hl].
  apply N.ltb_lt in Hl. apply N.eqb_eq in Hal.
  set (r0 := (off, len)) in *.
  assert (Fno : ~ In (off, None) (wb s)).
  { intros El. destruct (i_wb_none _ _ _ _ H _ El) as [l Hlo].
    destruct (out_positive _ _ _ _ _ _ H Hlo) as [Hp1 Hp2]. exact (no_overlap_start _ _ _ _ _ Nout Hlo Hp1 Hl eq_refl). }
  assert (Fsome : forall d, In (off, Some d) (wb s) -> blen d = len /\ In r0 (g_wb g)).
  { intros d Hin. destruct (i_wb_some _ _ _ _ H _ _ Hin) as [A _].
    pose proof (i_rng_wb _ _ _ _ H _ A) as [Hpos _]. simpl in Hpos.
    assert (X : blen d = len) by (eapply compat_exact_start; eauto). split; auto. unfold r0. rewrite <- X. exact A. }
  assert (Fout : forall a, In a (g_out g) -> a <> r0).
  { intros a Ha ->. apply no_overlap_spec with (a := r0) in Nout; auto. unfold r0 in Nout.
    rewrite overlapb_true_same_start in Nout by auto. discriminate. }
  cbn [step] in E. rewrite Hal, N.eqb_refl in E. cbn [negb] in E.
  set (P' := if existsb (range_eqb r0) (g_wb g) then r0 :: g_poison g else g_poison g) in *.
  assert (HP : forall a, In a (g_poison g) -> In a P').
  { intros a Ha. unfold P'. destruct (existsb _ _); [right|]; auto. }
  (* the invariant for the state with the entry at off removed *)
  assert (Core : forall s1, wb s1 = aremove off (wb s) ->
                 wb_sum (aremove off (wb s)) (g_out g) <= wb_bytes s1 ->
                 file s1 = file s -> rc s1 = rc s -> rc_bytes s1 = rc_bytes s -> cpb s1 = cpb s ->
                 (forall d, In (off, Some d) (wb s) -> In r0 P') ->
                 Inv c s1 I (mkG (g_rc g) (rdel r0 (g_wb g)) (g_out g) (g_unc g) P' None (g_len g))).
  { intros s1 Ew Hsum E1 E2 E4 E6 Hpo.
    destruct H. constructor; unfold uncovered in *; simpl; rewrite ?E1, ?E2, ?E4, ?E6, ?Ew; try assumption.
    - intros o0 d Hin. apply In_aremove in Hin as [Hin Hne]. destruct (i_wb_some _ _ Hin) as [A B]. split; auto.
      apply In_rdel. split; auto. intros X. inversion X. contradiction.
    - intros o0 Hin. apply In_aremove in Hin as [Hin _]. auto.
    - intros o0 l Hin. destruct (i_out _ _ Hin) as (A & B & C). splits; auto.
      + apply In_aremove. split; auto. intros ->. contradiction.
      + apply In_rdel. split; auto.
    - apply NoDup_aremove. auto.
    - intros i (U1 & U2 & U3). apply i_file. splits; auto.
      intros o0 d Hin. destruct (N.eq_dec o0 off) as [->|Hne].
      + destruct (covers off d i) eqn:Ecv; auto. exfalso. apply (U3 r0); [eapply Hpo; eauto|].
        apply covers_in_rng in Ecv. destruct (Fsome d Hin) as [X _]. rewrite X in Ecv. exact Ecv.
      + apply U1. apply In_aremove. auto.
    - intros Hc o0 v Hin. apply In_aremove in Hin as [Hin _]. eauto.
    - intros a Ha. apply In_rdel in Ha as [Ha _]. auto.
    - intros a Ha. destruct (i_sep a Ha) as (A & B & C). splits; auto.
      intros b Hb. apply In_rdel in Hb as [Hb _]. auto.
    - intros k Hk. discriminate. }
  destruct (alookup off (wb s)) as [[d|]|] eqn:El.
  - injection E as <- <- <-. pose proof (alookup_In _ _ _ El) as Hin.
    apply sound_pure; try discriminate; try reflexivity.
    apply Core; simpl; auto.
    + pose proof (i_wbb _ _ _ _ H) as X.
      rewrite (wb_sum_aremove off (Some d) (wb s) (g_out g) (i_nd_wb _ _ _ _ H) Hin) in X. lia.
    + intros d' Hin'. destruct (Fsome d' Hin') as [_ Y]. unfold P'.
      assert (Ex : existsb (range_eqb r0) (g_wb g) = true).
      { apply existsb_exists. exists r0. split; auto. apply range_eqb_eq. auto. }
      rewrite Ex. left. auto.
  - exfalso. apply Fno. apply alookup_In. auto.
  - injection E as <- <- <-.
    apply sound_pure; try discriminate; try reflexivity.
    apply Core; simpl; auto.
    + symmetry. apply aremove_absent. auto.
    + rewrite aremove_absent by auto. apply (i_wbb _ _ _ _ H).
    + intros d Hin. apply In_alookup in Hin; [congruence|apply (i_nd_wb _ _ _ _ H)].
Qed.

(* ------------------------------------------------------------------ resize, read_direct, raw_file_len, check_io_errors *)
Lemma req_call_parts s o c0 s' o' t r :
  bcall_step s o false c0 = (s', o', t, r) -> (fault_free o -> fst (bexec (file s) c0 true) = true) ->
  tr_ok s s' t /\ (wres_ok r = false -> io_failed (latch s) = true \/ req_failed t = true) /\
  (req_failed t = true -> wres_ok r = false) /\ (fault_free o -> fault_free o' /\ any_failed t = false).
Proof.
  intros E Hin. apply bcall_tfacts in E; auto. destruct E as (TR & Hbe & ER & FR & FF & _).
  splits; auto.
  - intros X. rewrite any_failed_req; auto.
  - rewrite any_failed_req; auto.
Qed.

Lemma resize_sound c s I g n o g' s' t r :
  Inv c s I g -> proto_step c g (OResize n) = Some g' -> step c s (OResize n) o = (s', t, r) ->
  sound c s I g (OResize n) o g' s' t r.
Proof.
  intros H Hp E. cbn [proto_step] in Hp.
  destruct (_ && _) eqn:Ec in Hp; [|discriminate]. injection Hp as <-.
  apply andb_true_iff in Ec as [Ec Prc]. apply andb_true_iff in Ec as [Ec Pout]. apply andb_true_iff in Ec as [Ef Pwb].
  rewrite forallb_forall in Prc, Pout, Pwb.
  cbn [step] in E.
  destruct (bcall_step s o false BLen) as [[[s1 o1] e1] r1] eqn:Eb1.
  pose proof Eb1 as Eb1'. apply bcall_facts in Eb1'. destruct Eb1' as (SC1 & _ & _ & _ & _ & OK1 & NOK1 & _).
  apply req_call_parts in Eb1; [|reflexivity]. destruct Eb1 as (TR1 & ER1 & RQ1 & FF1).
  assert (F1 : file s1 = file s).
  { destruct (wres_ok r1) eqn:Er; [destruct (OK1 eq_refl) as (_ & X & _); exact X|auto]. }
  assert (H1 : Inv c s1 I g) by (eapply Inv_same_caches; eauto).
  destruct (wres_ok r1) eqn:Er1; cbn [negb] in E.
  2:{ injection E as <- <- <-. unfold sound. splits; auto; try discriminate.
      intros Hf. apply FF1 in Hf. tauto. }
  set (s2 := if n <? blen (file s1)
             then set_rcb (set_rc s1 (filter (fun p : N * bytes => negb (n <=? fst p)) (rc s1)))
                          (rc_bytes s1 - sum_rc (filter (fun p : N * bytes => n <=? fst p) (rc s1)))
             else s1) in *.
  assert (H2 : Inv c s2 I g /\ file s2 = file s1 /\ latch s2 = latch s1 /\ wb s2 = wb s1 /\
               (forall e, In e (rc s2) -> In e (rc s1)) /\
               (n < blen (file s1) -> forall o0 d, In (o0, d) (rc s2) -> o0 < n)).
  { unfold s2. destruct (n <? blen (file s1)) eqn:En.
    - splits; auto.
      + eapply (inv_rc_filter c s1 _ I g (fun p => negb (n <=? fst p))); eauto; simpl; auto.
        f_equal. f_equal. apply filter_ext. intros p. rewrite negb_involutive. reflexivity.
      + simpl. intros e He. apply filter_In in He. tauto.
      + simpl. intros _ o0 d Hin. apply filter_In in Hin as [_ X]. simpl in X. apply negb_true_iff in X.
        apply N.leb_gt in X. exact X.
    - splits; auto. intros X. apply N.ltb_ge in En. lia. }
  destruct H2 as (H2 & F2 & L2 & W2 & Sub2 & Low2).
  destruct (bcall_step s2 o1 false (BSetLen n)) as [[[s3 o3] e3] r3] eqn:Eb3. injection E as <- <- <-.
  pose proof Eb3 as Eb3'. apply bcall_facts in Eb3'. destruct Eb3' as (SC3 & _ & _ & _ & _ & OK3 & NOK3 & _).
  apply req_call_parts in Eb3; [|reflexivity]. destruct Eb3 as (TR3 & ER3 & RQ3 & FF3).
  assert (TRall : tr_ok s s3 (e1 ++ e3)).
  { eapply tr_ok_trans; [exact TR1|]. eapply tr_ok_latch; [exact TR3|symmetry; exact L2|reflexivity]. }
  assert (Hany1 : req_failed e1 = false).
  { destruct (req_failed e1) eqn:X; auto. }
  destruct (wres_ok r3) eqn:Er3.
  2:{ unfold sound. splits; auto; try discriminate.
      - intros _. eapply Inv_same_caches; eauto.
      - intros _. rewrite req_failed_app, Hany1. simpl. destruct (ER3 eq_refl) as [X|X]; auto.
        left. destruct TR1 as (_ & L & _). rewrite L2, L, Hany1 in X. rewrite orb_false_r in X. exact X.
      - intros Hf. destruct (FF1 Hf) as [Hf1 A1]. destruct (FF3 Hf1) as [_ A3]. rewrite any_failed_app, A1, A3. reflexivity. }
  destruct (OK3 eq_refl) as (_ & F3 & _). simpl in F3.
  destruct SC3 as (S31 & S32 & S33 & S34 & S35 & S36).
  destruct (i_len _ _ _ _ H) as [Lf Lg].
  assert (Hblen : blen (file s2) = ilen I) by congruence.
  unfold sound. splits; auto; try discriminate.
  - intros _. split; [|reflexivity]. cbn [ideal_step].
    set (I' := apply_op (SetLen n) I).
    assert (HI : forall i, iat I' i = if i <? N.min (ilen I) n then iat I i else 0) by reflexivity.
    assert (Hag : forall o0 d, agrees I o0 d -> o0 + blen d <= n -> o0 + blen d <= g_len g -> agrees I' o0 d).
    { intros o0 d Ha X Y. eapply agrees_ext; [|exact Ha]. intros i Hc. apply covers_spec in Hc. unfold wlen in Hc. fold (blen d) in Hc.
      rewrite HI. destruct (i <? N.min (ilen I) n) eqn:Em; auto. apply N.ltb_ge in Em. lia. }
    destruct H2. constructor; unfold uncovered in *; simpl; rewrite ?S31, ?S32, ?S33, ?S34, ?S35; try assumption.
    + intros o0 d Hin. destruct (i_wb_some _ _ Hin) as [A B]. split; auto.
      pose proof (Pwb _ A) as X. apply N.leb_le in X. simpl in X. apply Hag; auto. apply (i_rng_wb _ A).
    + intros o0 d Hin. destruct (i_rc _ _ Hin) as [A B].
      pose proof (Prc _ A) as X. apply orb_true_iff in X. simpl in X.
      destruct (N.lt_ge_cases n (blen (file s1))) as [Hlt|Hge].
      * pose proof (Low2 Hlt _ _ Hin) as Y. destruct X as [X|X]; [|apply N.leb_le in X; lia].
        apply N.leb_le in X. split; [apply filter_In; split; auto; simpl; apply negb_true_iff; apply N.leb_gt; auto|].
        apply Hag; auto. apply (i_rng_rc _ A).
      * pose proof (i_rng_rc _ A) as [P1 P2]. simpl in P1, P2.
        assert (Z : o0 + blen d <= n) by (rewrite F1, Lf in Hge; lia).
        split; [apply filter_In; split; auto; simpl; apply negb_true_iff; apply N.leb_gt; lia|].
        apply Hag; auto.
    + intros i U. rewrite F3, fget_fresize, Hblen.
      destruct (i <? N.min (ilen I) n); auto.
    + rewrite F3, blen_fresize. auto.
    + intros r0 Hr. pose proof (Pwb _ Hr) as X. apply N.leb_le in X. pose proof (i_rng_wb _ Hr). split; tauto.
    + intros r0 Hr. apply filter_In in Hr as [Hr X]. apply negb_true_iff in X. apply N.leb_gt in X.
      pose proof (Prc _ Hr) as Y. apply orb_true_iff in Y. destruct Y as [Y|Y]; apply N.leb_le in Y; [|lia].
      pose proof (i_rng_rc _ Hr). split; tauto.
    + intros r0 Hr. destruct (i_sep r0 Hr) as (A & B & C). splits; auto.
      intros a Ha. apply filter_In in Ha as [Ha _]. auto.
    + intros k Hk. discriminate.
  - rewrite req_failed_app, Hany1. simpl. intros X. apply RQ3 in X. congruence.
  - intros Hf. destruct (FF1 Hf) as [Hf1 A1]. destruct (FF3 Hf1) as [_ A3]. rewrite any_failed_app, A1, A3. reflexivity.
Qed.

Lemma read_direct_sound c s I g off len o g' s' t r :
  Inv c s I g -> proto_step c g (OReadDirect off len) = Some g' -> step c s (OReadDirect off len) o = (s', t, r) ->
  sound c s I g (OReadDirect off len) o g' s' t r.
Proof.
  intros H Hp E. cbn [proto_step] in Hp.
  destruct (_ && _) eqn:Ec in Hp; [|discriminate]. injection Hp as <-.
  apply andb_true_iff in Ec as [Ec Npo]. apply andb_true_iff in Ec as [Hb Nwb]. apply N.leb_le in Hb.
  assert (Nout : no_overlap (g_out g) (off, len) = true).
  { apply no_overlap_spec. intros [o0 l] Ha. destruct (i_out _ _ _ _ H _ _ Ha) as (_ & _ & W).
    apply no_overlap_spec with (a := (o0, l)) in Nwb; auto. }
  assert (Hnowb : forall o0 d, In (o0, Some d) (wb s) -> overlapb (o0, blen d) (off, len) = false).
  { intros o0 d Hd. destruct (i_wb_some _ _ _ _ H _ _ Hd) as [A _]. apply no_overlap_spec with (a := (o0, blen d)) in Nwb; auto. }
  destruct (range_in_file _ _ _ _ off len H Hb Hnowb Nout Npo) as [Hin Hrd].
  cbn [step] in E.
  destruct (bcall_step s o false (BRead off len)) as [[[s1 o1] e1] r1] eqn:Eb. injection E as <- <- <-.
  pose proof Eb as Eb'. apply bcall_facts in Eb'. destruct Eb' as (SC & _ & _ & _ & _ & OK & NOK & _).
  apply req_call_parts in Eb; [|intros _; simpl; rewrite Hin; reflexivity]. destruct Eb as (TR & ER & RQ & FF).
  destruct (wres_ok r1) eqn:Er.
  - destruct (OK eq_refl) as (_ & Ef & _). simpl in Ef.
    unfold sound. splits; auto; try discriminate.
    + intros _. split; [eapply Inv_same_caches; eauto|]. simpl. rewrite Ef, Hrd. reflexivity.
    + intros X. apply RQ in X. discriminate.
    + intros Hf. apply FF in Hf. tauto.
  - unfold sound. splits; auto; try discriminate.
    + intros _. eapply Inv_same_caches; eauto.
    + intros Hf. apply FF in Hf. tauto.
Qed.

Lemma len_sound c s I g o g' s' t r :
  Inv c s I g -> proto_step c g OLen = Some g' -> step c s OLen o = (s', t, r) ->
  sound c s I g OLen o g' s' t r.
Proof.
  intros H Hp E. cbn [proto_step] in Hp. injection Hp as <-. cbn [step] in E.
  destruct (bcall_step s o false BLen) as [[[s1 o1] e1] r1] eqn:Eb. injection E as <- <- <-.
  pose proof Eb as Eb'. apply bcall_facts in Eb'. destruct Eb' as (SC & _ & _ & _ & _ & OK & NOK & _).
  apply req_call_parts in Eb; [|reflexivity]. destruct Eb as (TR & ER & RQ & FF).
  destruct (wres_ok r1) eqn:Er.
  - destruct (OK eq_refl) as (_ & Ef & _). simpl in Ef.
    unfold sound. splits; auto; try discriminate.
    + intros _. split; [eapply Inv_same_caches; eauto|]. simpl. rewrite Ef. destruct (i_len _ _ _ _ H) as [X _]. rewrite X. reflexivity.
    + intros X. apply RQ in X. discriminate.
    + intros Hf. apply FF in Hf. tauto.
  - unfold sound. splits; auto; try discriminate.
    + intros _. eapply Inv_same_caches; eauto.
    + intros Hf. apply FF in Hf. tauto.
Qed.

Lemma check_io_sound c s I g o :
  Inv c s I g ->
  sound c s I g OCheckIo o g s [] (match check_failure (latch s) with Some e => Err e | None => Done end).
Proof.
  intros H. unfold check_failure. destruct (io_failed (latch s)) eqn:F.
  - unfold sound. splits; auto using tr_ok_refl; try discriminate.
  - apply sound_pure; try discriminate; try reflexivity. exact H.
Qed.

(* ------------------------------------------------------------------ every call *)
Theorem step_sound c s I g x o g' s' t r :
  Inv c s I g -> proto_step c g x = Some g' -> step c s x o = (s', t, r) ->
  sound c s I g x o g' s' t r.
Proof.
  intros H Hp E. destruct x.
  - eapply read_sound; eauto.
  - eapply write_sound; eauto.
  - eapply drop_sound; eauto.
  - eapply flush_stripes_sound; eauto.
  - cbn [step] in E. injection E as <- <- <-. eapply flush_end_sound; eauto.
  - cbn [proto_step] in Hp. injection Hp as <-. eapply sync_sound; eauto.
  - eapply flush_sound; eauto.
  - cbn [step] in E. injection E as <- <- <-. eapply barrier_sound; eauto.
  - eapply discard_sound; eauto.
  - eapply invalidate_sound; eauto.
  - eapply invalidate_all_sound; eauto.
  - eapply cancel_sound; eauto.
  - eapply resize_sound; eauto.
  - eapply read_direct_sound; eauto.
  - eapply len_sound; eauto.
  - cbn [proto_step] in Hp. injection Hp as <-. cbn [step] in E. injection E as <- <- <-. apply check_io_sound; auto.
  - discriminate.
Qed.
