#!/usr/bin/env python3
"""Tie 1b: translate a chosen set of small pure Rust functions of the repository under check into Gallina.

Writes coq/Gen/Fns.v (one `Definition` per function of WANT, plus `<f>_guard` = conjunction of the
asserts / checked conversions the code performs, and `<f>_dom` = every parameter inside the range of its
Rust integer type).  The file is regenerated on every run (vlib.coq_prepare) and rewritten only when its
content changes.  The hand-written models are proved equal to these definitions in coq/Gen/Fns*P.v, so a
change of one of these functions in the Rust sources breaks a proof obligation (or, if it leaves the
translated subset, makes this script fail -- which the framework reports the same way).

Subset and semantics: see design.d/GEN.md.  Anything outside the subset is a hard error naming the
function and the offending text; there are no silent defaults.

  gen_fns.py                 regenerate coq/Gen/Fns.v from $VERIF_REPO (default /repo)
  gen_fns.py --out FILE      write somewhere else
  gen_fns.py --selftest      translate literal snippets and compare with the expected Gallina
"""
import hashlib
import os
import re
import sys

HERE = os.path.dirname(os.path.abspath(__file__))
sys.path.insert(0, HERE)
from rsmini import Parser, Unsupported, lex, mask_comments_strings, match_brace  # noqa: E402

REPO = os.environ.get("VERIF_REPO", "/repo")
# VERIF_COQ: the coq tree to write into (a private copy when a check runs against another checkout)
COQDIR = os.environ.get("VERIF_COQ") or os.path.join(HERE, "..", "coq")
OUT = os.path.join(COQDIR, "Gen", "Fns.v")
CONSTS_V = os.path.join(COQDIR, "Gen", "Consts.v")

LAYOUT = "src/tree_store/page_store/layout.rs"
BASE = "src/tree_store/page_store/base.rs"
BTB = "src/tree_store/btree_base.rs"
BUDDY = "src/tree_store/page_store/buddy_allocator.rs"
BITMAP = "src/tree_store/page_store/bitmap.rs"
PM = "src/tree_store/page_store/page_manager.rs"
HEADER = "src/tree_store/page_store/header.rs"

# structs translated to Coq Records (file, name)
STRUCTS = [(LAYOUT, "RegionLayout"), (LAYOUT, "DatabaseLayout"), (BASE, "PageNumber")]

# (file, qualified name, options).  Callees before callers.
#   fuel: bound of `while` loops (N.iter-style fuel; exact when the loop ends within that many rounds)
#   snippet: the "function" is an expression found by the regex `snippet` (group 1) inside the body of the
#            named function; `params` declares its free variables, `subst` rewrites impure sub-terms
#            (textually, before parsing) to one of those variables.
WANT = [
    (BASE, "PageNumber::serialized_size", {}),
    (BASE, "PageNumber::new", {}),
    (BASE, "PageNumber::to_le_bytes", {}),
    (BASE, "PageNumber::from_le_bytes", {}),
    (BASE, "PageNumber::page_size_bytes", {}),
    (BASE, "PageNumber::address_range", {}),
    (LAYOUT, "round_up_to_multiple_of", {}),
    (LAYOUT, "RegionLayout::new", {}),
    (LAYOUT, "RegionLayout::calculate", {}),
    (LAYOUT, "RegionLayout::get_header_pages", {}),
    (LAYOUT, "RegionLayout::num_pages", {}),
    (LAYOUT, "RegionLayout::page_size", {}),
    (LAYOUT, "RegionLayout::usable_bytes", {}),
    (LAYOUT, "RegionLayout::len", {}),
    (LAYOUT, "RegionLayout::data_section", {}),
    (LAYOUT, "DatabaseLayout::new", {}),
    (LAYOUT, "DatabaseLayout::recalculate", {}),
    (LAYOUT, "DatabaseLayout::calculate", {}),
    (LAYOUT, "DatabaseLayout::num_full_regions", {}),
    (LAYOUT, "DatabaseLayout::num_regions", {}),
    (LAYOUT, "DatabaseLayout::region_base_address", {}),
    (LAYOUT, "DatabaseLayout::region_layout", {}),
    (LAYOUT, "DatabaseLayout::len", {}),
    (LAYOUT, "DatabaseLayout::usable_bytes", {}),
    (HEADER, "UnrepairedDatabaseHeader::layout_from_file_len", {}),
    (BTB, "RawLeafBuilder::required_bytes", {}),
    (BTB, "RawBranchBuilder::required_bytes", {}),
    (BTB, "leaf_fits_one_page", {}),
    (BTB, "leaf_split_required", {}),
    (BTB, "leaf_below_merge_threshold", {}),
    (BTB, "LeafBuilder::required_bytes", {}),
    (BTB, "LeafBuilder::should_split", {
        "subst": {"self.pairs.len()": "num_pairs", "self.page_allocator.get_page_size()": "page_size"},
        "params": [("num_pairs", "usize"), ("page_size", "usize")]}),
    (BTB, "LeafBuilder::build_split", {
        "name": "LeafBuilder_build_split_half_reached", "ret": "bool",
        "snippet": r"if (first_split_key_bytes \+ first_split_value_bytes >= total_size / 2) \{",
        "params": [("first_split_key_bytes", "usize"), ("first_split_value_bytes", "usize"), ("total_size", "usize")]}),
    (BTB, "LeafBuilder::build_split", {
        "name": "LeafBuilder_build_split_clamp", "ret": "usize",
        "snippet": r"let clamped = (division\.clamp\(self\.pairs\.len\(\)\.saturating_sub\(max_pairs\), max_pairs\));",
        "subst": {"self.pairs.len()": "num_pairs"},
        "params": [("division", "usize"), ("num_pairs", "usize"), ("max_pairs", "usize")]}),
    (BTB, "is_single_large_value", {
        "subst": {"accessor.num_pairs()": "num_pairs", "accessor.total_length()": "total_length"},
        "drop_params": ["accessor"], "params": [("num_pairs", "usize"), ("total_length", "usize")]}),
    (BTB, "BranchBuilder::required_bytes", {
        "subst": {"self.keys.len()": "num_keys"}, "params": [("num_keys", "usize")]}),
    (BTB, "BranchBuilder::should_split", {
        "subst": {"self.keys.len()": "num_keys", "self.page_allocator.get_page_size()": "page_size"},
        "params": [("num_keys", "usize"), ("page_size", "usize")]}),
    ("src/tree_store/btree_mutator.rs", "MutateHelper::finalize_branch_builder", {
        "name": "finalize_branch_builder_below_merge", "ret": "bool",
        "snippet": r"else if (builder\.required_bytes\(\) < page_size / 3) \{",
        "subst": {"builder.required_bytes()": "required"},
        "params": [("required", "usize"), ("page_size", "usize")]}),
    ("src/multimap_table.rs", "MultimapTable::insert", {
        "name": "multimap_insert_stays_inline", "ret": "bool",
        "snippet": r"if (required_inline_bytes < self\.page_allocator\.get_page_size\(\) / 2\s*&& u16::try_from\(new_pairs\)\.is_ok\(\))\s*\{",
        "subst": {"self.page_allocator.get_page_size()": "page_size"},
        "params": [("required_inline_bytes", "usize"), ("new_pairs", "usize"), ("page_size", "usize")]}),
    ("src/multimap_table.rs", "MultimapTable::insert", {
        "name": "multimap_insert_new_key_inline", "ret": "bool",
        "snippet": r"if (required_inline_bytes < self\.page_allocator\.get_page_size\(\) / 2) \{",
        "subst": {"self.page_allocator.get_page_size()": "page_size"},
        "params": [("required_inline_bytes", "usize"), ("page_size", "usize")]}),
    (BUDDY, "calculate_usable_order", {}),
    (BUDDY, "next_higher_order", {}),
    (BUDDY, "buddy_page", {}),
    (BITMAP, "bits_in_range", {}),
    (BITMAP, "U64GroupedBitmap::required_words", {}),
    (BITMAP, "U64GroupedBitmap::data_index_of", {}),
    (BITMAP, "U64GroupedBitmap::select_mask", {}),
    (BITMAP, "BtreeBitmap::height_for_capacity", {"fuel": 32}),
    (PM, "ceil_log2", {}),
    ("src/transactions.rs", "PageList::required_bytes", {}),
    ("src/complex_types.rs", "encode_varint_len", {}),
]

# prefixes gen_consts.py gives to the constants of a file (kept in sync by importing its table)
import gen_consts  # noqa: E402
CONST_PREFIX = {rel: pre for rel, (pre, _) in gen_consts.WANT.items()}

INTW = {"u8": 8, "u16": 16, "u32": 32, "u64": 64, "u128": 128, "usize": 64}
SIZEOF = {"u8": 1, "u16": 2, "u32": 4, "u64": 8, "u128": 16, "usize": 8, "Checksum": 16}
COQ_KEYWORDS = {"end", "at", "in", "as", "fix", "fun", "match", "return", "then", "else", "type", "with", "mod",
                "cofix", "forall", "exists", "if", "let", "using", "where", "Type", "Set", "Prop", "by", "for",
                "IF", "is", "of", "struct", "wf"}


class Err(Exception):
    pass


def cname(n):
    return n + "_" if n in COQ_KEYWORDS else n


def two(w):
    return str(2 ** w)


def coq_ty(t):
    if isinstance(t, tuple):
        if t[0] == "int":
            return "N"
        if t[0] == "opt":
            return "(option %s)" % coq_ty(t[1])
        if t[0] == "pair":
            return "(%s * %s)" % (coq_ty(t[1]), coq_ty(t[2]))
        if t[0] == "rec":
            return t[1]
    return {"bool": "bool", "unit": "unit", "bytes": "(list N)"}[t]


def is_int(t):
    return isinstance(t, tuple) and t[0] == "int"


class Var:
    def __init__(self, coq, ty, depth):
        self.coq, self.ty, self.depth = coq, ty, depth


class Fn:
    """one located + parsed function"""
    pass


class Gen:
    def __init__(self, repo):
        self.repo = repo
        self.files = {}
        self.records = {}       # name -> [(field, type)]
        self.fns = {}           # qualified rust name -> Fn (translated so far)
        self.index = []         # "coq name  file:line0-line1  sha1" (written to Fns.index, not into Fns.v)
        self.consts = None

    # ---------------------------------------------------------------- sources
    def src(self, rel):
        if rel not in self.files:
            try:
                text = open(os.path.join(self.repo, rel)).read()
            except OSError as ex:
                raise Err("%s: %s" % (rel, ex))
            self.files[rel] = (text, mask_comments_strings(text))
        return self.files[rel]

    def const(self, rel, name):
        if self.consts is None:
            self.consts = set(re.findall(r"^Definition (\w+) : N :=", open(CONSTS_V).read(), flags=re.M))
        for cand in (CONST_PREFIX.get(rel, "") + name, name):
            if cand in self.consts:
                return cand
        return None

    def struct_fields(self, rel, name):
        """[(field, rust type AST)] of `struct name` in file rel"""
        text, masked = self.src(rel)
        m = re.search(r"\bstruct\s+%s\b[^{;(]*\{" % re.escape(name), masked)
        if not m:
            raise Err("%s: struct %s not found" % (rel, name))
        end = match_brace(masked, m.end() - 1)
        p = Parser(lex(masked[m.end():end]))
        out = []
        while p.peek()[0] != "eof":
            while p.isp("#"):
                raise Err("%s: attribute inside struct %s" % (rel, name))
            if p.isid("pub"):
                p.i += 1
                if p.isp("("):
                    while not p.eat(")"):
                        p.i += 1
            fname = p.ident()
            p.need(":")
            fstart = p.i
            try:
                out.append((fname, p.ty()))
            except Unsupported:
                # a field type outside the subset (e.g. dyn Trait): skip to the next top-level comma
                p.i = fstart
                depth = 0
                while p.peek()[0] != "eof" and not (depth == 0 and p.isp(",")):
                    if p.peek() in (("p", "<"), ("p", "("), ("p", "[")):
                        depth += 1
                    elif p.peek() in (("p", ">"), ("p", ")"), ("p", "]")):
                        depth -= 1
                    p.i += 1
                out.append((fname, None))
            if not p.eat(","):
                break
        return out

    def locate(self, rel, qual, opts):
        """find the fn item; returns Fn with text, line range, sha1, parsed signature and body"""
        text, masked = self.src(rel)
        f = Fn()
        f.rel, f.qual, f.opts = rel, qual, opts
        f.within = None
        f.impl = qual.split("::")[0] if "::" in qual else None
        name = qual.split("::")[-1]
        spans = []
        if f.impl:
            for m in re.finditer(r"^impl\b[^{;]*?\b%s\b[^{;]*\{" % re.escape(f.impl), masked, flags=re.M):
                if re.search(r"\bfor\s+%s\b" % re.escape(f.impl), m.group(0)):
                    continue             # trait impls are not searched
                spans.append((m.end() - 1, match_brace(masked, m.end() - 1)))
            if not spans:
                raise Err("%s: no inherent impl block of %s" % (rel, f.impl))
            rx = re.compile(r"^[ \t]+(?:pub(?:\([a-z]+\))?\s+)?(?:const\s+)?fn\s+%s\b" % re.escape(name), re.M)
        else:
            spans.append((0, len(masked)))
            rx = re.compile(r"^(?:pub(?:\([a-z]+\))?\s+)?(?:const\s+)?fn\s+%s\b" % re.escape(name), re.M)
        hits = []
        for a, b in spans:
            for m in rx.finditer(masked, a, b):
                hits.append(m)
        if len(hits) != 1:
            raise Err("%s: %d definitions of fn %s found (want exactly 1)" % (rel, len(hits), qual))
        start = hits[0].start()
        attr = masked.rfind("\n", 0, max(0, start - 1))
        prev_line = masked[attr + 1:start].strip() if attr >= 0 else ""
        if prev_line.startswith("#[cfg"):
            raise Err("%s: fn %s is under %s" % (rel, qual, prev_line))
        ob, depth = -1, 0
        for k in range(start, len(masked)):
            c = masked[k]
            if c in "([":
                depth += 1
            elif c in ")]":
                depth -= 1
            elif c == "{" and depth == 0:
                ob = k
                break
            elif c == ";" and depth == 0:
                break
        if ob < 0:
            raise Err("%s: fn %s has no body" % (rel, qual))
        cb = match_brace(masked, ob)
        f.line0 = text.count("\n", 0, start) + 1
        f.line1 = text.count("\n", 0, cb) + 1
        f.text = text[start:cb + 1]
        f.sha1 = hashlib.sha1(f.text.encode()).hexdigest()
        code = masked[start:cb + 1]
        if "snippet" in opts:
            # an expression inside the body of the named function, with declared free variables
            m = re.search(opts["snippet"], code)
            if not m or len(re.findall(opts["snippet"], code)) != 1:
                raise Err("%s: fn %s: snippet pattern %r not found exactly once" % (rel, qual, opts["snippet"]))
            f.line0 = text.count("\n", 0, start + m.start(1)) + 1
            f.line1 = text.count("\n", 0, start + m.end(1)) + 1
            f.text = text[start + m.start(1):start + m.end(1)]
            f.sha1 = hashlib.sha1(f.text.encode()).hexdigest()
            code = "fn %s() -> %s { %s }" % (opts["name"], opts["ret"], m.group(1))
            f.within = qual
            f.qual = opts["name"]
            f.impl = None
        for a, b in opts.get("subst", {}).items():
            if a not in code:
                raise Err("%s: fn %s: text %r to substitute not found" % (rel, qual, a))
            code = code.replace(a, b)
        try:
            p = Parser(lex(code), structs=self.records.keys())
            f.name, f.selfkind, f.params, f.ret = p.signature()
            f.body = p.block()
            f.params = [x for x in f.params if x[0] not in opts.get("drop_params", ())]
            for pn, pt in opts.get("params", ()):
                f.params.append((pn, Parser(lex(pt)).ty(), False))
        except Unsupported as ex:
            raise Err("%s:%d: fn %s: outside the translated subset: %s" % (rel, f.line0, qual, ex))
        return f

    # ---------------------------------------------------------------- types
    def ty(self, t, impl=None, where=""):
        k = t[0]
        if k == "ref":
            if t[1] and t[2] == ("path", "Vec", [("path", "u8", [])]):
                return "bytes"
            return self.ty(t[2], impl, where)
        if k == "tuple":
            if len(t[1]) == 0:
                return "unit"
            if len(t[1]) == 2:
                return ("pair", self.ty(t[1][0], impl, where), self.ty(t[1][1], impl, where))
        if k == "array" and t[1] == ("path", "u8", []) and t[2]:
            return ("int", 8 * t[2])      # [u8; n] stands for the little-endian number it holds
        if k == "path":
            n, args = t[1], t[2]
            if n in INTW and not args:
                return ("int", INTW[n])
            if n == "bool":
                return "bool"
            if n == "Option" and len(args) == 1:
                return ("opt", self.ty(args[0], impl, where))
            if n == "Result" and len(args) in (1, 2):
                return ("opt", self.ty(args[0], impl, where))      # Err payload dropped: Result<T> ~ option T
            if n == "Range" and len(args) == 1:
                a = self.ty(args[0], impl, where)
                return ("pair", a, a)
            if n == "Self" and impl in self.records:
                return ("rec", impl)
            if n in self.records and not args:
                return ("rec", n)
        raise Err("%s: type outside the translated subset: %r" % (where, t))

    def dom(self, term, t):
        """bool term: `term` (of translated type t) is inside the range of its Rust type; None if trivially true"""
        if is_int(t):
            return "(%s <? %s)" % (term, two(t[1]))
        if isinstance(t, tuple) and t[0] == "opt":
            inner = self.dom("x_", t[1])
            return None if inner is None else "match %s with Some x_ => %s | None => true end" % (term, inner)
        if isinstance(t, tuple) and t[0] == "rec":
            return "(%s_dom %s)" % (t[1], term)
        if isinstance(t, tuple) and t[0] == "pair":
            a, b = self.dom("(fst %s)" % term, t[1]), self.dom("(snd %s)" % term, t[2])
            parts = [x for x in (a, b) if x]
            return conj(parts) if parts else None
        return None

    def default(self, t):
        if is_int(t):
            return "0"
        if t == "bool":
            return "false"
        if t == "unit":
            return "tt"
        if t == "bytes":
            return "nil"
        if t[0] == "opt":
            return "None"
        if t[0] == "pair":
            return "(%s, %s)" % (self.default(t[1]), self.default(t[2]))
        if t[0] == "rec":
            return "%s_default" % t[1]
        raise Err("no default for %r" % (t,))


def conj(parts):
    parts = [p for p in parts if p and p != "true"]
    if not parts:
        return "true"
    out = parts[0]
    for p in parts[1:]:
        out = "(andb %s %s)" % (out, p)
    return out


def assigned(node, acc):
    """names assigned (deep) inside an AST node"""
    if isinstance(node, tuple):
        if node and node[0] == "assign" and node[2][0] == "path" and len(node[2][1]) == 1:
            acc.add(node[2][1][0])
        if node and node[0] == "mcall" and node[2] in ("push", "extend_from_slice") and node[1][0] == "path":
            acc.add(node[1][1][0])
        for x in node:
            assigned(x, acc)
    elif isinstance(node, list):
        for x in node:
            assigned(x, acc)
    return acc


def contains(node, kind):
    if isinstance(node, tuple):
        if node and node[0] == kind:
            return True
        return any(contains(x, kind) for x in node)
    if isinstance(node, list):
        return any(contains(x, kind) for x in node)
    return False


BLOCKLIKE = ("if", "iflet", "match", "block")


class Tr:
    """translation of one function in one mode ('val' or 'guard')"""

    def __init__(self, gen, f, mode):
        self.g, self.f, self.mode = gen, f, mode
        self.notes = f.notes
        self.nguards = 0
        self.fresh = {}
        self.depth = 0

    def err(self, msg):
        raise Err("%s:%d: fn %s: outside the translated subset: %s" % (self.f.rel, self.f.line0, self.f.qual, msg))

    def note(self, s):
        if s not in self.notes:
            self.notes.append(s)

    # ------------------------------------------------------------ helpers
    def declare(self, env, name, ty):
        coq = cname(name)
        old = env.get(name)
        if old is not None and old.depth < self.depth:
            k = self.fresh.get(name, 0) + 1     # shadowing an outer variable from inside a block: rename
            self.fresh[name] = k
            coq = "%s_%d" % (name, k)
        env[name] = Var(coq, ty, self.depth)
        return coq

    def emit_guards(self, guards, body):
        if self.mode != "guard":
            return body
        for g in reversed([x for x in guards if x != "true"]):
            self.nguards += 1
            body = "let g_ := (andb g_ %s) in\n%s" % (g, body)
        return body

    def bindpat(self, pat, ty, env):
        """declare the variables of a let pattern; returns coq pattern text"""
        if pat[0] == "pvar":
            return self.declare(env, pat[1], ty)
        if pat[0] == "pwild":
            return "_"
        if pat[0] == "ptuple" and len(pat[1]) == 2 and isinstance(ty, tuple) and ty[0] == "pair":
            a = self.bindpat(pat[1][0], ty[1], env)
            b = self.bindpat(pat[1][1], ty[2], env)
            return "'(%s, %s)" % (a, b)
        self.err("let pattern %r for type %r" % (pat, ty))

    # ------------------------------------------------------------ expressions
    def unify(self, a, b, what):
        if is_int(a) and is_int(b):
            if a[1] is None:
                return b
            if b[1] is None or a[1] == b[1]:
                return a
            self.err("integer widths differ (%s vs %s) in %s" % (a[1], b[1], what))
        if a == b:
            return a
        if isinstance(a, tuple) and isinstance(b, tuple) and a[0] == b[0] == "opt":
            if a[1] is None:
                return b
            if b[1] is None:
                return a
            return ("opt", self.unify(a[1], b[1], what))
        if a is None:
            return b
        if b is None:
            return a
        self.err("types differ (%r vs %r) in %s" % (a, b, what))

    def checked_conv(self, inner, env, target):
        """x.try_into().unwrap() / T::try_from(x).unwrap(): identity; range recorded in the guard"""
        t, ty, gs = self.expr(inner, env)
        if not is_int(ty):
            self.err("checked conversion of non-integer %r" % (inner,))
        if target is not None and is_int(target) and target[1] is not None:
            if ty[1] is None or ty[1] > target[1]:
                gs = gs + ["(%s <? %s)" % (t, two(target[1]))]
            return t, target, gs
        self.note("checked conversion `%s` with target type not inferred: identity, no guard conjunct" % t)
        return t, ("int", None), gs

    def expr(self, e, env, expect=None):
        """-> (coq term, type, guard conjuncts)"""
        k = e[0]
        if k == "lit":
            w = INTW.get(e[2]) if e[2] else (expect[1] if is_int(expect) else None)
            return str(e[1]), ("int", w), []
        if k == "bool":
            return ("true" if e[1] else "false"), "bool", []
        if k == "unit":
            return "tt", "unit", []
        if k == "paren":
            return self.expr(e[1], env, expect)
        if k == "borrow":
            return self.expr(e[1], env, expect)
        if k == "opaque":
            return "<opaque>", "opaque", []
        if k == "not":
            t, ty, gs = self.expr(e[1], env)
            if ty != "bool":
                self.err("`!` on a non-bool")
            return "(negb %s)" % t, "bool", gs
        if k == "neg":
            self.err("unary minus (signed arithmetic)")
        if k == "cast":
            t, ty, gs = self.expr(e[1], env)
            dst = self.g.ty(e[2], self.f.impl, self.f.qual)
            if not (is_int(ty) and is_int(dst)):
                self.err("cast between non-integers")
            if ty[1] is not None and ty[1] <= dst[1]:
                return t, dst, gs          # widening: exact
            self.note("narrowing cast `as u%d` translated as `mod 2^%d`" % (dst[1], dst[1]))
            return "(%s mod %s)" % (t, two(dst[1])), dst, gs
        if k == "tuple":
            if len(e[1]) != 2:
                self.err("tuple of %d components" % len(e[1]))
            ex = expect if isinstance(expect, tuple) and expect[0] == "pair" else (None, None, None)
            a, ta, ga = self.expr(e[1][0], env, ex[1])
            b, tb, gb = self.expr(e[1][1], env, ex[2])
            return "(%s, %s)" % (a, b), ("pair", ta, tb), ga + gb
        if k == "range":
            a, ta, ga = self.expr(e[1], env)
            b, tb, gb = self.expr(e[2], env)
            self.note("a Range a..b is the pair (a, b)")
            return "(%s, %s)" % (a, b), ("pair", ta, self.unify(ta, tb, "range")), ga + gb
        if k == "path":
            return self.path(e, env, expect)
        if k == "bin":
            return self.binop(e, env, expect)
        if k == "field":
            return self.field(e, env)
        if k == "tfield":
            t, ty, gs = self.expr(e[1], env)
            if not (isinstance(ty, tuple) and ty[0] == "pair") or e[2] not in (0, 1):
                self.err("tuple field .%s" % e[2])
            return "(%s %s)" % ("fst" if e[2] == 0 else "snd", t), ty[1 + e[2]], gs
        if k == "struct":
            return self.struct(e, env)
        if k == "call":
            return self.call(e, env, expect)
        if k == "mcall":
            return self.mcall(e, env, expect)
        if k in BLOCKLIKE:
            return self.nested_blocklike(e, env, expect)
        self.err("expression %r" % (e,))

    def path(self, e, env, expect):
        segs = e[1]
        if len(segs) == 1:
            n = segs[0]
            if n == "self":
                if self.f.selfrec:
                    return "self", ("rec", self.f.selfrec), []
                self.err("`self` used as a value")
            if n in env:
                return env[n].coq, env[n].ty, []
            if n == "None":
                inner = expect[1] if isinstance(expect, tuple) and expect[0] == "opt" else None
                return "None", ("opt", inner), []
            c = self.g.const(self.f.rel, n)
            if c:
                w = self.const_width(n)
                return c, ("int", w), []
            self.err("unknown name `%s`" % n)
        if len(segs) == 2 and segs[0] in INTW and segs[1] == "MAX":
            return str(2 ** INTW[segs[0]] - 1), ("int", INTW[segs[0]]), []
        self.err("path `%s`" % "::".join(segs))

    def const_width(self, name):
        for rel in {self.f.rel, BASE, PM, HEADER}:
            _, masked = self.g.src(rel)
            m = re.search(r"\bconst\s+%s\s*:\s*(\w+)\s*=" % re.escape(name), masked)
            if m and m.group(1) in INTW:
                return INTW[m.group(1)]
        return None

    def binop(self, e, env, expect):
        op = e[1]
        if op in ("&&", "||"):
            a, ta, ga = self.expr(e[2], env)
            b, tb, gb = self.expr(e[3], env)
            if ta != "bool" or tb != "bool":
                self.err("`%s` on non-bools" % op)
            if gb:    # right operand is only evaluated when the left one allows it
                c = a if op == "&&" else "(negb %s)" % a
                gb = ["(if %s then %s else true)" % (c, conj(gb))]
            return "(%s %s %s)" % ("andb" if op == "&&" else "orb", a, b), "bool", ga + gb
        cmpops = {"<": "<?", "<=": "<=?", "==": "=?"}
        if op in ("<", "<=", ">", ">=", "==", "!="):
            a, ta, ga = self.expr(e[2], env)
            b, tb, gb = self.expr(e[3], env, ta if is_int(ta) else None)
            if is_int(ta) and ta[1] is None and is_int(tb):
                a, ta, ga = self.expr(e[2], env, tb)
            if not (is_int(ta) and is_int(tb)):
                if ta == tb == "bool" and op in ("==", "!="):
                    r = "(Bool.eqb %s %s)" % (a, b)
                    return (r if op == "==" else "(negb %s)" % r), "bool", ga + gb
                self.err("comparison `%s` of non-integers (%r, %r)" % (op, ta, tb))
            self.unify(ta, tb, "comparison")
            if op in (">", ">="):
                a, b = b, a
                op = {">": "<", ">=": "<="}[op]
            if op == "!=":
                return "(negb (%s =? %s))" % (a, b), "bool", ga + gb
            return "(%s %s %s)" % (a, cmpops[op], b), "bool", ga + gb
        a, ta, ga = self.expr(e[2], env, expect if is_int(expect) else None)
        if op in ("<<", ">>"):
            b, tb, gb = self.expr(e[3], env)
            if not (is_int(ta) and is_int(tb)):
                self.err("shift of non-integers")
            if op == ">>":
                return "(N.shiftr %s %s)" % (a, b), ta, ga + gb
            if ta[1] is None:
                self.err("`<<` on an integer literal of unknown width: %r" % (e,))
            self.note("`<<` on u%d translated as shiftl then `mod 2^%d` (bits shifted out are dropped)" % (ta[1], ta[1]))
            return "((N.shiftl %s %s) mod %s)" % (a, b, two(ta[1])), ta, ga + gb
        b, tb, gb = self.expr(e[3], env, ta if is_int(ta) else (expect if is_int(expect) else None))
        if is_int(ta) and ta[1] is None and is_int(tb) and tb[1] is not None:
            a, ta, ga = self.expr(e[2], env, tb)
        if not (is_int(ta) and is_int(tb)):
            self.err("arithmetic `%s` on non-integers (%r, %r)" % (op, ta, tb))
        ty = self.unify(ta, tb, "`%s`" % op)
        if op in ("+", "-", "*", "/", "%"):
            if op == "-":
                self.note("`-` is N.sub (truncated at 0): the code relies on no underflow")
            sym = {"%": "mod"}.get(op, op)
            return "(%s %s %s)" % (a, sym, b), ty, ga + gb
        fn = {"&": "N.land", "|": "N.lor", "^": "N.lxor"}[op]
        return "(%s %s %s)" % (fn, a, b), ty, ga + gb

    def field(self, e, env):
        # self.a.b... on an impl type that is not a record: an extra leading parameter self_a_b
        chain = []
        x = e
        while x[0] == "field":
            chain.append(x[2])
            x = x[1]
        if x == ("path", ["self"], None) and not self.f.selfrec:
            key = "self_" + "_".join(reversed(chain))
            if key not in self.f.selfparams:
                self.err("self field `%s` not resolved" % key)
            return key, self.f.selfparams[key], []
        t, ty, gs = self.expr(e[1], env)
        if isinstance(ty, tuple) and ty[0] == "rec":
            for fn, fty in self.g.records[ty[1]]:
                if fn == e[2]:
                    return "(%s_f_%s %s)" % (ty[1], fn, t), fty, gs
        self.err("field `.%s` of a value of type %r" % (e[2], ty))

    def struct(self, e, env):
        name = self.f.impl if e[1] == "Self" else e[1]
        if name not in self.g.records:
            self.err("struct literal of `%s`" % e[1])
        given = dict(e[2])
        args, gs = [], []
        for fn, fty in self.g.records[name]:
            if fn not in given:
                self.err("struct literal of %s lacks field %s" % (name, fn))
            t, ty, g = self.expr(given[fn], env, fty)
            self.unify(ty, fty, "field %s of %s" % (fn, name))
            args.append(t)
            gs += g
        if len(given) != len(args):
            self.err("struct literal of %s has unknown fields" % name)
        return "(mk%s %s)" % (name, " ".join(args)), ("rec", name), gs

    def user_call(self, qual, args, env, recv=None):
        fn = self.g.fns.get(qual)
        if fn is None:
            return None
        ptys = [t for _, t in fn.cparams]
        ts, gs = [], []
        if recv is not None:
            ts.append(recv[0])
            gs += recv[2]
            ptys = ptys[1:]
        elif fn.selfrec or fn.selfparams:
            self.err("call of method %s without receiver" % qual)
        if len(args) != len(ptys):
            self.err("call of %s with %d arguments" % (qual, len(args)))
        for a, pt in zip(args, ptys):
            t, ty, g = self.expr(a, env, pt)
            self.unify(ty, pt, "argument of %s" % qual)
            ts.append(t)
            gs += g
        app = "(%s %s)" % (fn.coq, " ".join(ts)) if ts else fn.coq
        if fn.has_guard:
            gs.append("(%s_guard %s)" % (fn.coq, " ".join(ts)) if ts else "%s_guard" % fn.coq)
        return app, fn.cret, gs

    def call(self, e, env, expect):
        segs, generic, args = e[1], e[2], e[3]
        name = "::".join(segs)
        if name in ("size_of", "mem::size_of", "core::mem::size_of", "std::mem::size_of") and generic and not args:
            tn = generic[1] if generic[0] == "path" else None
            if tn in SIZEOF:
                return str(SIZEOF[tn]), ("int", 64), []
            self.err("size_of::<%r>" % (generic,))
        if name == "Some" and len(args) == 1:
            inner = expect[1] if isinstance(expect, tuple) and expect[0] == "opt" else None
            t, ty, gs = self.expr(args[0], env, inner)
            return "(Some %s)" % t, ("opt", ty), gs
        if name == "Ok" and len(args) == 1:
            inner = expect[1] if isinstance(expect, tuple) and expect[0] == "opt" else None
            t, ty, gs = self.expr(args[0], env, inner)
            self.note("Result<T> is option T: Ok(x) = Some x, Err(_) = None (error payload dropped)")
            return "(Some %s)" % t, ("opt", ty), gs
        if name == "Err" and len(args) == 1:
            inner = expect[1] if isinstance(expect, tuple) and expect[0] == "opt" else None
            return "None", ("opt", inner), []
        if len(segs) == 2 and segs[0] in INTW and segs[1] == "from" and len(args) == 1:
            t, ty, gs = self.expr(args[0], env)
            if not is_int(ty) or (ty[1] is not None and ty[1] > INTW[segs[0]]):
                self.err("%s of %r" % (name, ty))
            return t, ("int", INTW[segs[0]]), gs          # lossless widening: exact
        if len(segs) == 2 and segs[0] in INTW and segs[1] == "from_le_bytes" and len(args) == 1:
            t, ty, gs = self.expr(args[0], env)
            if ty != ("int", INTW[segs[0]]):
                self.err("%s of %r" % (name, ty))
            self.note("[u8; n] values stand for the little-endian number they hold: from_le_bytes/to_le_bytes are the identity")
            return t, ty, gs
        if name in ("min", "max", "core::cmp::min", "core::cmp::max", "cmp::min", "cmp::max") and len(args) == 2:
            a, ta, ga = self.expr(args[0], env, expect)
            b, tb, gb = self.expr(args[1], env, ta)
            if is_int(ta) and ta[1] is None:
                a, ta, ga = self.expr(args[0], env, tb)
            ty = self.unify(ta, tb, name)
            return "(N.%s %s %s)" % (segs[-1], a, b), ty, ga + gb
        # user functions: free fn, Type::fn, Self::fn
        qual = name
        if segs[0] == "Self" and self.f.impl:
            qual = "::".join([self.f.impl] + segs[1:])
        r = self.user_call(qual, args, env)
        if r is not None:
            return r
        self.err("call of `%s` (not in WANT before this function, not a known builtin)" % name)

    def mcall(self, e, env, expect):
        recv, name, args = e[1], e[2], e[3]
        # checked conversions
        if name == "unwrap" and not args and recv[0] == "mcall" and recv[2] == "try_into" and not recv[3]:
            return self.checked_conv(recv[1], env, expect)
        if name in ("unwrap", "is_ok") and not args and recv[0] == "call" and len(recv[1]) == 2 \
                and recv[1][0] in INTW and recv[1][1] == "try_from" and len(recv[3]) == 1:
            target = ("int", INTW[recv[1][0]])
            if name == "unwrap":
                return self.checked_conv(recv[3][0], env, target)
            t, ty, gs = self.expr(recv[3][0], env)
            if not is_int(ty):
                self.err("try_from of a non-integer")
            return "(%s <=? %d)" % (t, 2 ** target[1] - 1), "bool", gs
        if name == "try_into" and not args:
            self.err("try_into() not followed by unwrap()")
        if name == "into" and not args:
            t, ty, gs = self.expr(recv, env)
            if is_int(expect) and is_int(ty) and expect[1] is not None and (ty[1] is None or ty[1] <= expect[1]):
                return t, expect, gs
            if is_int(ty):
                self.note("`.into()` of `%s` with target type not inferred: identity (From is lossless)" % t)
                return t, ("int", None), gs
            self.err(".into() of %r" % (ty,))
        t, ty, gs = self.expr(recv, env)
        if ty == "bytes":
            self.err("Vec<u8> method .%s used as a value" % name)
        if is_int(ty):
            return self.int_method(t, ty, gs, name, args, env, expect)
        if isinstance(ty, tuple) and ty[0] == "opt":
            if name == "is_none" and not args:
                return "(isNone %s)" % t, "bool", gs
            if name == "is_some" and not args:
                return "(isSome %s)" % t, "bool", gs
            if name in ("as_ref", "copied", "cloned") and not args:
                return t, ty, gs
            if name == "unwrap_or" and len(args) == 1:
                d, dty, dg = self.expr(args[0], env, ty[1])
                return "(unwrap_or %s %s)" % (t, d), self.unify(ty[1], dty, "unwrap_or"), gs + dg
            if name == "unwrap_or_default" and not args:
                return "(unwrap_or %s %s)" % (t, self.g.default(ty[1])), ty[1], gs
            if name == "unwrap" and not args:
                self.note("Option::unwrap(): `isSome` joins the guard; the value on None is a default")
                return "(unwrap_or %s %s)" % (t, self.g.default(ty[1])), ty[1], gs + ["(isSome %s)" % t]
            if name == "map" and len(args) == 1 and args[0][0] == "path":
                segs = args[0][1]
                qual = "::".join(segs)
                fn = self.g.fns.get(qual)
                if fn is not None and len(fn.cparams) == 1:
                    if fn.has_guard:
                        gs = gs + ["match %s with Some x_ => %s_guard x_ | None => true end" % (t, fn.coq)]
                    return "(option_map %s %s)" % (fn.coq, t), ("opt", fn.cret), gs
            self.err("Option method .%s" % name)
        if isinstance(ty, tuple) and ty[0] == "rec":
            r = self.user_call("%s::%s" % (ty[1], name), args, env, recv=(t, ty, gs))
            if r is not None:
                return r
            self.err("method %s::%s (not in WANT before this function)" % (ty[1], name))
        self.err("method .%s on a value of type %r" % (name, ty))

    def int_method(self, t, ty, gs, name, args, env, expect):
        w = ty[1]
        a, ga = [], []
        for x in args:
            at, aty, ag = self.expr(x, env, ty)
            if not is_int(aty):
                self.err("argument of .%s is not an integer" % name)
            a.append(at)
            ga += ag
        gs = gs + ga
        n = len(a)
        if name == "is_multiple_of" and n == 1:
            return "(%s mod %s =? 0)" % (t, a[0]), "bool", gs     # N: x mod 0 = x, so rhs 0 gives `x = 0` as in Rust
        if name in ("min", "max") and n == 1:
            return "(N.%s %s %s)" % (name, t, a[0]), ty, gs
        if name == "pow" and n == 1:
            return "(%s ^ %s)" % (t, a[0]), ty, gs
        if name == "div_ceil" and n == 1:
            return "(div_ceil %s %s)" % (t, a[0]), ty, gs
        if name == "next_multiple_of" and n == 1:
            return "(next_multiple_of %s %s)" % (t, a[0]), ty, gs
        if name == "clamp" and n == 2:
            return "(N.max %s (N.min %s %s))" % (a[0], t, a[1]), ty, gs + ["(%s <=? %s)" % (a[0], a[1])]
        if name == "saturating_sub" and n == 1:
            return "(%s - %s)" % (t, a[0]), ty, gs
        if name == "is_power_of_two" and n == 0:
            return "(is_power_of_two %s)" % t, "bool", gs
        if name == "next_power_of_two" and n == 0:
            return "(next_power_of_two %s)" % t, ty, gs
        if name == "ilog2" and n == 0:
            return "(N.log2 %s)" % t, ("int", 32), gs + ["(0 <? %s)" % t]
        if name in ("trailing_zeros", "leading_zeros") and n == 0:
            if w is None:
                self.err(".%s on an integer of unknown width" % name)
            return "(%s %d %s)" % (name, w, t), ("int", 32), gs
        if name == "to_le_bytes" and n == 0:
            if w is None:
                self.err(".to_le_bytes on an integer of unknown width")
            self.note("[u8; n] values stand for the little-endian number they hold: from_le_bytes/to_le_bytes are the identity")
            return t, ty, gs
        self.err("integer method .%s/%d" % (name, n))

    def nested_blocklike(self, e, env, expect):
        """if/match/block used inside a larger expression: value only, may not assign outer variables"""
        if assigned(e, set()) & set(env.keys()) or contains(e, "return"):
            self.err("assignment or return inside a nested block expression")
        cell = {}
        inner_guards = []

        def k(v, ty, env2):
            cell["ty"] = self.unify(cell.get("ty"), ty, "branches") if "ty" in cell else ty
            return v
        saved_mode = self.mode
        self.mode = "val"          # guards inside are collected through a second pass below
        try:
            term = self.blocklike_tail(e, dict(env), k, expect)
        finally:
            self.mode = saved_mode
        if saved_mode == "guard" and (contains(e, "assert") or self.has_guard_sources(e)):
            saved = self.nguards

            def kg(v, ty, env2):
                return "g_"
            gterm = "(let g_ := true in %s)" % self.blocklike_tail(e, dict(env), kg, expect)
            if self.nguards > saved:
                inner_guards.append(gterm)
        return "(%s)" % term, cell.get("ty"), inner_guards

    def has_guard_sources(self, e):
        return contains(e, "mcall") or contains(e, "call")

    # ------------------------------------------------------------ statements
    def block(self, blk, env, k):
        """translate a block in a new scope; k(value_term|None, type, env) builds what follows its value"""
        self.depth += 1
        try:
            return self.stmts(blk[1], 0, blk[2], dict(env), k)
        finally:
            self.depth -= 1

    def stmts(self, items, i, tail, env, k):
        if i == len(items):
            if tail is None:
                return k(None, "unit", env)
            if tail[0] in BLOCKLIKE:
                return self.blocklike_tail(tail, env, k, self.tail_expect)
            t, ty, gs = self.expr(tail, env, self.tail_expect)
            return self.emit_guards(gs, k(t, ty, env))
        s = items[i]

        def rest(env2):
            return self.stmts(items, i + 1, tail, env2, k)
        kind = s[0]
        if kind == "let":
            expect = self.g.ty(s[2], self.f.impl, self.f.qual) if s[2] is not None else None
            if s[3][0] in BLOCKLIKE:
                return self.blocklike_stmt(s[3], env, expect, s[1], rest, k)
            t, ty, gs = self.expr(s[3], env, expect)
            if expect is not None:
                ty = self.unify(ty, expect, "let annotation")
            pat = self.bindpat(s[1], ty, env)
            return self.emit_guards(gs, "let %s := %s in\n%s" % (pat, t, rest(env)))
        if kind == "assign":
            op, lhs, rhs = s[1], s[2], s[3]
            if lhs[0] != "path" or len(lhs[1]) != 1 or lhs[1][0] not in env:
                self.err("assignment to `%r`" % (lhs,))
            v = env[lhs[1][0]]
            if rhs[0] in BLOCKLIKE and op == "=":
                return self.blocklike_stmt(rhs, env, v.ty, ("passign", v.coq), rest, k)
            if op == "=":
                t, ty, gs = self.expr(rhs, env, v.ty)
            else:
                t, ty, gs = self.expr(("bin", op[:-1], lhs, rhs), env, v.ty)
            self.unify(ty, v.ty, "assignment to %s" % lhs[1][0])
            return self.emit_guards(gs, "let %s := %s in\n%s" % (v.coq, t, rest(env)))
        if kind == "assert":
            if self.mode != "guard":
                return rest(env)
            t, ty, gs = self.expr(s[1], env)
            if ty != "bool":
                self.err("assert of a non-bool")
            return self.emit_guards(gs + [t], rest(env))
        if kind == "return":
            if s[1] is None:
                self.err("return without value")
            saved = self.tail_expect
            self.tail_expect = self.f.cret
            try:
                if s[1][0] in BLOCKLIKE:
                    return self.blocklike_tail(s[1], env, self.kret, self.f.cret)
                t, ty, gs = self.expr(s[1], env, self.f.cret)
                return self.emit_guards(gs, self.kret(t, ty, env))
            finally:
                self.tail_expect = saved
        if kind == "while":
            return self.while_(s, env, rest)
        if kind == "expr":
            e = s[1]
            if e[0] in BLOCKLIKE:
                return self.blocklike_stmt(e, env, None, None, rest, k)
            if e[0] == "mcall" and e[1][0] == "path" and len(e[1][1]) == 1 and e[1][1][0] in env \
                    and env[e[1][1][0]].ty == "bytes":
                v = env[e[1][1][0]]
                if e[2] == "push" and len(e[3]) == 1:
                    t, ty, gs = self.expr(e[3][0], env, ("int", 8))
                    self.unify(ty, ("int", 8), "Vec<u8>::push")
                    return self.emit_guards(gs, "let %s := (%s ++ [%s]) in\n%s" % (v.coq, v.coq, t, rest(env)))
                if e[2] == "extend_from_slice" and len(e[3]) == 1:
                    a = e[3][0]
                    while a[0] in ("borrow", "paren"):
                        a = a[1]
                    if a[0] == "mcall" and a[2] == "to_le_bytes" and not a[3]:
                        t, ty, gs = self.expr(a[1], env)
                        if not is_int(ty) or ty[1] is None:
                            self.err("to_le_bytes of unknown width")
                        return self.emit_guards(gs, "let %s := (%s ++ le_encode %d%%nat %s) in\n%s"
                                                % (v.coq, v.coq, ty[1] // 8, t, rest(env)))
            self.err("expression statement %r" % (e,))
        self.err("statement %r" % (s,))

    def while_(self, s, env, rest):
        fuel = self.f.opts.get("fuel")
        if not fuel:
            self.err("`while` loop needs a `fuel` option in WANT")
        cond, body = s[1], s[2]
        if contains(body, "return") or contains(body, "assert"):
            self.err("return/assert inside a while loop")
        names = sorted(assigned(body, set()) & set(env.keys()))
        if not names:
            self.err("while loop that assigns nothing")
        coqs = [env[n].coq for n in names]
        tup = coqs[0] if len(coqs) == 1 else "'(%s)" % ", ".join(coqs)
        val = coqs[0] if len(coqs) == 1 else "(%s)" % ", ".join(coqs)
        c, cty, cg = self.expr(cond, env)
        if cty != "bool":
            self.err("while condition is not a bool")

        def kb(v, ty, env2):
            return val
        saved_mode = self.mode
        self.mode = "val"
        try:
            b = self.block(body, env, kb)
        finally:
            self.mode = saved_mode
        self.note("`while` is while_fuel %d: exact when the loop ends within %d rounds" % (fuel, fuel))
        return "let %s := while_fuel %d (fun %s => %s) (fun %s =>\n%s) %s in\n%s" % (
            tup, fuel, tup, c, tup, b, val, rest(env))

    # -- block-like expressions
    def branches(self, e, env, kbranch, expect):
        """`if c then B1 else B2` / `match` skeleton with each branch block translated by kbranch"""
        k = e[0]
        if k == "block":
            return self.block(e, env, kbranch)
        if k == "if":
            c, cty, cg = self.expr(e[1], env)
            if cty != "bool":
                self.err("if condition is not a bool")
            a = self.block(e[2], env, kbranch)
            b = self.block(e[3], env, kbranch) if e[3] is not None else kbranch(None, "unit", env)
            return self.emit_guards(cg, "if %s then\n%s\nelse\n%s" % (c, a, b))
        if k == "iflet":
            e = ("match", e[2], [(e[1], e[3]), (("pwild",), e[4] if e[4] is not None else ("block", [], None))])
        scrut, arms = e[1], e[2]
        t, ty, gs = self.expr(scrut, env)
        if isinstance(ty, tuple) and ty[0] == "opt":
            some = none = None
            for pat, body in arms:
                if pat[0] == "psome" and some is None:
                    some = (pat, body)
                elif pat[0] in ("pnone", "pwild") and none is None:
                    none = body
                else:
                    self.err("match arm pattern %r on an Option" % (pat,))
            if some is None or none is None:
                self.err("match on an Option needs Some(..) and None arms")
            self.depth += 1
            try:
                env2 = dict(env)
                if some[0][1][0] == "pvar":
                    x = self.declare(env2, some[0][1][1], ty[1])
                elif some[0][1][0] == "pwild":
                    x = "_"
                else:
                    self.err("pattern inside Some(..): %r" % (some[0][1],))
                a = self.arm(some[1], env2, kbranch)
            finally:
                self.depth -= 1
            b = self.arm(none, env, kbranch)
            return self.emit_guards(gs, "match %s with\n| Some %s =>\n%s\n| None =>\n%s\nend" % (t, x, a, b))
        if is_int(ty):
            out = None
            chain = []
            for pat, body in arms:
                if pat[0] == "plit":
                    chain.append(("(%s =? %d)" % (t, pat[1]), body, None))
                elif pat[0] == "prange":
                    chain.append(("(andb (%d <=? %s) (%s <=? %d))" % (pat[1], t, t, pat[2]), body, None))
                elif pat[0] in ("pwild", "pvar"):
                    chain.append((None, body, pat[1] if pat[0] == "pvar" else None))
                    break
                else:
                    self.err("match arm pattern %r on an integer" % (pat,))
            if not chain or chain[-1][0] is not None:
                self.err("match on an integer without a catch-all arm")
            for cond, body, bind in reversed(chain):
                if cond is None:
                    self.depth += 1
                    try:
                        env2 = dict(env)
                        if bind:
                            x = self.declare(env2, bind, ty)
                            out = "let %s := %s in\n%s" % (x, t, self.arm(body, env2, kbranch))
                        else:
                            out = self.arm(body, env2, kbranch)
                    finally:
                        self.depth -= 1
                else:
                    out = "if %s then\n%s\nelse\n%s" % (cond, self.arm(body, env, kbranch), out)
            return self.emit_guards(gs, out)
        self.err("match on a value of type %r" % (ty,))

    def arm(self, body, env, kbranch):
        if body[0] == "block":
            return self.block(body, env, kbranch)
        return self.block(("block", [], body), env, kbranch)

    def blocklike_tail(self, e, env, k, expect):
        saved = self.tail_expect
        self.tail_expect = expect
        try:
            return "(" + self.branches(e, env, k, expect) + ")"
        finally:
            self.tail_expect = saved

    def blocklike_stmt(self, e, env, expect, pat, rest, k):
        """block-like expression in statement position (let initialiser, assignment rhs or bare statement)"""
        want_value = pat is not None
        if contains(e, "return"):
            # a branch returns: the rest of the enclosing block is continued inside every branch
            outer = env

            def kdup(v, ty, env2):
                env3 = dict(outer)
                if want_value:
                    if v is None:
                        self.err("block without value used as a value")
                    p = pat[1] if pat[0] == "passign" else self.bindpat(pat, self.unify(ty, expect, "let") if expect else ty, env3)
                    return "let %s := %s in\n%s" % (p, v, rest(env3))
                return rest(env3)
            return self.blocklike_tail(e, env, kdup, expect)
        names = sorted(assigned(e, set()) & set(env.keys()))
        comps = [env[n].coq for n in names]
        if self.mode == "guard":
            comps.append("g_")
        cell = {}

        def kjoin(v, ty, env2):
            parts = list(comps)
            if want_value:
                if v is None:
                    self.err("block without value used as a value")
                cell["ty"] = self.unify(cell["ty"], ty, "branches") if "ty" in cell else ty
                parts = [v] + parts
            return parts[0] if len(parts) == 1 else "(%s)" % ", ".join(parts)
        if not want_value and not comps:
            return rest(env)              # no effect on anything we track (only asserts, in value mode)
        body = self.blocklike_tail(e, env, kjoin, expect)
        binders = list(comps)
        if want_value:
            ty = cell.get("ty")
            if expect is not None:
                ty = self.unify(ty, expect, "let annotation")
            if ty is None or (isinstance(ty, tuple) and ty[0] == "opt" and ty[1] is None):
                self.err("type of block-like expression not inferred")
            if pat[0] == "passign":
                binders = [pat[1]] + binders
            else:
                p = self.bindpat(pat, ty, env)
                binders = [p.lstrip("'")] + binders
        lhs = binders[0] if len(binders) == 1 else "'(%s)" % ", ".join(binders)
        if len(binders) == 1 and binders[0].startswith("("):
            lhs = "'" + binders[0]
        return "let %s := %s in\n%s" % (lhs, body, rest(env))

    # ------------------------------------------------------------ whole function
    def run(self):
        f = self.f
        env = {}
        for n, t in f.cparams:
            env[n] = Var(cname(n), t, 0)
        if f.selfrec:
            del env["self"]
        self.tail_expect = f.cret
        if self.mode == "val":
            def kret(v, ty, env2):
                if v is None:
                    if f.cret == "unit":
                        return "tt"
                    self.err("function body has no value")
                if f.cret != "bytes":
                    self.unify(ty, f.cret, "return value")
                return v
        else:
            def kret(v, ty, env2):
                return "g_"
        if f.sink:
            # fn f(.., out: &mut Vec<u8>): the final contents of `out` are the result
            inner = kret
            sink = cname(f.sink)

            def kret(v, ty, env2, inner=inner):     # noqa: F811
                return inner(sink, "bytes", env2) if self.mode == "val" else "g_"
        self.kret = kret
        body = self.stmts(f.body[1], 0, f.body[2], env, kret)
        if self.mode == "guard":
            body = "let g_ := true in\n" + body
        return body


def indent(term):
    """re-indent the let/if/match chain produced above"""
    out, depth = [], 1
    for line in term.split("\n"):
        s = line.strip()
        if s.startswith(("else", "| ", "end")) or s == ")":
            depth_here = max(1, depth - 1)
        else:
            depth_here = depth
        out.append("  " * depth_here + s)
        opens = s.count("(") - s.count(")")
        depth = max(1, depth + opens)
        if s.endswith("then") or s.endswith("with") or s.endswith("=>"):
            depth += 1
        if s.startswith("else") and not s.endswith("then") and s != "else":
            pass
        if s == "else":
            pass
        if s.startswith("end"):
            depth = max(1, depth - 1)
    return "\n".join(out)


def translate_fn(gen, f):
    f.notes = []
    f.selfrec = None
    f.selfparams = {}
    f.sink = None
    where = "%s: fn %s" % (f.rel, f.qual)
    cparams = []
    if f.selfkind:
        if f.selfkind == "&mut":
            raise Err("%s: &mut self method" % where)
        if f.impl in gen.records:
            f.selfrec = f.impl
            cparams.append(("self", ("rec", f.impl)))
        else:
            # every `self.a.b` chain in the body becomes a leading parameter self_a_b
            chains = []

            def walk(node):
                if isinstance(node, tuple):
                    if node and node[0] == "field":
                        ch, x = [], node
                        while x[0] == "field":
                            ch.append(x[2])
                            x = x[1]
                        if x == ("path", ["self"], None):
                            ch = list(reversed(ch))
                            if ch not in chains:
                                chains.append(ch)
                            return
                    for x in node:
                        walk(x)
                elif isinstance(node, list):
                    for x in node:
                        walk(x)
            walk(f.body)
            for ch in chains:
                sname, t = f.impl, None
                for fld in ch:
                    if sname is None:
                        raise Err("%s: self.%s: field of a non-struct" % (where, ".".join(ch)))
                    fields = dict(gen.struct_fields(f.rel, sname))
                    if fld not in fields or fields[fld] is None:
                        raise Err("%s: self.%s: field %s of %s not found / not translatable" % (where, ".".join(ch), fld, sname))
                    t = fields[fld]
                    sname = t[1] if t[0] == "path" and t[1] not in INTW and t[1] not in ("Option", "bool") else None
                key = "self_" + "_".join(ch)
                f.selfparams[key] = gen.ty(t, f.impl, where)
                cparams.append((key, f.selfparams[key]))
    for n, t, _mut in f.params:
        ct = gen.ty(t, f.impl, where)
        if ct == "bytes":
            if f.sink:
                raise Err("%s: two &mut Vec<u8> parameters" % where)
            f.sink = n
        cparams.append((n, ct))
    f.cparams = cparams
    f.cret = gen.ty(f.ret, f.impl, where)
    if f.sink:
        if f.cret != "unit":
            raise Err("%s: &mut Vec<u8> parameter and a return value" % where)
        f.cret = "bytes"
    f.coq = f.qual.replace("::", "_")
    val = Tr(gen, f, "val").run()
    gtr = Tr(gen, f, "guard")
    guard = gtr.run()
    f.has_guard = gtr.nguards > 0
    if not f.has_guard:
        guard = "true"
    doms = [gen.dom(cname(n), t) for n, t in cparams]
    binders = " ".join("(%s : %s)" % (cname(n), coq_ty(t)) for n, t in cparams)
    sp = " " if binders else ""
    lines = []
    lines.append("(* %s  %s  sha1=%s" % (f.qual, f.rel, f.sha1))
    gen.index.append("%-45s %s:%d-%d  sha1=%s" % (f.coq, f.rel, f.line0, f.line1, f.sha1))
    if f.within:
        lines.append("   an expression inside fn %s: `%s`" % (f.within, " ".join(f.text.split())))
    for a, b in f.opts.get("subst", {}).items():
        lines.append("   `%s` is the parameter `%s`" % (a, b))
    if f.opts.get("drop_params"):
        lines.append("   parameters dropped (only used through the substituted terms): %s" % ", ".join(f.opts["drop_params"]))
    if f.selfparams:
        lines.append("   self fields read, passed as leading parameters: %s" % ", ".join(f.selfparams))
    if f.selfrec:
        lines.append("   &self is the leading parameter `self : %s`" % f.selfrec)
    if f.sink:
        lines.append("   `%s: &mut Vec<u8>` is a byte list parameter; the result is its final contents" % f.sink)
    for n in f.notes:
        lines.append("   note: %s" % n)
    lines.append("*)")
    lines.append("Definition %s%s%s : %s :=\n%s." % (f.coq, sp, binders, coq_ty(f.cret), indent(val)))
    lines.append("Definition %s_guard%s%s : bool :=\n%s." % (f.coq, sp, binders, indent(guard)))
    lines.append("Definition %s_dom%s%s : bool :=\n  %s." % (f.coq, sp, binders, conj(doms)))
    return "\n".join(lines)


def record_decl(gen, rel, name):
    fields = []
    for fn, t in gen.struct_fields(rel, name):
        if t is None:
            raise Err("%s: struct %s: field %s has a type outside the subset" % (rel, name, fn))
        fields.append((fn, gen.ty(t, name, "%s: struct %s" % (rel, name))))
    gen.records[name] = fields
    text, masked = gen.src(rel)
    m = re.search(r"\bstruct\s+%s\b[^{;(]*\{" % re.escape(name), masked)
    end = match_brace(masked, m.end() - 1)
    line0 = text.count("\n", 0, m.start()) + 1
    line1 = text.count("\n", 0, end) + 1
    sha = hashlib.sha1(text[m.start():end + 1].encode()).hexdigest()
    out = ["(* struct %s  %s  sha1=%s *)" % (name, rel, sha)]
    gen.index.append("%-45s %s:%d-%d  sha1=%s" % ("struct " + name, rel, line0, line1, sha))
    out.append("Record %s := mk%s { %s }." % (name, name, "; ".join("%s_f_%s : %s" % (name, fn, coq_ty(t)) for fn, t in fields)))
    out.append("Definition %s_default : %s := mk%s %s." % (name, name, name, " ".join(gen.default(t) for _, t in fields)))
    doms = [gen.dom("(%s_f_%s r)" % (name, fn), t) for fn, t in fields]
    out.append("Definition %s_dom (r : %s) : bool :=\n  %s." % (name, name, conj(doms)))
    return "\n".join(out)


HEADER_TXT = """(* GENERATED by tools/gen_fns.py from the Rust sources -- do not edit.
   One Definition per Rust function; its source file and the sha1 of its text are given before each, the
   line ranges are in Gen/Fns.index (kept out of this file so that shifted lines cause no rebuild);
   <f>_guard = conjunction of the asserts / checked conversions / unwraps the code performs on that input,
   <f>_dom   = every parameter inside the range of its Rust integer type (usize = u64).
   Integers are unbounded N: `+ *` do not wrap, `-` is truncated subtraction (see design.d/GEN.md). *)
From Coq Require Import NArith List Bool.
From RV Require Import Base.Bytes Gen.Consts Gen.FnsLib.
Import ListNotations.
Open Scope N_scope.
"""


gen_index = []


def generate(repo, want=None, structs=None):
    gen = Gen(repo)
    parts = [HEADER_TXT]
    for rel, name in (STRUCTS if structs is None else structs):
        parts.append(record_decl(gen, rel, name))
    errors = []
    for rel, qual, opts in (WANT if want is None else want):
        # a function that cannot be translated is left out (with the reason as a comment): exactly the proofs
        # that mention it stop compiling, i.e. exactly the properties relying on it lose their S1
        try:
            f = gen.locate(rel, qual, opts)
            parts.append(translate_fn(gen, f))
            gen.fns[f.qual] = f
        except (Err, Unsupported) as ex:
            name = opts.get("name", qual.replace("::", "_"))
            errors.append("%s" % ex)
            parts.append("(* UNTRANSLATABLE %s (%s): no definition emitted.\n   %s *)"
                         % (name, qual, str(ex).replace("*)", "* )").replace("(*", "( *")))
    gen_index[:] = gen.index
    return "\n\n".join(parts) + "\n", errors


def main(argv):
    if "--selftest" in argv:
        import gen_fns_selftest
        return gen_fns_selftest.run()
    out = OUT
    if "--out" in argv:
        out = argv[argv.index("--out") + 1]
    try:
        body, errors = generate(REPO)
    except (Err, Unsupported) as ex:
        print("gen_fns: ERROR %s" % ex, file=sys.stderr)
        return 2
    for e in errors:
        print("gen_fns: UNTRANSLATABLE (definition left out; dependent proofs will fail) %s" % e, file=sys.stderr)
    os.makedirs(os.path.dirname(out), exist_ok=True)
    old = open(out).read() if os.path.exists(out) else None
    if old != body:
        tmp = out + ".tmp%d" % os.getpid()
        with open(tmp, "w") as fh:
            fh.write(body)
        os.replace(tmp, out)
        print("gen_fns: wrote", os.path.normpath(out))
    idx = "# GENERATED by tools/gen_fns.py from %s: where each definition of Fns.v comes from\n" % REPO \
        + "\n".join(gen_index) + "\n"
    ip = os.path.splitext(out)[0] + ".index"
    if not os.path.exists(ip) or open(ip).read() != idx:
        with open(ip, "w") as fh:
            fh.write(idx)
    return 0


if __name__ == "__main__":
    sys.exit(main(sys.argv[1:]))
