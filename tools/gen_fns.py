#!/usr/bin/env python3
"""Tie 1b: translate a chosen set of small pure Rust functions of the repository under check into Gallina.

Writes coq/Gen/Fns.v (one `Definition` per function of WANT, plus `<f>_guard` = conjunction of the
asserts / checked conversions the code performs, and `<f>_dom` = every parameter inside the range of its
Rust integer type).  The file is regenerated on every run (vlib.coq_prepare) and rewritten only when its
content changes.  The hand-written models are proved equal to these definitions in coq/Gen/Fns*P.v, so a
change of one of these functions in the Rust sources breaks a proof obligation (or, if it leaves the
translated subset, makes this script fail -- which the framework reports the same way).

Subset and semantics: see design.d/GEN.md.  Anything outside the subset is a hard error naming the
function and the offending text; there are no silent defaults.

  gen_fns.py                 regenerate coq/Gen/Fns.v from $VERIF_REPO (default /repo)
  gen_fns.py --out FILE      write somewhere else
  gen_fns.py --selftest      translate literal snippets and compare with the expected Gallina
"""
import hashlib
import os
import re
import sys

HERE = os.path.dirname(os.path.abspath(__file__))
sys.path.insert(0, HERE)
from rsmini import Parser, Unsupported, lex, mask_comments_strings, match_brace  # noqa: E402

REPO = os.environ.get("VERIF_REPO", "/repo")
# VERIF_COQ: the coq tree to write into (a private copy when a check runs against another checkout)
COQDIR = os.environ.get("VERIF_COQ") or os.path.join(HERE, "..", "coq")
OUT = os.path.join(COQDIR, "Gen", "Fns.v")
CONSTS_V = os.path.join(COQDIR, "Gen", "Consts.v")

LAYOUT = "src/tree_store/page_store/layout.rs"
BASE = "src/tree_store/page_store/base.rs"
BTB = "src/tree_store/btree_base.rs"
BUDDY = "src/tree_store/page_store/buddy_allocator.rs"
BITMAP = "src/tree_store/page_store/bitmap.rs"
PM = "src/tree_store/page_store/page_manager.rs"
HEADER = "src/tree_store/page_store/header.rs"

TT = "src/transaction_tracker.rs"
CF = "src/tree_store/page_store/cached_file.rs"


def hdr(name, ret, pat):
    """an expression of UnrepairedDatabaseHeader::from_bytes over the header bytes `data`"""
    return (HEADER, "UnrepairedDatabaseHeader::from_bytes",
            {"name": name, "ret": ret, "snippet": pat, "params": [("data", "&[u8]")]})


def slot(name, ret, pat):
    """an expression of TransactionHeader::from_bytes over the 128 bytes `data` of a commit slot"""
    return (HEADER, "TransactionHeader::from_bytes",
            {"name": name, "ret": ret, "snippet": pat, "params": [("data", "&[u8]")]})


# BranchAccessor is generic over the page type: `self.page.memory()` is the byte slice parameter `page`
BR = {"resub": [(r"self\s*\.page\s*\.memory\(\)", "page")], "params": [("page", "&[u8]")]}
BRI = {"params": [("page", "&[u8]")]}       # no direct read, but calls functions that take `page`

# structs translated to Coq Records (file, name)
STRUCTS = [(LAYOUT, "RegionLayout"), (LAYOUT, "DatabaseLayout"), (BASE, "PageNumber"),
           (BTB, "BtreeHeader", "soft"), ("src/transactions.rs", "TransactionIdWithPagination", "soft")]

# enums with unit variants only, translated to Coq Inductives (file, name)
ENUMS = [("src/tree_store/multimap_btree.rs", "DynamicCollectionType"), ("src/types.rs", "TypeClassification"),
         (PM, "ShrinkPolicy")]

# (file, qualified name, options).  Callees before callers.
#   fuel: bound of `while` loops (N.iter-style fuel; exact when the loop ends within that many rounds)
#   snippet: the "function" is an expression found by the regex `snippet` (group 1) inside the body of the
#            named function; `params` declares its free variables, `subst` rewrites impure sub-terms
#            (textually, before parsing) to one of those variables.
WANT = [
    (BASE, "PageNumber::serialized_size", {}),
    (BASE, "PageNumber::new", {}),
    (BASE, "PageNumber::to_le_bytes", {}),
    (BASE, "PageNumber::from_le_bytes", {}),
    (BASE, "PageNumber::page_size_bytes", {}),
    (BASE, "PageNumber::address_range", {}),
    (LAYOUT, "round_up_to_multiple_of", {}),
    (LAYOUT, "RegionLayout::new", {}),
    (LAYOUT, "RegionLayout::calculate", {}),
    (LAYOUT, "RegionLayout::get_header_pages", {}),
    (LAYOUT, "RegionLayout::num_pages", {}),
    (LAYOUT, "RegionLayout::page_size", {}),
    (LAYOUT, "RegionLayout::usable_bytes", {}),
    (LAYOUT, "RegionLayout::len", {}),
    (LAYOUT, "RegionLayout::data_section", {}),
    (LAYOUT, "DatabaseLayout::new", {}),
    (LAYOUT, "DatabaseLayout::recalculate", {}),
    (LAYOUT, "DatabaseLayout::calculate", {}),
    (LAYOUT, "DatabaseLayout::num_full_regions", {}),
    (LAYOUT, "DatabaseLayout::num_regions", {}),
    (LAYOUT, "DatabaseLayout::region_base_address", {}),
    (LAYOUT, "DatabaseLayout::region_layout", {}),
    (LAYOUT, "DatabaseLayout::len", {}),
    (LAYOUT, "DatabaseLayout::usable_bytes", {}),
    (HEADER, "UnrepairedDatabaseHeader::layout_from_file_len", {}),
    (BTB, "RawLeafBuilder::required_bytes", {}),
    (BTB, "RawBranchBuilder::required_bytes", {}),
    (BTB, "leaf_fits_one_page", {}),
    (BTB, "leaf_split_required", {}),
    (BTB, "leaf_below_merge_threshold", {}),
    (BTB, "LeafBuilder::required_bytes", {}),
    (BTB, "LeafBuilder::should_split", {
        "subst": {"self.pairs.len()": "num_pairs", "self.page_allocator.get_page_size()": "page_size"},
        "params": [("num_pairs", "usize"), ("page_size", "usize")]}),
    (BTB, "LeafBuilder::build_split", {
        "name": "LeafBuilder_build_split_half_reached", "ret": "bool",
        "snippet": r"if (first_split_key_bytes \+ first_split_value_bytes >= total_size / 2) \{",
        "params": [("first_split_key_bytes", "usize"), ("first_split_value_bytes", "usize"), ("total_size", "usize")]}),
    (BTB, "LeafBuilder::build_split", {
        "name": "LeafBuilder_build_split_clamp", "ret": "usize",
        "snippet": r"let clamped = (division\.clamp\(self\.pairs\.len\(\)\.saturating_sub\(max_pairs\), max_pairs\));",
        "subst": {"self.pairs.len()": "num_pairs"},
        "params": [("division", "usize"), ("num_pairs", "usize"), ("max_pairs", "usize")]}),
    (BTB, "is_single_large_value", {
        "subst": {"accessor.num_pairs()": "num_pairs", "accessor.total_length()": "total_length"},
        "drop_params": ["accessor"], "params": [("num_pairs", "usize"), ("total_length", "usize")]}),
    (BTB, "BranchBuilder::required_bytes", {
        "subst": {"self.keys.len()": "num_keys"}, "params": [("num_keys", "usize")]}),
    (BTB, "BranchBuilder::should_split", {
        "subst": {"self.keys.len()": "num_keys", "self.page_allocator.get_page_size()": "page_size"},
        "params": [("num_keys", "usize"), ("page_size", "usize")]}),
    ("src/tree_store/btree_mutator.rs", "MutateHelper::finalize_branch_builder", {
        "name": "finalize_branch_builder_below_merge", "ret": "bool",
        "snippet": r"else if (builder\.required_bytes\(\) < page_size / 3) \{",
        "subst": {"builder.required_bytes()": "required"},
        "params": [("required", "usize"), ("page_size", "usize")]}),
    ("src/multimap_table.rs", "MultimapTable::insert", {
        "name": "multimap_insert_stays_inline", "ret": "bool",
        "snippet": r"if (required_inline_bytes < self\.page_allocator\.get_page_size\(\) / 2\s*&& u16::try_from\(new_pairs\)\.is_ok\(\))\s*\{",
        "subst": {"self.page_allocator.get_page_size()": "page_size"},
        "params": [("required_inline_bytes", "usize"), ("new_pairs", "usize"), ("page_size", "usize")]}),
    ("src/multimap_table.rs", "MultimapTable::insert", {
        "name": "multimap_insert_new_key_inline", "ret": "bool",
        "snippet": r"if (required_inline_bytes < self\.page_allocator\.get_page_size\(\) / 2) \{",
        "subst": {"self.page_allocator.get_page_size()": "page_size"},
        "params": [("required_inline_bytes", "usize"), ("page_size", "usize")]}),
    (BUDDY, "calculate_usable_order", {}),
    (BUDDY, "next_higher_order", {}),
    (BUDDY, "buddy_page", {}),
    (BITMAP, "bits_in_range", {}),
    (BITMAP, "U64GroupedBitmap::required_words", {}),
    (BITMAP, "U64GroupedBitmap::data_index_of", {}),
    (BITMAP, "U64GroupedBitmap::select_mask", {}),
    (BITMAP, "BtreeBitmap::height_for_capacity", {"fuel": 32}),
    (PM, "ceil_log2", {}),
    ("src/transactions.rs", "PageList::required_bytes", {}),
    ("src/complex_types.rs", "encode_varint_len", {}),
    # ---------------------------------------------------------------- wave 2: byte codecs, decisions, horizons
    ("src/complex_types.rs", "decode_varint_len", {}),
    (TT, "TransactionId::new", {}),
    (TT, "TransactionId::raw_id", {}),
    (TT, "TransactionId::next", {}),
    (TT, "SavepointId::next", {}),
    (TT, "SavepointId::from_bytes", {"trait": "Value", "ret": "SavepointId"}),
    (TT, "SavepointId::compare", {"trait": "Key"}),
    (BTB, "BtreeHeader::serialized_size", {}),
    (BTB, "BtreeHeader::from_le_bytes", {}),
    (BTB, "BtreeHeader::to_le_bytes", {}),
    # header.rs: field readers, god byte, validation of the geometry, slot selection, stored layout
    (HEADER, "get_u32", {}),
    (HEADER, "get_u64", {}),
    hdr("header_primary_slot", "usize", r"let primary_slot = (usize::from\(data\[GOD_BYTE_OFFSET\] & PRIMARY_BIT != 0\));"),
    hdr("header_recovery_required", "bool", r"let recovery_required = (\(data\[GOD_BYTE_OFFSET\] & RECOVERY_REQUIRED\) != 0);"),
    hdr("header_two_phase_commit", "bool", r"let two_phase_commit = (\(data\[GOD_BYTE_OFFSET\] & TWO_PHASE_COMMIT\) != 0);"),
    hdr("header_page_size", "u32", r"let page_size = (get_u32\(&data\[PAGE_SIZE_OFFSET\.\.\]\));"),
    hdr("header_region_header_pages", "u32", r"let region_header_pages = (get_u32\(&data\[REGION_HEADER_PAGES_OFFSET\.\.\]\));"),
    hdr("header_region_max_data_pages", "u32", r"let region_max_data_pages = (get_u32\(&data\[REGION_MAX_DATA_PAGES_OFFSET\.\.\]\));"),
    hdr("header_full_regions", "u32", r"let full_regions = (get_u32\(&data\[NUM_FULL_REGIONS_OFFSET\.\.\]\));"),
    hdr("header_trailing_data_pages", "u32", r"let trailing_data_pages = (get_u32\(&data\[TRAILING_REGION_DATA_PAGES_OFFSET\.\.\]\));"),
    (HEADER, "UnrepairedDatabaseHeader::from_bytes", {
        "name": "header_geometry_checks", "ret": "Result<()>", "tail": "Ok(())",
        "snippet": r"(?s)(if page_size != expected_page_size \{.*?)if !recovery_required \{",
        "params": [("page_size", "u32"), ("expected_page_size", "u32"), ("region_max_data_pages", "u32"),
                   ("region_header_pages", "u32")]}),
    (HEADER, "UnrepairedDatabaseHeader::from_bytes", {
        "name": "header_stored_counts_checks", "ret": "Result<()>", "tail": "Ok(())",
        "snippet": r"(?s)if !recovery_required \{(.*?)\n        \}\n\s*let \(slot0, slot0_corrupted\)",
        "params": [("trailing_data_pages", "u32"), ("region_max_data_pages", "u32"), ("full_regions", "u32")]}),
    hdr("header_slot0_bytes", "&[u8]", r"(&data\[TRANSACTION_0_OFFSET\.\.\(TRANSACTION_0_OFFSET \+ TRANSACTION_SIZE\)\]),"),
    hdr("header_slot1_bytes", "&[u8]", r"(&data\[TRANSACTION_1_OFFSET\.\.\(TRANSACTION_1_OFFSET \+ TRANSACTION_SIZE\)\]),"),
    slot("slot_version", "u8", r"let version = (data\[VERSION_OFFSET\]);"),
    slot("slot_stored_checksum", "u128", r"(?s)let checksum = (Checksum::from_le_bytes\(.*?\.unwrap\(\),\s*\));"),
    slot("slot_checksummed_bytes", "&[u8]", r"xxh3_checksum\((&data\[\.\.SLOT_CHECKSUM_OFFSET\])\)"),
    slot("slot_user_root", "Option<BtreeHeader>", r"(?s)let user_root = (if data\[USER_ROOT_NON_NULL_OFFSET\] != 0 \{.*?\} else \{\s*None\s*\});"),
    slot("slot_system_root", "Option<BtreeHeader>", r"(?s)let system_root = (if data\[SYSTEM_ROOT_NON_NULL_OFFSET\] != 0 \{.*?\} else \{\s*None\s*\});"),
    slot("slot_transaction_id", "u64", r"TransactionId::new\((get_u64\(&data\[TRANSACTION_ID_OFFSET\.\.\]\))\)"),
    (HEADER, "UnrepairedDatabaseHeader::select_primary_slot", {
        "mut_self": True,
        "resub": [(r"self\.inner\.swap_primary_slot\(\);", ""),
                  (r"(?s)let primary = self\.inner\.primary_slot\(\)\.clone\(\);\s*self\.inner\.transaction_slots\[self\.inner\.primary_slot \^ 1\] = primary;", ""),
                  (r"self\s*\.inner\s*\.secondary_slot\(\)\s*\.transaction_id", "secondary_transaction_id"),
                  (r"self\s*\.inner\s*\.primary_slot\(\)\s*\.transaction_id", "primary_transaction_id")],
        "params": [("primary_transaction_id", "u64"), ("secondary_transaction_id", "u64")]}),
    (HEADER, "DatabaseHeader::layout", {}),
    # btree_base.rs: offset tables of the leaf / branch accessors
    (BTB, "LeafAccessor::num_pairs", {}),
    (BTB, "LeafAccessor::key_section_start", {}),
    (BTB, "LeafAccessor::key_end", {}),
    (BTB, "LeafAccessor::key_start", {}),
    (BTB, "LeafAccessor::value_end", {}),
    (BTB, "LeafAccessor::value_start", {}),
    (BTB, "LeafAccessor::total_length", {}),
    (BTB, "LeafAccessor::entry_ranges", {}),
    (BTB, "BranchAccessor::num_keys", {}),
    (BTB, "BranchAccessor::count_children", {}),
    (BTB, "BranchAccessor::key_section_start", {}),
    (BTB, "BranchAccessor::key_end", BR),
    (BTB, "BranchAccessor::key_offset", BRI),
    (BTB, "BranchAccessor::total_length", BRI),
    (BTB, "BranchAccessor::child_checksum", BR),
    (BTB, "BranchAccessor::child_page", BR),
    # transactions.rs: system table records and keys, free horizons
    ("src/transactions.rs", "PageList::len", {}),
    ("src/transactions.rs", "PageList::get", {}),
    ("src/transactions.rs", "TransactionIdWithPagination::from_bytes", {"trait": "Value"}),
    ("src/transactions.rs", "TransactionIdWithPagination::as_bytes", {
        "trait": "Value", "retype": {"value": "&TransactionIdWithPagination"}}),
    ("src/transactions.rs", "TransactionIdWithPagination::compare", {"trait": "Key"}),
    ("src/transactions.rs", "WriteTransaction::durable_commit", {
        "name": "durable_commit_free_until", "ret": "TransactionId",
        "snippet": r"let free_until_transaction = (self\s*\.transaction_tracker\s*\.oldest_live_read_transaction\(\)\s*\.map_or\(self\.transaction_id, \|x\| x\.next\(\)\));",
        "resub": [(r"self\s*\.transaction_tracker\s*\.oldest_live_read_transaction\(\)", "oldest_live_read"),
                  (r"self\.transaction_id", "transaction_id")],
        "params": [("oldest_live_read", "Option<TransactionId>"), ("transaction_id", "TransactionId")]}),
    ("src/transactions.rs", "WriteTransaction::non_durable_commit", {
        "name": "non_durable_commit_free_until", "ret": "TransactionId",
        "snippet": r"let free_until_transaction = (self\s*\.transaction_tracker\s*\.oldest_live_read_nondurable_transaction\(\)\s*\.map_or\(self\.transaction_id, \|x\| x\.next\(\)\));",
        "resub": [(r"self\s*\.transaction_tracker\s*\.oldest_live_read_nondurable_transaction\(\)", "oldest_live_read_nd"),
                  (r"self\.transaction_id", "transaction_id")],
        "params": [("oldest_live_read_nd", "Option<TransactionId>"), ("transaction_id", "TransactionId")]}),
    ("src/transactions.rs", "WriteTransaction::process_data_freed_pages_after_commit", {
        "name": "epilogue_free_until", "ret": "TransactionId", "tail": "free_until",
        "snippet": r"(?s)(let epilogue_transaction = self\.transaction_id\.next\(\);.*?free_until = free_until\.min\(TransactionId::new\(savepoint_horizon\)\.next\(\)\);\s*\})",
        "resub": [(r"self\s*\.transaction_tracker\s*\.oldest_live_read_transaction\(\)", "oldest_live_read"),
                  (r"self\.transaction_id", "transaction_id")],
        "params": [("oldest_live_read", "Option<TransactionId>"), ("transaction_id", "TransactionId"),
                   ("savepoint_horizon", "u64")]}),
    # savepoint.rs: the persistent savepoint record
    ("src/tree_store/page_store/savepoint.rs", "SerializedSavepoint::to_savepoint", {
        "ret": "Result<((u8, u64), (u64, Option<BtreeHeader>))>",
        "resub": [(r"self\.data\(\)", "data"),
                  (r"(?s)Ok\(Savepoint \{.*?\}\)", "Ok(((version, id), (transaction_id, user_root)))")],
        "drop_params": ["transaction_tracker"], "params": [("data", "&[u8]")]}),
    # multimap_btree.rs: the value collection header
    ("src/tree_store/multimap_btree.rs", "DynamicCollectionType::from", {"trait": "From<u8>"}),
    ("src/tree_store/multimap_btree.rs", "DynamicCollectionType::into", {"trait": "Into<u8>"}),
    ("src/tree_store/multimap_btree.rs", "UntypedDynamicCollection::collection_type", {}),
    ("src/tree_store/multimap_btree.rs", "UntypedDynamicCollection::as_inline", {}),
    ("src/tree_store/multimap_btree.rs", "UntypedDynamicCollection::as_subtree", {}),
    # types.rs: classification byte, little-endian integer keys (instances of the le_value! / le_impl! macros)
    ("src/types.rs", "TypeClassification::to_byte", {}),
    ("src/types.rs", "TypeClassification::from_byte", {}),
    ("src/types.rs", "le_u64::from_bytes", {"macro": ("le_value", {"<$t>": "u64", "$t": "u64"})}),
    ("src/types.rs", "le_u64::compare", {"macro": ("le_impl", {})}),
    ("src/types.rs", "le_u32::from_bytes", {"macro": ("le_value", {"<$t>": "u32", "$t": "u32"})}),
    ("src/types.rs", "le_u32::compare", {"macro": ("le_impl", {})}),
    ("src/types.rs", "le_u128::from_bytes", {"macro": ("le_value", {"<$t>": "u128", "$t": "u128"})}),
    ("src/types.rs", "le_u128::compare", {"macro": ("le_impl", {})}),
    # base.rs: the order of page numbers
    (BASE, "PageNumber::cmp", {"trait": "Ord"}),
    # page_manager.rs: commit / shrink decisions, page order check
    (PM, "TransactionalMemory::check_page_order", {}),
    (PM, "TransactionalMemory::commit", {
        "name": "commit_shrink_attempted", "ret": "bool",
        "snippet": r"let shrunk = if (!matches!\(shrink_policy, ShrinkPolicy::Never\)) \{",
        "params": [("shrink_policy", "ShrinkPolicy")]}),
    (PM, "TransactionalMemory::commit", {
        "name": "commit_shrink_force", "ret": "bool",
        "snippet": r"Self::try_shrink\(&mut state, (matches!\(shrink_policy, ShrinkPolicy::Maximum\))\)\?",
        "params": [("shrink_policy", "ShrinkPolicy")]}),
    (PM, "TransactionalMemory::try_shrink", {
        "name": "try_shrink_reduce_by", "ret": "Option<u32>", "tail": "Some(reduce_by)",
        "snippet": r"(?s)(if trailing_free == 0 \{.*?trailing_free / 2\s*\};)",
        "resub": [(r"return Ok\(false\);", "return None;"), (r"layout\.num_regions\(\)", "num_regions")],
        "params": [("trailing_free", "u32"), ("last_allocator_len", "u32"), ("num_regions", "u32"), ("force", "bool")]}),
    # region.rs: the length table of the serialized region tracker (a `for` loop)
    ("src/tree_store/page_store/region.rs", "RegionTracker::from_bytes", {
        "name": "region_tracker_allocator_lens", "ret": "(Vec<usize>, usize)", "tail": "(allocator_lens, start)",
        "snippet": r"(?s)(let orders = u32::from_le_bytes.*?start \+= size_of::<u32>\(\);\s*\})\s*let mut data",
        "params": [("page", "&[u8]")]}),
    # cached_file.rs: lock striping and the cache budget tests
    (CF, "PagedCachedFile::lock_stripes", {}),
    (CF, "PagedCachedFile::write_buffer_stripe", {
        "name": "cache_stripe_of", "ret": "usize", "keep_impl": True,
        "snippet": r"let stripe: usize = (\(offset % Self::lock_stripes\(\)\)\.try_into\(\)\.unwrap\(\));",
        "params": [("offset", "u64")]}),
    (CF, "PagedCachedFile::write", {
        "name": "cache_write_over_half", "ret": "bool",
        "snippet": r"(?s)(let mut write_bytes = previous \+ len;\s*let half = self\.max_cache_size / 2;).*?if (write_bytes > half) \{\s*let mut excess",
        "resub": [(r"self\.max_cache_size", "max_cache_size")],
        "params": [("previous", "usize"), ("len", "usize"), ("max_cache_size", "usize")]}),
]

# prefixes gen_consts.py gives to the constants of a file (kept in sync by importing its table)
import gen_consts  # noqa: E402
CONST_PREFIX = {rel: pre for rel, (pre, _) in gen_consts.WANT.items()}

# newtype structs `struct T(u64)` and type aliases: the wrapped integer
NEWTYPES = {"TransactionId": "u64", "SavepointId": "u64"}
ALIASES = {"Checksum": "u128"}
# Rust enums with unit variants only.  `Ordering` is Coq's `comparison`; the others (ENUMS below) get a generated
# Inductive `<E> := <E>_<Variant> | ...`
ENUM_COQ = {"Ordering": "comparison"}
BUILTIN_ENUMS = {"Ordering": [("Less", "Lt"), ("Equal", "Eq"), ("Greater", "Gt")]}

INTW = {"u8": 8, "u16": 16, "u32": 32, "u64": 64, "u128": 128, "usize": 64}
SIZEOF = {"u8": 1, "u16": 2, "u32": 4, "u64": 8, "u128": 16, "usize": 8, "Checksum": 16}
COQ_KEYWORDS = {"end", "at", "in", "as", "fix", "fun", "match", "return", "then", "else", "type", "with", "mod",
                "cofix", "forall", "exists", "if", "let", "using", "where", "Type", "Set", "Prop", "by", "for",
                "IF", "is", "of", "struct", "wf"}


class Err(Exception):
    pass


def cname(n):
    return n + "_" if n in COQ_KEYWORDS else n


def two(w):
    return str(2 ** w)


def coq_ty(t):
    if isinstance(t, tuple):
        if t[0] == "int":
            return "N"
        if t[0] == "opt":
            return "(option %s)" % coq_ty(t[1])
        if t[0] == "pair":
            return "(%s * %s)" % (coq_ty(t[1]), coq_ty(t[2]))
        if t[0] == "rec":
            return t[1]
        if t[0] == "enum":
            return ENUM_COQ.get(t[1], t[1])
        if t[0] == "vec":
            return "(list %s)" % coq_ty(t[1])
    return {"bool": "bool", "unit": "unit", "bytes": "(list N)", "slice": "(list N)"}[t]


def is_int(t):
    return isinstance(t, tuple) and t[0] == "int"


class Var:
    def __init__(self, coq, ty, depth):
        self.coq, self.ty, self.depth = coq, ty, depth


class Fn:
    """one located + parsed function"""
    selfchains = ()
    selfty = None
    implicit = frozenset()


class Gen:
    def __init__(self, repo):
        self.repo = repo
        self.files = {}
        self.records = {}       # name -> [(field, type)]
        self.enums = dict(BUILTIN_ENUMS)   # name -> [(variant, coq constructor)]
        self.fns = {}           # qualified rust name -> Fn (translated so far)
        self.index = []         # "coq name  file:line0-line1  sha1" (written to Fns.index, not into Fns.v)
        self.consts = None

    # ---------------------------------------------------------------- sources
    def src(self, rel):
        if rel not in self.files:
            try:
                text = open(os.path.join(self.repo, rel)).read()
            except OSError as ex:
                raise Err("%s: %s" % (rel, ex))
            self.files[rel] = (text, mask_comments_strings(text))
        return self.files[rel]

    def const(self, rel, name):
        if self.consts is None:
            self.consts = set(re.findall(r"^Definition (\w+) : N :=", open(CONSTS_V).read(), flags=re.M))
        for cand in (CONST_PREFIX.get(rel, "") + name, name):
            if cand in self.consts:
                return cand
        return None

    def struct_fields(self, rel, name):
        """[(field, rust type AST)] of `struct name` in file rel"""
        text, masked = self.src(rel)
        m = re.search(r"\bstruct\s+%s\b[^{;(]*\{" % re.escape(name), masked)
        if not m:
            raise Err("%s: struct %s not found" % (rel, name))
        end = match_brace(masked, m.end() - 1)
        p = Parser(lex(masked[m.end():end]))
        out = []
        while p.peek()[0] != "eof":
            while p.isp("#"):
                raise Err("%s: attribute inside struct %s" % (rel, name))
            if p.isid("pub"):
                p.i += 1
                if p.isp("("):
                    while not p.eat(")"):
                        p.i += 1
            fname = p.ident()
            p.need(":")
            fstart = p.i
            try:
                out.append((fname, p.ty()))
            except Unsupported:
                # a field type outside the subset (e.g. dyn Trait): skip to the next top-level comma
                p.i = fstart
                depth = 0
                while p.peek()[0] != "eof" and not (depth == 0 and p.isp(",")):
                    if p.peek() in (("p", "<"), ("p", "("), ("p", "[")):
                        depth += 1
                    elif p.peek() in (("p", ">"), ("p", ")"), ("p", "]")):
                        depth -= 1
                    p.i += 1
                out.append((fname, None))
            if not p.eat(","):
                break
        return out

    def locate(self, rel, qual, opts):
        """find the fn item; returns Fn with text, line range, sha1, parsed signature and body"""
        text, masked = self.src(rel)
        f = Fn()
        f.rel, f.qual, f.opts = rel, qual, opts
        f.within = None
        f.impl = qual.split("::")[0] if "::" in qual else None
        name = qual.split("::")[-1]
        spans = []
        macro_subst = {}
        if "macro" in opts:
            # the fn is inside `macro_rules! <m> { .. }`; `$x` parameters are replaced textually (an instantiation)
            mname, macro_subst = opts["macro"]
            m = re.search(r"^macro_rules!\s+%s\s*\{" % re.escape(mname), masked, flags=re.M)
            if not m:
                raise Err("%s: macro_rules! %s not found" % (rel, mname))
            spans.append((m.end() - 1, match_brace(masked, m.end() - 1)))
            rx = re.compile(r"^[ \t]+(?:pub(?:\([a-z]+\))?\s+)?(?:const\s+)?fn\s+%s\b" % re.escape(name), re.M)
        elif f.impl:
            trait = opts.get("trait")
            for m in re.finditer(r"^impl\b[^{;]*?\b%s\b[^{;]*\{" % re.escape(f.impl), masked, flags=re.M):
                is_trait = re.search(r"\bfor\s+&?\s*%s\b" % re.escape(f.impl), m.group(0))
                if trait is None and is_trait:
                    continue             # trait impls are searched only when the trait is named (`trait` option)
                if trait is not None and not (is_trait and re.search(
                        r"^impl\b(?:\s*<[^{;]*?>)?\s*%s\s+for\b" % re.escape(trait), m.group(0))):
                    continue
                spans.append((m.end() - 1, match_brace(masked, m.end() - 1)))
            if not spans:
                raise Err("%s: no %s block of %s" % (rel, "`impl %s for`" % trait if trait else "inherent impl", f.impl))
            rx = re.compile(r"^[ \t]+(?:pub(?:\([a-z]+\))?\s+)?(?:const\s+)?fn\s+%s\b" % re.escape(name), re.M)
        else:
            spans.append((0, len(masked)))
            rx = re.compile(r"^(?:pub(?:\([a-z]+\))?\s+)?(?:const\s+)?fn\s+%s\b" % re.escape(name), re.M)
        hits = []
        for a, b in spans:
            for m in rx.finditer(masked, a, b):
                hits.append(m)
        if len(hits) != 1:
            raise Err("%s: %d definitions of fn %s found (want exactly 1)" % (rel, len(hits), qual))
        start = hits[0].start()
        attr = masked.rfind("\n", 0, max(0, start - 1))
        prev_line = masked[attr + 1:start].strip() if attr >= 0 else ""
        if prev_line.startswith("#[cfg") and prev_line not in opts.get("allow_cfg", ()):
            raise Err("%s: fn %s is under %s" % (rel, qual, prev_line))
        ob, depth = -1, 0
        for k in range(start, len(masked)):
            c = masked[k]
            if c in "([":
                depth += 1
            elif c in ")]":
                depth -= 1
            elif c == "{" and depth == 0:
                ob = k
                break
            elif c == ";" and depth == 0:
                break
        if ob < 0:
            raise Err("%s: fn %s has no body" % (rel, qual))
        cb = match_brace(masked, ob)
        f.line0 = text.count("\n", 0, start) + 1
        f.line1 = text.count("\n", 0, cb) + 1
        f.text = text[start:cb + 1]
        f.sha1 = hashlib.sha1(f.text.encode()).hexdigest()
        code = masked[start:cb + 1]
        for a, b in macro_subst.items():
            if a not in code:
                raise Err("%s: fn %s: macro parameter %s not used" % (rel, qual, a))
            code = code.replace(a, b)
        if "snippet" in opts:
            # an expression inside the body of the named function, with declared free variables
            m = re.search(opts["snippet"], code)
            if not m or len(re.findall(opts["snippet"], code)) != 1:
                raise Err("%s: fn %s: snippet pattern %r not found exactly once" % (rel, qual, opts["snippet"]))
            ng = len(m.groups())
            f.line0 = text.count("\n", 0, start + m.start(1)) + 1
            f.line1 = text.count("\n", 0, start + m.end(ng)) + 1
            # several groups: the pieces of the function that make up the snippet, in order
            f.text = " ".join(text[start + m.start(g):start + m.end(g)] for g in range(1, ng + 1))
            f.sha1 = hashlib.sha1(f.text.encode()).hexdigest()
            # `tail`: the value of a snippet that consists of statements (it follows them)
            code = "fn %s() -> %s { %s %s }" % (opts["name"], opts["ret"], " ".join(m.groups()), opts.get("tail", ""))
            f.within = qual
            f.qual = opts["name"]
            if not opts.get("keep_impl"):
                f.impl = None
        for a, b in opts.get("subst", {}).items():
            if a not in code:
                raise Err("%s: fn %s: text %r to substitute not found" % (rel, qual, a))
            code = code.replace(a, b)
        for a, b in opts.get("resub", ()):          # the same with a regular expression (text spanning lines)
            code, nsub = re.subn(a, b, code)
            if nsub == 0:
                raise Err("%s: fn %s: pattern %r to substitute not found" % (rel, qual, a))
        if "name" in opts and "snippet" not in opts:
            f.qual = opts["name"]                   # the same Rust fn translated twice under different substitutions
        try:
            p = Parser(lex(code), structs=self.records.keys())
            f.name, f.selfkind, f.params, f.ret = p.signature()
            if "ret" in opts and "snippet" not in opts:
                f.ret = Parser(lex(opts["ret"])).ty()
            for i, x in enumerate(f.params):
                if x[0] in opts.get("retype", {}):
                    f.params[i] = (x[0], Parser(lex(opts["retype"][x[0]])).ty(), x[2])
            f.body = p.block()
            f.params = [x for x in f.params if x[0] not in opts.get("drop_params", ())]
            for pn, pt in opts.get("params", ()):
                f.params.append((pn, Parser(lex(pt)).ty(), False))
        except Unsupported as ex:
            raise Err("%s:%d: fn %s: outside the translated subset: %s" % (rel, f.line0, qual, ex))
        return f

    # ---------------------------------------------------------------- types
    def ty(self, t, impl=None, where=""):
        k = t[0]
        if k == "ref":
            if t[1] and t[2] == ("path", "Vec", [("path", "u8", [])]):
                return "bytes"
            return self.ty(t[2], impl, where)
        if k == "array" and t[1] == ("path", "u8", []) and (t[2] is None or t[2] > 16):
            return "slice"               # [u8] / [u8; <expression>]: a byte list
        if k == "tuple":
            if len(t[1]) == 0:
                return "unit"
            if len(t[1]) == 2:
                return ("pair", self.ty(t[1][0], impl, where), self.ty(t[1][1], impl, where))
        if k == "array" and t[1] == ("path", "u8", []) and t[2]:
            return ("int", 8 * t[2])      # [u8; n] stands for the little-endian number it holds
        if k == "path":
            n, args = t[1], t[2]
            if n in INTW and not args:
                return ("int", INTW[n])
            if n in NEWTYPES and not args:
                return ("int", INTW[NEWTYPES[n]], n)      # the third component names the newtype (method lookup)
            if n in ALIASES and not args:
                return ("int", INTW[ALIASES[n]])
            if n == "Self" and impl in NEWTYPES:
                return ("int", INTW[NEWTYPES[impl]], impl)
            if n in self.enums and not args:
                return ("enum", n)
            if n == "Self" and impl in self.enums:
                return ("enum", impl)
            if n == "Vec" and len(args) == 1 and args[0][0] == "path" and args[0][1] in INTW and args[0][1] != "u8":
                return ("vec", self.ty(args[0], impl, where))
            if n == "bool":
                return "bool"
            if n == "Option" and len(args) == 1:
                return ("opt", self.ty(args[0], impl, where))
            if n == "Result" and len(args) in (1, 2):
                return ("opt", self.ty(args[0], impl, where))      # Err payload dropped: Result<T> ~ option T
            if n == "Range" and len(args) == 1:
                a = self.ty(args[0], impl, where)
                return ("pair", a, a)
            if n == "Self" and impl in self.records:
                return ("rec", impl)
            if n in self.records and not args:
                return ("rec", n)
        raise Err("%s: type outside the translated subset: %r" % (where, t))

    def dom(self, term, t):
        """bool term: `term` (of translated type t) is inside the range of its Rust type; None if trivially true"""
        if is_int(t):
            return "(%s <? %s)" % (term, two(t[1]))
        if isinstance(t, tuple) and t[0] == "opt":
            inner = self.dom("x_", t[1])
            return None if inner is None else "match %s with Some x_ => %s | None => true end" % (term, inner)
        if isinstance(t, tuple) and t[0] == "rec":
            return "(%s_dom %s)" % (t[1], term)
        if t == "slice":
            return "(all_bytes %s)" % term
        if isinstance(t, tuple) and t[0] == "vec":
            return "(forallb (fun x_ => %s) %s)" % (self.dom("x_", t[1]), term)
        if isinstance(t, tuple) and t[0] == "pair":
            a, b = self.dom("(fst %s)" % term, t[1]), self.dom("(snd %s)" % term, t[2])
            parts = [x for x in (a, b) if x]
            return conj(parts) if parts else None
        return None

    def default(self, t):
        if is_int(t):
            return "0"
        if t == "bool":
            return "false"
        if t == "unit":
            return "tt"
        if t in ("bytes", "slice"):
            return "nil"
        if t[0] == "vec":
            return "nil"
        if t[0] == "enum":
            return self.enums[t[1]][0][1]
        if t[0] == "opt":
            return "None"
        if t[0] == "pair":
            return "(%s, %s)" % (self.default(t[1]), self.default(t[2]))
        if t[0] == "rec":
            return "%s_default" % t[1]
        raise Err("no default for %r" % (t,))


def conj(parts):
    parts = [p for p in parts if p and p != "true"]
    if not parts:
        return "true"
    out = parts[0]
    for p in parts[1:]:
        out = "(andb %s %s)" % (out, p)
    return out


def assigned(node, acc):
    """names assigned (deep) inside an AST node"""
    if isinstance(node, tuple):
        if node and node[0] == "assign" and node[2][0] == "path" and len(node[2][1]) == 1:
            acc.add(node[2][1][0])
        if node and node[0] == "assign" and node[2][0] == "index" and node[2][1][0] == "path" and len(node[2][1][1]) == 1:
            acc.add(node[2][1][1][0])
        if node and node[0] == "mcall" and node[2] in ("push", "extend_from_slice") and node[1][0] == "path":
            acc.add(node[1][1][0])
        if node and node[0] == "mcall" and node[2] == "copy_from_slice" and node[1][0] == "index" \
                and node[1][1][0] == "path" and len(node[1][1][1]) == 1:
            acc.add(node[1][1][1][0])
        for x in node:
            assigned(x, acc)
    elif isinstance(node, list):
        for x in node:
            assigned(x, acc)
    return acc


def contains(node, kind):
    if isinstance(node, tuple):
        if node and node[0] == kind:
            return True
        return any(contains(x, kind) for x in node)
    if isinstance(node, list):
        return any(contains(x, kind) for x in node)
    return False


BLOCKLIKE = ("if", "iflet", "match", "block")


class Tr:
    """translation of one function in one mode ('val' or 'guard')"""

    def __init__(self, gen, f, mode):
        self.ntry = 0
        self.vec_elem = {}
        self.g, self.f, self.mode = gen, f, mode
        self.notes = f.notes
        self.nguards = 0
        self.fresh = {}
        self.depth = 0

    def err(self, msg):
        raise Err("%s:%d: fn %s: outside the translated subset: %s" % (self.f.rel, self.f.line0, self.f.qual, msg))

    def note(self, s):
        if s not in self.notes:
            self.notes.append(s)

    # ------------------------------------------------------------ helpers
    def declare(self, env, name, ty):
        coq = cname(name)
        old = env.get(name)
        if old is not None and old.depth < self.depth:
            k = self.fresh.get(name, 0) + 1     # shadowing an outer variable from inside a block: rename
            self.fresh[name] = k
            coq = "%s_%d" % (name, k)
        env[name] = Var(coq, ty, self.depth)
        return coq

    def emit_guards(self, guards, body):
        if self.mode != "guard":
            return body
        for g in reversed([x for x in guards if x != "true"]):
            self.nguards += 1
            body = "let g_ := (andb g_ %s) in\n%s" % (g, body)
        return body

    def bindpat(self, pat, ty, env):
        """declare the variables of a let pattern; returns coq pattern text"""
        if pat[0] == "pvar":
            return self.declare(env, pat[1], ty)
        if pat[0] == "pwild":
            return "_"
        if pat[0] == "ptuple" and len(pat[1]) == 2 and isinstance(ty, tuple) and ty[0] == "pair":
            a = self.bindpat(pat[1][0], ty[1], env)
            b = self.bindpat(pat[1][1], ty[2], env)
            return "'(%s, %s)" % (a, b)
        self.err("let pattern %r for type %r" % (pat, ty))

    # ------------------------------------------------------------ expressions
    def unify(self, a, b, what):
        if is_int(a) and is_int(b):
            if a[1] is None:
                return b
            if b[1] is None or a[1] == b[1]:
                return a
            self.err("integer widths differ (%s vs %s) in %s" % (a[1], b[1], what))
        if a == b:
            return a
        if isinstance(a, tuple) and isinstance(b, tuple) and a[0] == b[0] == "pair":
            return ("pair", self.unify(a[1], b[1], what), self.unify(a[2], b[2], what))
        if isinstance(a, tuple) and isinstance(b, tuple) and a[0] == b[0] == "vec":
            if a[1] is None:
                return b
            if b[1] is None:
                return a
            return ("vec", self.unify(a[1], b[1], what))
        if isinstance(a, tuple) and isinstance(b, tuple) and a[0] == b[0] == "opt":
            if a[1] is None:
                return b
            if b[1] is None:
                return a
            return ("opt", self.unify(a[1], b[1], what))
        if a is None:
            return b
        if b is None:
            return a
        self.err("types differ (%r vs %r) in %s" % (a, b, what))

    def checked_conv(self, inner, env, target):
        """x.try_into().unwrap() / T::try_from(x).unwrap(): identity; range recorded in the guard"""
        t, ty, gs = self.expr(inner, env)
        if ty in ("slice", "bytes"):
            # <slice>.try_into().unwrap() : [u8; n] -- the little-endian number the n bytes hold
            if target is not None and is_int(target) and target[1] is not None:
                self.note("a byte slice converted to [u8; n] is the number `le_decode` of it; its length = n joins the guard")
                return "(le_decode %s)" % t, target, gs + ["(slen %s =? %d)" % (t, target[1] // 8)]
            if target == "slice":
                self.note("a byte slice converted to an array of non-literal length stays a byte list (no length conjunct)")
                return t, "slice", gs
            self.err("byte slice converted to an array of unknown length")
        if not is_int(ty):
            self.err("checked conversion of non-integer %r" % (inner,))
        if target is not None and is_int(target) and target[1] is not None:
            if ty[1] is None or ty[1] > target[1]:
                gs = gs + ["(%s <? %s)" % (t, two(target[1]))]
            return t, target, gs
        self.note("checked conversion `%s` with target type not inferred: identity, no guard conjunct" % t)
        return t, ("int", None), gs

    def expr(self, e, env, expect=None):
        """-> (coq term, type, guard conjuncts)"""
        k = e[0]
        if k == "lit":
            w = INTW.get(e[2]) if e[2] else (expect[1] if is_int(expect) else None)
            return str(e[1]), ("int", w), []
        if k == "bool":
            return ("true" if e[1] else "false"), "bool", []
        if k == "unit":
            return "tt", "unit", []
        if k == "paren":
            return self.expr(e[1], env, expect)
        if k == "borrow":
            return self.expr(e[1], env, expect)
        if k == "opaque":
            return "<opaque>", "opaque", []
        if k == "not":
            t, ty, gs = self.expr(e[1], env)
            if ty != "bool":
                self.err("`!` on a non-bool")
            return "(negb %s)" % t, "bool", gs
        if k == "neg":
            self.err("unary minus (signed arithmetic)")
        if k == "cast":
            t, ty, gs = self.expr(e[1], env)
            dst = self.g.ty(e[2], self.f.impl, self.f.qual)
            if not (is_int(ty) and is_int(dst)):
                self.err("cast between non-integers")
            if ty[1] is not None and ty[1] <= dst[1]:
                return t, dst, gs          # widening: exact
            self.note("narrowing cast `as u%d` translated as `mod 2^%d`" % (dst[1], dst[1]))
            return "(%s mod %s)" % (t, two(dst[1])), dst, gs
        if k == "tuple":
            if len(e[1]) != 2:
                self.err("tuple of %d components" % len(e[1]))
            ex = expect if isinstance(expect, tuple) and expect[0] == "pair" else (None, None, None)
            a, ta, ga = self.expr(e[1][0], env, ex[1])
            b, tb, gb = self.expr(e[1][1], env, ex[2])
            return "(%s, %s)" % (a, b), ("pair", ta, tb), ga + gb
        if k == "range":
            a, ta, ga = self.expr(e[1], env)
            b, tb, gb = self.expr(e[2], env)
            self.note("a Range a..b is the pair (a, b)")
            return "(%s, %s)" % (a, b), ("pair", ta, self.unify(ta, tb, "range")), ga + gb
        if k == "path":
            return self.path(e, env, expect)
        if k == "bin":
            return self.binop(e, env, expect)
        if k == "field":
            return self.field(e, env)
        if k == "tfield":
            t, ty, gs = self.expr(e[1], env)
            if is_int(ty) and e[2] == 0:
                return t, ty, gs          # `.0` of a newtype struct (TransactionId, SavepointId): the integer itself
            if not (isinstance(ty, tuple) and ty[0] == "pair") or e[2] not in (0, 1):
                self.err("tuple field .%s" % e[2])
            return "(%s %s)" % ("fst" if e[2] == 0 else "snd", t), ty[1 + e[2]], gs
        if k == "struct":
            return self.struct(e, env)
        if k == "call":
            return self.call(e, env, expect)
        if k == "mcall":
            return self.mcall(e, env, expect)
        if k in BLOCKLIKE:
            return self.nested_blocklike(e, env, expect)
        if k == "index":
            return self.index(e, env)
        if k == "arrayrep":
            v, vty, gv = self.expr(e[1], env, ("int", 8))
            n, nty, gn = self.expr(e[2], env, ("int", 64))
            if not (is_int(vty) and is_int(nty)) or vty[1] not in (None, 8):
                self.err("array repeat expression that is not [u8; n]")
            return "(rep %s %s)" % (v, n), "slice", gv + gn
        if k == "matches":
            t, ty, gs = self.expr(e[1], env)
            if not (isinstance(ty, tuple) and ty[0] == "enum"):
                self.err("matches! on a value of type %r" % (ty,))
            ctors = self.enum_pats(e[2], ty[1])
            if ctors is None:
                self.err("matches! pattern %r" % (e[2],))
            return "(match %s with %s => true%s end)" % (
                t, " | ".join(ctors), "" if len(ctors) == len(self.g.enums[ty[1]]) else " | _ => false"), "bool", gs
        if k == "unreachable":
            # unreachable!(): never evaluated by correct code -> `false` joins the guard, the value is a default
            if expect is None:
                self.err("unreachable!() where the expected type is not known")
            self.note("unreachable!(): `false` joins the guard on that path; the value there is a default")
            return self.g.default(expect), expect, ["false"]
        if k == "try":
            self.err("`?` in a position it cannot be hoisted from (inside `&&`/`||`, a closure or a nested block expression)")
        if k == "closure":
            self.err("closure outside Option::map / map_or / is_some_and")
        self.err("expression %r" % (e,))

    # ------------------------------------------------------------ enums
    def enum_ctor(self, enum, variant):
        for v, c in self.g.enums[enum]:
            if v == variant:
                return c
        self.err("enum %s has no variant %s" % (enum, variant))

    def variant_of(self, name):
        """the enums having a variant with this bare name (variants imported with `use E::*`)"""
        return [en for en, vs in self.g.enums.items() if any(v == name for v, _ in vs)]

    def enum_pats(self, pat, enum):
        """constructors matched by a pattern on a value of enum type, None if it is not a variant pattern"""
        if pat[0] == "por":
            out = []
            for q in pat[1]:
                r = self.enum_pats(q, enum)
                if r is None:
                    return None
                out += r
            return out
        if pat[0] == "ppath" and len(pat[1]) >= 2 and pat[1][-2] in (enum, "Self"):
            return [self.enum_ctor(enum, pat[1][-1])]
        if pat[0] == "pvar" and any(v == pat[1] for v, _ in self.g.enums[enum]):
            return [self.enum_ctor(enum, pat[1])]
        return None

    # ------------------------------------------------------------ byte slices
    def slice_bounds(self, t, rng, env):
        """(lo term, hi term, guards) of x[lo..hi] on the slice term t"""
        gs = []
        lo, hi = "0", "(slen %s)" % t
        if rng[1] is not None:
            lo, lty, g = self.expr(rng[1], env, ("int", 64))
            if not is_int(lty):
                self.err("slice bound is not an integer")
            gs += g
        if rng[2] is not None:
            hi, hty, g = self.expr(rng[2], env, ("int", 64))
            if not is_int(hty):
                self.err("slice bound is not an integer")
            gs += g
            if rng[3]:
                hi = "(%s + 1)" % hi
        return lo, hi, gs

    def index(self, e, env):
        t, ty, gs = self.expr(e[1], env)
        idx = e[2]
        if ty not in ("slice", "bytes"):
            if isinstance(ty, tuple) and ty[0] == "vec" and idx[0] != "irange":
                i, ity, gi = self.expr(idx, env, ("int", 64))
                return "(nth (N.to_nat %s) %s %s)" % (i, t, self.g.default(ty[1])), ty[1], \
                    gs + gi + ["(%s <? N.of_nat (length %s))" % (i, t)]
            self.err("indexing a value of type %r" % (ty,))
        if idx[0] == "irange":
            lo, hi, g = self.slice_bounds(t, idx, env)
            gs = gs + g
            if idx[1] is None and idx[2] is None:
                return t, "slice", gs
            if idx[2] is None:
                return "(slice_from %s %s)" % (t, lo), "slice", gs + ["(%s <=? slen %s)" % (lo, t)]
            if idx[1] is None:
                return "(slice_to %s %s)" % (t, hi), "slice", gs + ["(%s <=? slen %s)" % (hi, t)]
            return "(slice %s %s %s)" % (t, lo, hi), "slice", gs + ["(andb (%s <=? %s) (%s <=? slen %s))" % (lo, hi, hi, t)]
        i, ity, gi = self.expr(idx, env, ("int", 64))
        if not is_int(ity):
            self.err("index is not an integer")
        return "(byte_at %s %s)" % (t, i), ("int", 8), gs + gi + ["(%s <? slen %s)" % (i, t)]

    def path(self, e, env, expect):
        segs = e[1]
        if len(segs) == 1:
            n = segs[0]
            if n == "self":
                if self.f.selfrec:
                    return "self", ("rec", self.f.selfrec), []
                if self.f.selfty is not None:
                    return "self", self.f.selfty, []
                self.err("`self` used as a value")
            if n in env:
                return env[n].coq, env[n].ty, []
            if n == "None":
                inner = expect[1] if isinstance(expect, tuple) and expect[0] == "opt" else None
                return "None", ("opt", inner), []
            c = self.g.const(self.f.rel, n)
            if c:
                w = self.const_width(n)
                return c, ("int", w), []
            ens = self.variant_of(n)
            if len(ens) == 1:
                return self.enum_ctor(ens[0], n), ("enum", ens[0]), []
            self.err("unknown name `%s`" % n)
        if len(segs) == 2 and segs[0] in INTW and segs[1] == "MAX":
            return str(2 ** INTW[segs[0]] - 1), ("int", INTW[segs[0]]), []
        if len(segs) >= 2:
            en = self.f.impl if segs[-2] == "Self" else segs[-2]
            if en in self.g.enums:
                return self.enum_ctor(en, segs[-1]), ("enum", en), []
        self.err("path `%s`" % "::".join(segs))

    def const_width(self, name):
        for rel in {self.f.rel, BASE, PM, HEADER}:
            _, masked = self.g.src(rel)
            m = re.search(r"\bconst\s+%s\s*:\s*(\w+)\s*=" % re.escape(name), masked)
            if m and m.group(1) in INTW:
                return INTW[m.group(1)]
        return None

    def binop(self, e, env, expect):
        op = e[1]
        if op in ("&&", "||"):
            a, ta, ga = self.expr(e[2], env)
            b, tb, gb = self.expr(e[3], env)
            if ta != "bool" or tb != "bool":
                self.err("`%s` on non-bools" % op)
            if gb:    # right operand is only evaluated when the left one allows it
                c = a if op == "&&" else "(negb %s)" % a
                gb = ["(if %s then %s else true)" % (c, conj(gb))]
            return "(%s %s %s)" % ("andb" if op == "&&" else "orb", a, b), "bool", ga + gb
        cmpops = {"<": "<?", "<=": "<=?", "==": "=?"}
        if op in ("<", "<=", ">", ">=", "==", "!="):
            a, ta, ga = self.expr(e[2], env)
            b, tb, gb = self.expr(e[3], env, ta if is_int(ta) else None)
            if is_int(ta) and ta[1] is None and is_int(tb):
                a, ta, ga = self.expr(e[2], env, tb)
            if not (is_int(ta) and is_int(tb)):
                if ta == tb == "bool" and op in ("==", "!="):
                    r = "(Bool.eqb %s %s)" % (a, b)
                    return (r if op == "==" else "(negb %s)" % r), "bool", ga + gb
                self.err("comparison `%s` of non-integers (%r, %r)" % (op, ta, tb))
            self.unify(ta, tb, "comparison")
            if op in (">", ">="):
                a, b = b, a
                op = {">": "<", ">=": "<="}[op]
            if op == "!=":
                return "(negb (%s =? %s))" % (a, b), "bool", ga + gb
            return "(%s %s %s)" % (a, cmpops[op], b), "bool", ga + gb
        a, ta, ga = self.expr(e[2], env, expect if is_int(expect) else None)
        if op in ("<<", ">>"):
            b, tb, gb = self.expr(e[3], env)
            if not (is_int(ta) and is_int(tb)):
                self.err("shift of non-integers")
            if op == ">>":
                return "(N.shiftr %s %s)" % (a, b), ta, ga + gb
            if ta[1] is None:
                self.err("`<<` on an integer literal of unknown width: %r" % (e,))
            self.note("`<<` on u%d translated as shiftl then `mod 2^%d` (bits shifted out are dropped)" % (ta[1], ta[1]))
            return "((N.shiftl %s %s) mod %s)" % (a, b, two(ta[1])), ta, ga + gb
        b, tb, gb = self.expr(e[3], env, ta if is_int(ta) else (expect if is_int(expect) else None))
        if is_int(ta) and ta[1] is None and is_int(tb) and tb[1] is not None:
            a, ta, ga = self.expr(e[2], env, tb)
        if not (is_int(ta) and is_int(tb)):
            self.err("arithmetic `%s` on non-integers (%r, %r)" % (op, ta, tb))
        ty = self.unify(ta, tb, "`%s`" % op)
        if op in ("+", "-", "*", "/", "%"):
            if op == "-":
                self.note("`-` is N.sub (truncated at 0): the code relies on no underflow")
            sym = {"%": "mod"}.get(op, op)
            return "(%s %s %s)" % (a, sym, b), ty, ga + gb
        fn = {"&": "N.land", "|": "N.lor", "^": "N.lxor"}[op]
        return "(%s %s %s)" % (fn, a, b), ty, ga + gb

    def field(self, e, env):
        # self.a.b... on an impl type that is not a record: an extra leading parameter self_a_b
        chain = []
        x = e
        while x[0] == "field":
            chain.append(x[2])
            x = x[1]
        if x == ("path", ["self"], None) and not self.f.selfrec:
            key = "self_" + "_".join(reversed(chain))
            if key not in self.f.selfparams:
                self.err("self field `%s` not resolved" % key)
            return key, self.f.selfparams[key], []
        t, ty, gs = self.expr(e[1], env)
        if isinstance(ty, tuple) and ty[0] == "rec":
            for fn, fty in self.g.records[ty[1]]:
                if fn == e[2]:
                    return "(%s_f_%s %s)" % (ty[1], fn, t), fty, gs
        self.err("field `.%s` of a value of type %r" % (e[2], ty))

    def struct(self, e, env):
        name = self.f.impl if e[1] == "Self" else e[1]
        if name not in self.g.records:
            self.err("struct literal of `%s`" % e[1])
        given = dict(e[2])
        args, gs = [], []
        for fn, fty in self.g.records[name]:
            if fn not in given:
                self.err("struct literal of %s lacks field %s" % (name, fn))
            t, ty, g = self.expr(given[fn], env, fty)
            self.unify(ty, fty, "field %s of %s" % (fn, name))
            args.append(t)
            gs += g
        if len(given) != len(args):
            self.err("struct literal of %s has unknown fields" % name)
        return "(mk%s %s)" % (name, " ".join(args)), ("rec", name), gs

    def user_call(self, qual, args, env, recv=None, selfargs=None):
        fn = self.g.fns.get(qual)
        if fn is None:
            return None
        ptys = [t for _, t in fn.cparams]
        pnames = [n for n, _ in fn.cparams]
        ts, gs = [], []
        if recv is not None:
            if not (fn.selfrec or fn.selfty is not None):
                self.err("call of %s with a receiver" % qual)
            ts.append(recv[0])
            gs += recv[2]
            ptys, pnames = ptys[1:], pnames[1:]
        elif selfargs is not None:
            ts += selfargs
            ptys, pnames = ptys[len(selfargs):], pnames[len(selfargs):]
        elif fn.selfrec or fn.selfparams or fn.selfty is not None:
            self.err("call of method %s without receiver" % qual)
        # parameters the callee got from its `params` option (substituted impure terms) are passed on implicitly
        # from the caller's variable of the same name
        implicit = []
        while len(args) + len(implicit) < len(ptys) and pnames[len(ptys) - len(implicit) - 1] in fn.implicit:
            n = pnames[len(ptys) - len(implicit) - 1]
            if n not in env:
                self.err("call of %s: no variable `%s` to pass on implicitly" % (qual, n))
            implicit.insert(0, ("path", [n], None))
        args = list(args) + implicit
        if len(args) != len(ptys):
            self.err("call of %s with %d arguments" % (qual, len(args)))
        for a, pt in zip(args, ptys):
            t, ty, g = self.expr(a, env, pt)
            self.unify(ty, pt, "argument of %s" % qual)
            ts.append(t)
            gs += g
        app = "(%s %s)" % (fn.coq, " ".join(ts)) if ts else fn.coq
        if fn.has_guard:
            gs.append("(%s_guard %s)" % (fn.coq, " ".join(ts)) if ts else "%s_guard" % fn.coq)
        return app, fn.cret, gs

    def call(self, e, env, expect):
        segs, generic, args = e[1], e[2], e[3]
        name = "::".join(segs)
        if name in ("size_of", "mem::size_of", "core::mem::size_of", "std::mem::size_of") and generic and not args:
            tn = generic[1] if generic[0] == "path" else None
            if tn in SIZEOF:
                return str(SIZEOF[tn]), ("int", 64), []
            self.err("size_of::<%r>" % (generic,))
        if name in ("Vec::new", "Vec::with_capacity") and len(args) <= 1:
            inner = expect[1] if isinstance(expect, tuple) and expect[0] == "vec" else None
            return "[]", ("vec", inner), []
        if name == "Some" and len(args) == 1:
            inner = expect[1] if isinstance(expect, tuple) and expect[0] == "opt" else None
            t, ty, gs = self.expr(args[0], env, inner)
            return "(Some %s)" % t, ("opt", ty), gs
        if name == "Ok" and len(args) == 1:
            inner = expect[1] if isinstance(expect, tuple) and expect[0] == "opt" else None
            t, ty, gs = self.expr(args[0], env, inner)
            self.note("Result<T> is option T: Ok(x) = Some x, Err(_) = None (error payload dropped)")
            return "(Some %s)" % t, ("opt", ty), gs
        if name == "Err" and len(args) == 1:
            inner = expect[1] if isinstance(expect, tuple) and expect[0] == "opt" else None
            return "None", ("opt", inner), []
        if len(segs) == 2 and segs[0] in ALIASES:
            segs = [ALIASES[segs[0]], segs[1]]
            name = "::".join(segs)
        if len(segs) == 1 and (segs[0] in NEWTYPES or (segs[0] == "Self" and self.f.impl in NEWTYPES)) and len(args) == 1:
            nt = self.f.impl if segs[0] == "Self" else segs[0]
            w = INTW[NEWTYPES[nt]]
            t, ty, gs = self.expr(args[0], env, ("int", w))
            self.unify(ty, ("int", w), "newtype constructor %s" % nt)
            self.note("the newtype struct %s(%s) is the integer it wraps" % (nt, NEWTYPES[nt]))
            return t, ("int", w, nt), gs
        if len(segs) == 2 and segs[0] in INTW and segs[1] == "from" and len(args) == 1:
            t, ty, gs = self.expr(args[0], env)
            if ty == "bool":
                return "(b2n %s)" % t, ("int", INTW[segs[0]]), gs      # uN::from(bool): 1 / 0
            if not is_int(ty) or (ty[1] is not None and ty[1] > INTW[segs[0]]):
                self.err("%s of %r" % (name, ty))
            return t, ("int", INTW[segs[0]]), gs          # lossless widening: exact
        if len(segs) == 2 and segs[0] in INTW and segs[1] in ("from_le_bytes", "to_le_bytes") and len(args) == 1:
            t, ty, gs = self.expr(args[0], env, ("int", INTW[segs[0]]))
            if ty != ("int", INTW[segs[0]]):
                self.err("%s of %r" % (name, ty))
            self.note("[u8; n] values stand for the little-endian number they hold: from_le_bytes/to_le_bytes are the identity")
            return t, ty, gs
        if name in ("min", "max", "core::cmp::min", "core::cmp::max", "cmp::min", "cmp::max") and len(args) == 2:
            a, ta, ga = self.expr(args[0], env, expect)
            b, tb, gb = self.expr(args[1], env, ta)
            if is_int(ta) and ta[1] is None:
                a, ta, ga = self.expr(args[0], env, tb)
            ty = self.unify(ta, tb, name)
            return "(N.%s %s %s)" % (segs[-1], a, b), ty, ga + gb
        # user functions: free fn, Type::fn, Self::fn
        qual = name
        if segs[0] == "Self" and self.f.impl:
            qual = "::".join([self.f.impl] + segs[1:])
        r = self.user_call(qual, args, env)
        if r is not None:
            return r
        self.err("call of `%s` (not in WANT before this function, not a known builtin)" % name)

    def mcall(self, e, env, expect):
        recv, name, args = e[1], e[2], e[3]
        # checked conversions
        if name == "unwrap" and not args and recv[0] == "mcall" and recv[2] == "try_into" and not recv[3]:
            return self.checked_conv(recv[1], env, expect)
        if name in ("unwrap", "is_ok") and not args and recv[0] == "call" and len(recv[1]) == 2 \
                and recv[1][0] in INTW and recv[1][1] == "try_from" and len(recv[3]) == 1:
            target = ("int", INTW[recv[1][0]])
            if name == "unwrap":
                return self.checked_conv(recv[3][0], env, target)
            t, ty, gs = self.expr(recv[3][0], env)
            if not is_int(ty):
                self.err("try_from of a non-integer")
            return "(%s <=? %d)" % (t, 2 ** target[1] - 1), "bool", gs
        if name == "try_into" and not args:
            self.err("try_into() not followed by unwrap()")
        if name == "into" and not args:
            t, ty, gs = self.expr(recv, env)
            if is_int(expect) and is_int(ty) and expect[1] is not None and (ty[1] is None or ty[1] <= expect[1]):
                return t, expect, gs
            if is_int(ty):
                self.note("`.into()` of `%s` with target type not inferred: identity (From is lossless)" % t)
                return t, ("int", None), gs
            self.err(".into() of %r" % (ty,))
        if recv == ("path", ["self"], None) and not self.f.selfrec and self.f.selfty is None and self.f.impl:
            # self.method(..) inside an impl whose type is not a record: the callee's `self_*` parameters are ours
            fn = self.g.fns.get("%s::%s" % (self.f.impl, name))
            if fn is None:
                self.err("method self.%s (not in WANT before this function)" % name)
            for key in fn.selfparams:
                if key not in self.f.selfparams:
                    self.err("self.%s needs `%s`, which this function does not have" % (name, key))
            return self.user_call(fn.qual, args, env, selfargs=list(fn.selfparams))
        t, ty, gs = self.expr(recv, env)
        if ty == "bytes":
            self.err("Vec<u8> method .%s used as a value" % name)
        if ty == "slice":
            if name == "len" and not args:
                return "(slen %s)" % t, ("int", 64), gs
            if name == "is_empty" and not args:
                return "(slen %s =? 0)" % t, "bool", gs
            if name in ("as_slice", "as_ref", "to_vec", "clone") and not args:
                return t, ty, gs
            if name == "get" and len(args) == 1 and args[0][0] == "range":
                lo, lty, gl = self.expr(args[0][1], env, ("int", 64))
                hi, hty, gh = self.expr(args[0][2], env, ("int", 64))
                if not (is_int(lty) and is_int(hty)):
                    self.err("slice bound is not an integer")
                return "(slice_get %s %s %s)" % (t, lo, hi), ("opt", "slice"), gs + gl + gh
            self.err("byte slice method .%s/%d" % (name, len(args)))
        if isinstance(ty, tuple) and ty[0] == "vec":
            if name == "len" and not args:
                return "(N.of_nat (length %s))" % t, ("int", 64), gs
            self.err("Vec method .%s used as a value" % name)
        if is_int(ty) and name == "cmp" and len(args) == 1:
            b, bty, gb = self.expr(args[0], env, ty)
            self.unify(ty, bty, ".cmp")
            return "(%s ?= %s)" % (t, b), ("enum", "Ordering"), gs + gb
        if is_int(ty) and name == "checked_sub" and len(args) == 1:
            b, bty, gb = self.expr(args[0], env, ty)
            self.unify(ty, bty, ".checked_sub")
            return "(if %s <=? %s then Some (%s - %s) else None)" % (b, t, t, b), ("opt", ty), gs + gb
        if is_int(ty) and len(ty) == 3 and ("%s::%s" % (ty[2], name)) in self.g.fns:
            return self.user_call("%s::%s" % (ty[2], name), args, env, recv=(t, ty, gs))
        if is_int(ty):
            return self.int_method(t, ty, gs, name, args, env, expect)
        if isinstance(ty, tuple) and ty[0] == "enum" and ("%s::%s" % (ty[1], name)) in self.g.fns:
            return self.user_call("%s::%s" % (ty[1], name), args, env, recv=(t, ty, gs))
        if isinstance(ty, tuple) and ty[0] == "enum" and name in ("clone",) and not args:
            return t, ty, gs
        if isinstance(ty, tuple) and ty[0] == "opt":
            if name == "is_none" and not args:
                return "(isNone %s)" % t, "bool", gs
            if name == "is_some" and not args:
                return "(isSome %s)" % t, "bool", gs
            if name in ("as_ref", "copied", "cloned") and not args:
                return t, ty, gs
            if name == "unwrap_or" and len(args) == 1:
                d, dty, dg = self.expr(args[0], env, ty[1])
                return "(unwrap_or %s %s)" % (t, d), self.unify(ty[1], dty, "unwrap_or"), gs + dg
            if name == "unwrap_or_default" and not args:
                return "(unwrap_or %s %s)" % (t, self.g.default(ty[1])), ty[1], gs
            if name == "unwrap" and not args:
                self.note("Option::unwrap(): `isSome` joins the guard; the value on None is a default")
                return "(unwrap_or %s %s)" % (t, self.g.default(ty[1])), ty[1], gs + ["(isSome %s)" % t]
            if name in ("map", "map_or", "is_some_and") and args and args[-1][0] == "closure" \
                    and len(args) == (2 if name == "map_or" else 1):
                # Option::map(|x| e) / map_or(d, |x| e) / is_some_and(|x| e): a match on the option
                cl = args[-1]
                if len(cl[1]) != 1:
                    self.err("closure with %d parameters" % len(cl[1]))
                if contains(cl[2], "try") or contains(cl[2], "return") or assigned(cl[2], set()) & set(env.keys()):
                    self.err("closure body with `?`, return or assignment")
                self.depth += 1
                try:
                    env2 = dict(env)
                    pat = self.bindpat(cl[1][0], ty[1], env2)
                    exp_body = {"map": expect[1] if isinstance(expect, tuple) and expect[0] == "opt" else None,
                                "map_or": expect, "is_some_and": "bool"}[name]
                    bt, bty, bg = self.expr(cl[2], env2, exp_body)
                finally:
                    self.depth -= 1
                if pat.startswith("'"):
                    head, pat = "Some x_ => let %s := x_ in" % pat, "x_"
                else:
                    head = "Some %s =>" % pat
                if bg:
                    gs = gs + ["match %s with %s %s | None => true end" % (t, head, conj(bg))]
                if name == "map":
                    return "(match %s with %s Some %s | None => None end)" % (t, head, bt), ("opt", bty), gs
                if name == "is_some_and":
                    if bty != "bool":
                        self.err("is_some_and closure is not a bool")
                    return "(match %s with %s %s | None => false end)" % (t, head, bt), "bool", gs
                d, dty, dg = self.expr(args[0], env, bty)
                rty = self.unify(bty, dty, "map_or")
                return "(match %s with %s %s | None => %s end)" % (t, head, bt, d), rty, gs + dg
            if name == "map" and len(args) == 1 and args[0][0] == "path":
                segs = args[0][1]
                qual = "::".join(segs)
                fn = self.g.fns.get(qual)
                if fn is not None and len(fn.cparams) == 1:
                    if fn.has_guard:
                        gs = gs + ["match %s with Some x_ => %s_guard x_ | None => true end" % (t, fn.coq)]
                    return "(option_map %s %s)" % (fn.coq, t), ("opt", fn.cret), gs
            self.err("Option method .%s" % name)
        if isinstance(ty, tuple) and ty[0] == "rec":
            r = self.user_call("%s::%s" % (ty[1], name), args, env, recv=(t, ty, gs))
            if r is not None:
                return r
            self.err("method %s::%s (not in WANT before this function)" % (ty[1], name))
        self.err("method .%s on a value of type %r" % (name, ty))

    def int_method(self, t, ty, gs, name, args, env, expect):
        w = ty[1]
        a, ga = [], []
        for x in args:
            at, aty, ag = self.expr(x, env, ty)
            if not is_int(aty):
                self.err("argument of .%s is not an integer" % name)
            a.append(at)
            ga += ag
        gs = gs + ga
        n = len(a)
        if name == "is_multiple_of" and n == 1:
            return "(%s mod %s =? 0)" % (t, a[0]), "bool", gs     # N: x mod 0 = x, so rhs 0 gives `x = 0` as in Rust
        if name in ("min", "max") and n == 1:
            return "(N.%s %s %s)" % (name, t, a[0]), ty, gs
        if name == "pow" and n == 1:
            return "(%s ^ %s)" % (t, a[0]), ty, gs
        if name == "div_ceil" and n == 1:
            return "(div_ceil %s %s)" % (t, a[0]), ty, gs
        if name == "next_multiple_of" and n == 1:
            return "(next_multiple_of %s %s)" % (t, a[0]), ty, gs
        if name == "clamp" and n == 2:
            return "(N.max %s (N.min %s %s))" % (a[0], t, a[1]), ty, gs + ["(%s <=? %s)" % (a[0], a[1])]
        if name == "saturating_sub" and n == 1:
            return "(%s - %s)" % (t, a[0]), ty, gs
        if name == "is_power_of_two" and n == 0:
            return "(is_power_of_two %s)" % t, "bool", gs
        if name == "next_power_of_two" and n == 0:
            return "(next_power_of_two %s)" % t, ty, gs
        if name == "ilog2" and n == 0:
            return "(N.log2 %s)" % t, ("int", 32), gs + ["(0 <? %s)" % t]
        if name in ("trailing_zeros", "leading_zeros") and n == 0:
            if w is None:
                self.err(".%s on an integer of unknown width" % name)
            return "(%s %d %s)" % (name, w, t), ("int", 32), gs
        if name == "to_le_bytes" and n == 0:
            if w is None:
                self.err(".to_le_bytes on an integer of unknown width")
            self.note("[u8; n] values stand for the little-endian number they hold: from_le_bytes/to_le_bytes are the identity")
            return t, ty, gs
        self.err("integer method .%s/%d" % (name, n))

    def nested_blocklike(self, e, env, expect):
        """if/match/block used inside a larger expression: value only, may not assign outer variables"""
        if assigned(e, set()) & set(env.keys()) or contains(e, "return"):
            self.err("assignment or return inside a nested block expression")
        cell = {}
        inner_guards = []

        def k(v, ty, env2):
            cell["ty"] = self.unify(cell.get("ty"), ty, "branches") if "ty" in cell else ty
            return v
        saved_mode = self.mode
        self.mode = "val"          # guards inside are collected through a second pass below
        try:
            term = self.blocklike_tail(e, dict(env), k, expect)
        finally:
            self.mode = saved_mode
        if saved_mode == "guard" and (contains(e, "assert") or self.has_guard_sources(e)):
            saved = self.nguards

            def kg(v, ty, env2):
                return "g_"
            gterm = "(let g_ := true in %s)" % self.blocklike_tail(e, dict(env), kg, expect)
            if self.nguards > saved:
                inner_guards.append(gterm)
        return "(%s)" % term, cell.get("ty"), inner_guards

    def has_guard_sources(self, e):
        return contains(e, "mcall") or contains(e, "call")

    # ------------------------------------------------------------ `?`
    def hoist(self, e, binds):
        """replace every `inner?` of e that is evaluated unconditionally by a fresh variable (left to right,
        innermost first); binds collects (variable, inner).  `?` below `&&`/`||`, closures and block
        expressions stays (and is rejected by expr)."""
        if isinstance(e, list):
            return [self.hoist(x, binds) for x in e]
        if not isinstance(e, tuple) or not e:
            return e
        k = e[0]
        if k == "try":
            inner = self.hoist(e[1], binds)
            self.ntry += 1
            v = "q%d_" % self.ntry
            binds.append((v, inner))
            return ("path", [v], None)
        if k in BLOCKLIKE or k == "closure":
            return e
        if k == "bin" and e[1] in ("&&", "||"):
            return ("bin", e[1], self.hoist(e[2], binds), e[3])
        if k == "struct":
            return ("struct", e[1], [(fn, self.hoist(x, binds)) for fn, x in e[2]])
        return tuple(self.hoist(x, binds) if isinstance(x, (tuple, list)) else x for x in e)

    def with_tries(self, e, env, cont):
        """translate `e` with its `?` operators: each becomes `match inner with Some q => .. | None => <return None>`"""
        if not contains(e, "try"):
            return cont(e, env)
        if self.f.cret is None or not (isinstance(self.f.cret, tuple) and self.f.cret[0] == "opt"):
            self.err("`?` in a function that does not return Option/Result")
        binds = []
        e2 = self.hoist(e, binds)
        if not binds:
            return cont(e2, env)
        self.note("`?` is a match on the option: None (Err) returns None from the function")

        def go(i, env2):
            if i == len(binds):
                return cont(e2, env2)
            v, inner = binds[i]
            t, ty, gs = self.expr(inner, env2)
            if not (isinstance(ty, tuple) and ty[0] == "opt") or ty[1] is None:
                self.err("`?` on a value of type %r" % (ty,))
            env3 = dict(env2)
            env3[v] = Var(v, ty[1], self.depth)
            none = "None" if self.mode == "val" else "g_"
            return self.emit_guards(gs, "match %s with\n| Some %s =>\n%s\n| None => %s\nend" % (t, v, go(i + 1, env3), none))
        return go(0, env)

    # ------------------------------------------------------------ statements
    def block(self, blk, env, k):
        """translate a block in a new scope; k(value_term|None, type, env) builds what follows its value"""
        self.depth += 1
        try:
            return self.stmts(blk[1], 0, blk[2], dict(env), k)
        finally:
            self.depth -= 1

    def stmts(self, items, i, tail, env, k):
        if i == len(items):
            if tail is None:
                return k(None, "unit", env)
            if tail[0] in BLOCKLIKE:
                return self.blocklike_tail(tail, env, k, self.tail_expect)
            if contains(tail, "try"):
                return self.with_tries(tail, env, lambda e2, env2: self.stmts([], 0, e2, env2, k))
            t, ty, gs = self.expr(tail, env, self.tail_expect)
            return self.emit_guards(gs, k(t, ty, env))
        s = items[i]
        # `?` inside the expression of a simple statement: bind the options first, then the statement itself
        where = {"let": 3, "assign": 3, "return": 1, "expr": 1}.get(s[0])
        if where is not None and s[where] is not None and s[where][0] not in BLOCKLIKE and contains(s[where], "try"):
            def again(e2, env2):
                s2 = s[:where] + (e2,) + s[where + 1:]
                return self.stmts([s2] + list(items[i + 1:]), 0, tail, env2, k)
            return self.with_tries(s[where], env, again)

        def rest(env2):
            return self.stmts(items, i + 1, tail, env2, k)
        kind = s[0]
        if kind == "let":
            expect = self.g.ty(s[2], self.f.impl, self.f.qual) if s[2] is not None else None
            if s[3][0] in BLOCKLIKE:
                return self.blocklike_stmt(s[3], env, expect, s[1], rest, k)
            t, ty, gs = self.expr(s[3], env, expect)
            if expect is not None:
                ty = self.unify(ty, expect, "let annotation")
            pat = self.bindpat(s[1], ty, env)
            return self.emit_guards(gs, "let %s := %s in\n%s" % (pat, t, rest(env)))
        if kind == "assign" and s[2][0] == "index":
            op, lhs, rhs = s[1], s[2], s[3]
            base = lhs[1]
            if base[0] != "path" or len(base[1]) != 1 or base[1][0] not in env or env[base[1][0]].ty != "slice" \
                    or lhs[2][0] == "irange":
                self.err("assignment to `%r`" % (lhs,))
            v = env[base[1][0]]
            it, ity, gi = self.expr(lhs[2], env, ("int", 64))
            if op == "=":
                t, ty, gs = self.expr(rhs, env, ("int", 8))
            else:
                t, ty, gs = self.expr(("bin", op[:-1], lhs, rhs), env, ("int", 8))
            self.unify(ty, ("int", 8), "assignment to a byte")
            return self.emit_guards(gi + gs + ["(%s <? slen %s)" % (it, v.coq)],
                                    "let %s := (set_byte %s %s %s) in\n%s" % (v.coq, v.coq, it, t, rest(env)))
        if kind == "assign":
            op, lhs, rhs = s[1], s[2], s[3]
            if lhs[0] != "path" or len(lhs[1]) != 1 or lhs[1][0] not in env:
                self.err("assignment to `%r`" % (lhs,))
            v = env[lhs[1][0]]
            if rhs[0] in BLOCKLIKE and op == "=":
                return self.blocklike_stmt(rhs, env, v.ty, ("passign", v.coq), rest, k)
            if op == "=":
                t, ty, gs = self.expr(rhs, env, v.ty)
            else:
                t, ty, gs = self.expr(("bin", op[:-1], lhs, rhs), env, v.ty)
            self.unify(ty, v.ty, "assignment to %s" % lhs[1][0])
            return self.emit_guards(gs, "let %s := %s in\n%s" % (v.coq, t, rest(env)))
        if kind == "assert":
            if self.mode != "guard":
                return rest(env)
            t, ty, gs = self.expr(s[1], env)
            if ty != "bool":
                self.err("assert of a non-bool")
            return self.emit_guards(gs + [t], rest(env))
        if kind == "return":
            if s[1] is None:
                self.err("return without value")
            saved = self.tail_expect
            self.tail_expect = self.f.cret
            try:
                if s[1][0] in BLOCKLIKE:
                    return self.blocklike_tail(s[1], env, self.kret, self.f.cret)
                t, ty, gs = self.expr(s[1], env, self.f.cret)
                return self.emit_guards(gs, self.kret(t, ty, env))
            finally:
                self.tail_expect = saved
        if kind == "while":
            return self.while_(s, env, rest)
        if kind == "for":
            return self.for_(s, env, rest)
        if kind == "expr":
            e = s[1]
            if e[0] in BLOCKLIKE:
                return self.blocklike_stmt(e, env, None, None, rest, k)
            if e[0] == "mcall" and e[1][0] == "path" and len(e[1][1]) == 1 and e[1][1][0] in env \
                    and env[e[1][1][0]].ty == "bytes":
                v = env[e[1][1][0]]
                if e[2] == "push" and len(e[3]) == 1:
                    t, ty, gs = self.expr(e[3][0], env, ("int", 8))
                    self.unify(ty, ("int", 8), "Vec<u8>::push")
                    return self.emit_guards(gs, "let %s := (%s ++ [%s]) in\n%s" % (v.coq, v.coq, t, rest(env)))
                if e[2] == "extend_from_slice" and len(e[3]) == 1:
                    a = e[3][0]
                    while a[0] in ("borrow", "paren"):
                        a = a[1]
                    if a[0] == "mcall" and a[2] == "to_le_bytes" and not a[3]:
                        t, ty, gs = self.expr(a[1], env)
                        if not is_int(ty) or ty[1] is None:
                            self.err("to_le_bytes of unknown width")
                        return self.emit_guards(gs, "let %s := (%s ++ le_encode %d%%nat %s) in\n%s"
                                                % (v.coq, v.coq, ty[1] // 8, t, rest(env)))
            if e[0] == "mcall" and e[2] == "copy_from_slice" and len(e[3]) == 1 and e[1][0] == "index" \
                    and e[1][1][0] == "path" and len(e[1][1][1]) == 1 and e[1][1][1][0] in env \
                    and env[e[1][1][1][0]].ty == "slice" and e[1][2][0] == "irange":
                # x[a..b].copy_from_slice(&src): the bytes a..b of x are replaced; the lengths must agree
                v = env[e[1][1][1][0]]
                lo, hi, gb = self.slice_bounds(v.coq, e[1][2], env)
                src, gsrc = self.byte_source(e[3][0], env)
                g = "(andb (andb (%s <=? %s) (%s <=? slen %s)) (slen %s =? %s - %s))" % (lo, hi, hi, v.coq, src, hi, lo)
                return self.emit_guards(gb + gsrc + [g], "let %s := (splice %s %s %s) in\n%s" % (v.coq, v.coq, lo, src, rest(env)))
            if e[0] == "mcall" and e[1][0] == "path" and len(e[1][1]) == 1 and e[1][1][0] in env \
                    and isinstance(env[e[1][1][0]].ty, tuple) and env[e[1][1][0]].ty[0] == "vec" \
                    and e[2] == "push" and len(e[3]) == 1:
                v = env[e[1][1][0]]
                t, ty, gs = self.expr(e[3][0], env, v.ty[1])
                if v.ty[1] is None:
                    self.vec_elem[v.coq] = ty
                    env = dict(env)
                    env[e[1][1][0]] = v = Var(v.coq, ("vec", ty), v.depth)
                self.unify(ty, v.ty[1], "Vec::push")
                return self.emit_guards(gs, "let %s := (%s ++ [%s]) in\n%s" % (v.coq, v.coq, t, rest(env)))
            self.err("expression statement %r" % (e,))
        self.err("statement %r" % (s,))

    def byte_source(self, a, env):
        """the byte list written by copy_from_slice / extend: x.to_le_bytes(), a [u8; n] number, or a byte slice"""
        while a[0] in ("borrow", "paren"):
            a = a[1]
        if a[0] == "mcall" and a[2] == "to_le_bytes" and not a[3]:
            t, ty, gs = self.expr(a[1], env)
            if is_int(ty) and ty[1] is not None:
                return "(le_encode %d%%nat %s)" % (ty[1] // 8, t), gs
        if a[0] == "call" and len(a[1]) == 2 and a[1][0] in INTW and a[1][1] == "to_le_bytes" and len(a[3]) == 1:
            t, ty, gs = self.expr(a[3][0], env, ("int", INTW[a[1][0]]))
            self.unify(ty, ("int", INTW[a[1][0]]), "to_le_bytes")
            return "(le_encode %d%%nat %s)" % (INTW[a[1][0]] // 8, t), gs
        t, ty, gs = self.expr(a, env)
        if ty == "slice":
            return t, gs
        if is_int(ty) and ty[1] is not None:
            self.note("a [u8; n] value written into a buffer is `le_encode n` of the number it stands for")
            return "(le_encode %d%%nat %s)" % (ty[1] // 8, t), gs
        self.err("source of copy_from_slice of type %r" % (ty,))

    def for_(self, s, env, rest):
        """for i in a..b { body }: a fold over the range with the assigned variables as the state"""
        pat, it, body = s[1], s[2], s[3]
        if it[0] == "paren":
            it = it[1]
        if it[0] != "range":
            self.err("`for` over something that is not a range a..b")
        if pat[0] not in ("pvar", "pwild"):
            self.err("`for` pattern %r" % (pat,))
        if contains(body, "return") or contains(body, "try"):
            self.err("return / `?` inside a for loop")
        a, ta, ga = self.expr(it[1], env)
        b, tb, gb = self.expr(it[2], env, ta if is_int(ta) else None)
        if is_int(ta) and ta[1] is None and is_int(tb):
            a, ta, ga = self.expr(it[1], env, tb)
        if not (is_int(ta) and is_int(tb)):
            self.err("`for` range bounds are not integers")
        ity = self.unify(ta, tb, "for range")
        names = sorted(assigned(body, set()) & set(env.keys()))
        comps = [env[n].coq for n in names]
        if self.mode == "guard":
            comps.append("g_")
        if not comps:
            return rest(env)               # a loop without effect on anything tracked
        tup = comps[0] if len(comps) == 1 else "'(%s)" % ", ".join(comps)
        val = comps[0] if len(comps) == 1 else "(%s)" % ", ".join(comps)

        def kb(v, ty, env2):
            return val
        self.depth += 1
        try:
            env2 = dict(env)
            iv = self.declare(env2, pat[1], ity) if pat[0] == "pvar" else "_"
            bt = self.block(body, env2, kb)
        finally:
            self.depth -= 1
        self.note("`for i in a..b` is for_range a b (a fold over the b - a indices; nothing when b <= a)")
        binder = "st_" if len(comps) > 1 else comps[0]
        inner = ("let %s := st_ in\n%s" % (tup, bt)) if len(comps) > 1 else bt
        return self.emit_guards(ga + gb, "let %s := for_range %s %s (fun %s %s =>\n%s) %s in\n%s" % (
            tup, a, b, iv, binder, inner, val, rest(env)))

    def while_(self, s, env, rest):
        fuel = self.f.opts.get("fuel")
        if not fuel:
            self.err("`while` loop needs a `fuel` option in WANT")
        cond, body = s[1], s[2]
        if contains(body, "return") or contains(body, "assert"):
            self.err("return/assert inside a while loop")
        names = sorted(assigned(body, set()) & set(env.keys()))
        if not names:
            self.err("while loop that assigns nothing")
        coqs = [env[n].coq for n in names]
        tup = coqs[0] if len(coqs) == 1 else "'(%s)" % ", ".join(coqs)
        val = coqs[0] if len(coqs) == 1 else "(%s)" % ", ".join(coqs)
        c, cty, cg = self.expr(cond, env)
        if cty != "bool":
            self.err("while condition is not a bool")

        def kb(v, ty, env2):
            return val
        saved_mode = self.mode
        self.mode = "val"
        try:
            b = self.block(body, env, kb)
        finally:
            self.mode = saved_mode
        self.note("`while` is while_fuel %d: exact when the loop ends within %d rounds" % (fuel, fuel))
        return "let %s := while_fuel %d (fun %s => %s) (fun %s =>\n%s) %s in\n%s" % (
            tup, fuel, tup, c, tup, b, val, rest(env))

    # -- block-like expressions
    def branches(self, e, env, kbranch, expect):
        """`if c then B1 else B2` / `match` skeleton with each branch block translated by kbranch"""
        k = e[0]
        if k == "block":
            return self.block(e, env, kbranch)
        if k == "if":
            c, cty, cg = self.expr(e[1], env)
            if cty != "bool":
                self.err("if condition is not a bool")
            a = self.block(e[2], env, kbranch)
            b = self.block(e[3], env, kbranch) if e[3] is not None else kbranch(None, "unit", env)
            return self.emit_guards(cg, "if %s then\n%s\nelse\n%s" % (c, a, b))
        if k == "iflet":
            e = ("match", e[2], [(e[1], e[3]), (("pwild",), e[4] if e[4] is not None else ("block", [], None))])
        scrut, arms = e[1], e[2]
        t, ty, gs = self.expr(scrut, env)
        if isinstance(ty, tuple) and ty[0] == "opt":
            some = none = None
            for pat, body in arms:
                if pat[0] == "psome" and some is None:
                    some = (pat, body)
                elif pat[0] in ("pnone", "pwild") and none is None:
                    none = body
                else:
                    self.err("match arm pattern %r on an Option" % (pat,))
            if some is None or none is None:
                self.err("match on an Option needs Some(..) and None arms")
            self.depth += 1
            try:
                env2 = dict(env)
                if some[0][1][0] == "pvar":
                    x = self.declare(env2, some[0][1][1], ty[1])
                elif some[0][1][0] == "pwild":
                    x = "_"
                else:
                    self.err("pattern inside Some(..): %r" % (some[0][1],))
                a = self.arm(some[1], env2, kbranch)
            finally:
                self.depth -= 1
            b = self.arm(none, env, kbranch)
            return self.emit_guards(gs, "match %s with\n| Some %s =>\n%s\n| None =>\n%s\nend" % (t, x, a, b))
        if isinstance(ty, tuple) and ty[0] == "enum":
            # a match on an enum with unit variants: a Coq match on the (generated) Inductive
            variants = [c for _, c in self.g.enums[ty[1]]]
            seen, outarms = [], []
            for pat, body in arms:
                if pat[0] == "pwild":
                    left = [c for c in variants if c not in seen]
                    if left:
                        outarms.append(("_", body))
                    seen = list(variants)
                    break
                ctors = self.enum_pats(pat, ty[1])
                if ctors is None:
                    self.err("match arm pattern %r on the enum %s" % (pat, ty[1]))
                ctors = [c for c in ctors if c not in seen]
                if ctors:
                    outarms.append((" | ".join(ctors), body))
                    seen += ctors
            if set(seen) != set(variants):
                self.err("match on the enum %s does not cover %s" % (ty[1], [c for c in variants if c not in seen]))
            text = "match %s with" % t
            for lhs, body in outarms:
                text += "\n| %s =>\n%s" % (lhs, self.arm(body, env, kbranch))
            return self.emit_guards(gs, text + "\nend")
        if is_int(ty):
            out = None
            chain = []

            def int_pat(pat):
                if pat[0] == "plit":
                    return "(%s =? %d)" % (t, pat[1])
                if pat[0] == "prange":
                    return "(andb (%d <=? %s) (%s <=? %d))" % (pat[1], t, t, pat[2])
                if pat[0] == "pvar" and pat[1] not in env and self.g.const(self.f.rel, pat[1]):
                    return "(%s =? %s)" % (t, self.g.const(self.f.rel, pat[1]))     # a constant used as a pattern
                if pat[0] == "por":
                    parts = [int_pat(q) for q in pat[1]]
                    if any(x is None for x in parts):
                        self.err("match arm pattern %r on an integer" % (pat,))
                    out = parts[0]
                    for x in parts[1:]:
                        out = "(orb %s %s)" % (out, x)
                    return out
                return None
            for pat, body in arms:
                c = int_pat(pat)
                if c is not None:
                    chain.append((c, body, None))
                elif pat[0] in ("pwild", "pvar"):
                    chain.append((None, body, pat[1] if pat[0] == "pvar" else None))
                    break
                else:
                    self.err("match arm pattern %r on an integer" % (pat,))
            if chain and chain[-1][0] is not None:
                # no catch-all arm: rustc has checked that the arms are exhaustive for the integer type, so the
                # last arm is taken whenever none of the earlier ones is
                self.note("match on an integer without catch-all arm: the last arm is the `else` (the arms are exhaustive for the Rust type)")
                chain[-1] = (None, chain[-1][1], None)
            if not chain:
                self.err("match on an integer without arms")
            for cond, body, bind in reversed(chain):
                if cond is None:
                    self.depth += 1
                    try:
                        env2 = dict(env)
                        if bind:
                            x = self.declare(env2, bind, ty)
                            out = "let %s := %s in\n%s" % (x, t, self.arm(body, env2, kbranch))
                        else:
                            out = self.arm(body, env2, kbranch)
                    finally:
                        self.depth -= 1
                else:
                    out = "if %s then\n%s\nelse\n%s" % (cond, self.arm(body, env, kbranch), out)
            return self.emit_guards(gs, out)
        self.err("match on a value of type %r" % (ty,))

    def arm(self, body, env, kbranch):
        if body[0] == "block":
            return self.block(body, env, kbranch)
        return self.block(("block", [], body), env, kbranch)

    def blocklike_tail(self, e, env, k, expect):
        saved = self.tail_expect
        self.tail_expect = expect
        try:
            return "(" + self.branches(e, env, k, expect) + ")"
        finally:
            self.tail_expect = saved

    def blocklike_stmt(self, e, env, expect, pat, rest, k):
        """block-like expression in statement position (let initialiser, assignment rhs or bare statement)"""
        want_value = pat is not None
        if contains(e, "return"):
            # a branch returns: the rest of the enclosing block is continued inside every branch
            outer = env

            def kdup(v, ty, env2):
                env3 = dict(outer)
                if want_value:
                    if v is None:
                        self.err("block without value used as a value")
                    p = pat[1] if pat[0] == "passign" else self.bindpat(pat, self.unify(ty, expect, "let") if expect else ty, env3)
                    return "let %s := %s in\n%s" % (p, v, rest(env3))
                return rest(env3)
            return self.blocklike_tail(e, env, kdup, expect)
        names = sorted(assigned(e, set()) & set(env.keys()))
        comps = [env[n].coq for n in names]
        if self.mode == "guard":
            comps.append("g_")
        cell = {}

        def kjoin(v, ty, env2):
            parts = list(comps)
            if want_value:
                if v is None:
                    self.err("block without value used as a value")
                cell["ty"] = self.unify(cell["ty"], ty, "branches") if "ty" in cell else ty
                parts = [v] + parts
            return parts[0] if len(parts) == 1 else "(%s)" % ", ".join(parts)
        if not want_value and not comps:
            return rest(env)              # no effect on anything we track (only asserts, in value mode)
        body = self.blocklike_tail(e, env, kjoin, expect)
        binders = list(comps)
        if want_value:
            ty = cell.get("ty")
            if expect is not None:
                ty = self.unify(ty, expect, "let annotation")
            if ty is None or (isinstance(ty, tuple) and ty[0] == "opt" and ty[1] is None):
                self.err("type of block-like expression not inferred")
            if pat[0] == "passign":
                binders = [pat[1]] + binders
            else:
                p = self.bindpat(pat, ty, env)
                binders = [p.lstrip("'")] + binders
        lhs = binders[0] if len(binders) == 1 else "'(%s)" % ", ".join(binders)
        if len(binders) == 1 and binders[0].startswith("("):
            lhs = "'" + binders[0]
        return "let %s := %s in\n%s" % (lhs, body, rest(env))

    # ------------------------------------------------------------ whole function
    def run(self):
        f = self.f
        env = {}
        for n, t in f.cparams:
            env[n] = Var(cname(n), t, 0)
        if f.selfrec:
            del env["self"]
        self.tail_expect = f.cret
        if self.mode == "val":
            def kret(v, ty, env2):
                if v is None:
                    if f.cret == "unit":
                        return "tt"
                    self.err("function body has no value")
                if f.cret != "bytes":
                    self.unify(ty, f.cret, "return value")
                return v
        else:
            def kret(v, ty, env2):
                return "g_"
        if f.sink:
            # fn f(.., out: &mut Vec<u8>): the final contents of `out` are the result
            inner = kret
            sink = cname(f.sink)

            def kret(v, ty, env2, inner=inner):     # noqa: F811
                return inner(sink, "bytes", env2) if self.mode == "val" else "g_"
        self.kret = kret
        body = self.stmts(f.body[1], 0, f.body[2], env, kret)
        if self.mode == "guard":
            body = "let g_ := true in\n" + body
        return body


def indent(term):
    """re-indent the let/if/match chain produced above"""
    out, depth = [], 1
    for line in term.split("\n"):
        s = line.strip()
        if s.startswith(("else", "| ", "end")) or s == ")":
            depth_here = max(1, depth - 1)
        else:
            depth_here = depth
        out.append("  " * depth_here + s)
        opens = s.count("(") - s.count(")")
        depth = max(1, depth + opens)
        if s.endswith("then") or s.endswith("with") or s.endswith("=>"):
            depth += 1
        if s.startswith("else") and not s.endswith("then") and s != "else":
            pass
        if s == "else":
            pass
        if s.startswith("end"):
            depth = max(1, depth - 1)
    return "\n".join(out)


def translate_fn(gen, f):
    f.notes = []
    f.selfrec = None
    f.selfty = None
    f.selfparams = {}
    f.sink = None
    f.implicit = set(n for n, _ in f.opts.get("params", ()))
    where = "%s: fn %s" % (f.rel, f.qual)
    cparams = []
    if f.selfkind:
        if f.selfkind == "&mut" and not f.opts.get("mut_self"):
            raise Err("%s: &mut self method" % where)
        if f.impl in gen.records:
            f.selfrec = f.impl
            cparams.append(("self", ("rec", f.impl)))
        elif f.impl in NEWTYPES:
            f.selfty = ("int", INTW[NEWTYPES[f.impl]], f.impl)
            cparams.append(("self", f.selfty))
        elif f.impl in gen.enums:
            f.selfty = ("enum", f.impl)
            cparams.append(("self", f.selfty))
        else:
            # every `self.a.b` chain in the body becomes a leading parameter self_a_b
            chains = []

            def walk(node):
                if isinstance(node, tuple):
                    if node and node[0] == "field":
                        ch, x = [], node
                        while x[0] == "field":
                            ch.append(x[2])
                            x = x[1]
                        if x == ("path", ["self"], None):
                            ch = list(reversed(ch))
                            if ch not in chains:
                                chains.append(ch)
                            return
                    if node and node[0] == "mcall" and node[1] == ("path", ["self"], None):
                        callee = gen.fns.get("%s::%s" % (f.impl, node[2]))
                        if callee is not None:
                            for ch in callee.selfchains:
                                if ch not in chains:
                                    chains.append(ch)
                    for x in node:
                        walk(x)
                elif isinstance(node, list):
                    for x in node:
                        walk(x)
            walk(f.body)
            f.selfchains = chains
            for ch in chains:
                sname, t = f.impl, None
                for fld in ch:
                    if sname is None:
                        raise Err("%s: self.%s: field of a non-struct" % (where, ".".join(ch)))
                    fields = dict(gen.struct_fields(f.opts.get("struct_file", f.rel), sname))
                    if fld not in fields or fields[fld] is None:
                        raise Err("%s: self.%s: field %s of %s not found / not translatable" % (where, ".".join(ch), fld, sname))
                    t = fields[fld]
                    sname = t[1] if t[0] == "path" and t[1] not in INTW and t[1] not in ("Option", "bool") else None
                key = "self_" + "_".join(ch)
                f.selfparams[key] = gen.ty(t, f.impl, where)
                cparams.append((key, f.selfparams[key]))
    for n, t, _mut in f.params:
        ct = gen.ty(t, f.impl, where)
        if ct == "bytes":
            if f.sink:
                raise Err("%s: two &mut Vec<u8> parameters" % where)
            f.sink = n
        cparams.append((n, ct))
    f.cparams = cparams
    f.cret = gen.ty(f.ret, f.impl, where)
    if f.sink:
        if f.cret != "unit":
            raise Err("%s: &mut Vec<u8> parameter and a return value" % where)
        f.cret = "bytes"
    f.coq = f.qual.replace("::", "_")
    val = Tr(gen, f, "val").run()
    gtr = Tr(gen, f, "guard")
    guard = gtr.run()
    f.has_guard = gtr.nguards > 0
    if not f.has_guard:
        guard = "true"
    doms = [gen.dom(cname(n), t) for n, t in cparams]
    binders = " ".join("(%s : %s)" % (cname(n), coq_ty(t)) for n, t in cparams)
    sp = " " if binders else ""
    lines = []
    lines.append("(* %s  %s  sha1=%s" % (f.qual, f.rel, f.sha1))
    gen.index.append("%-45s %s:%d-%d  sha1=%s" % (f.coq, f.rel, f.line0, f.line1, f.sha1))
    if f.within:
        shown = " ".join(f.text.split()).replace("(*", "( *").replace("*)", "* )")
        lines.append("   an expression inside fn %s: `%s`" % (f.within, shown if len(shown) <= 300 else shown[:300] + " ..."))
    for a, b in f.opts.get("subst", {}).items():
        lines.append("   `%s` is the parameter `%s`" % (a, b))
    if f.opts.get("drop_params"):
        lines.append("   parameters dropped (only used through the substituted terms): %s" % ", ".join(f.opts["drop_params"]))
    if f.selfparams:
        lines.append("   self fields read, passed as leading parameters: %s" % ", ".join(f.selfparams))
    if f.selfrec:
        lines.append("   &self is the leading parameter `self : %s`" % f.selfrec)
    if f.sink:
        lines.append("   `%s: &mut Vec<u8>` is a byte list parameter; the result is its final contents" % f.sink)
    for n in f.notes:
        lines.append("   note: %s" % n)
    lines.append("*)")
    lines.append("Definition %s%s%s : %s :=\n%s." % (f.coq, sp, binders, coq_ty(f.cret), indent(val)))
    lines.append("Definition %s_guard%s%s : bool :=\n%s." % (f.coq, sp, binders, indent(guard)))
    lines.append("Definition %s_dom%s%s : bool :=\n  %s." % (f.coq, sp, binders, conj(doms)))
    return "\n".join(lines)


def record_decl(gen, rel, name):
    fields = []
    for fn, t in gen.struct_fields(rel, name):
        if t is None:
            raise Err("%s: struct %s: field %s has a type outside the subset" % (rel, name, fn))
        fields.append((fn, gen.ty(t, name, "%s: struct %s" % (rel, name))))
    gen.records[name] = fields
    text, masked = gen.src(rel)
    m = re.search(r"\bstruct\s+%s\b[^{;(]*\{" % re.escape(name), masked)
    end = match_brace(masked, m.end() - 1)
    line0 = text.count("\n", 0, m.start()) + 1
    line1 = text.count("\n", 0, end) + 1
    sha = hashlib.sha1(text[m.start():end + 1].encode()).hexdigest()
    out = ["(* struct %s  %s  sha1=%s *)" % (name, rel, sha)]
    gen.index.append("%-45s %s:%d-%d  sha1=%s" % ("struct " + name, rel, line0, line1, sha))
    out.append("Record %s := mk%s { %s }." % (name, name, "; ".join("%s_f_%s : %s" % (name, fn, coq_ty(t)) for fn, t in fields)))
    out.append("Definition %s_default : %s := mk%s %s." % (name, name, name, " ".join(gen.default(t) for _, t in fields)))
    doms = [gen.dom("(%s_f_%s r)" % (name, fn), t) for fn, t in fields]
    out.append("Definition %s_dom (r : %s) : bool :=\n  %s." % (name, name, conj(doms)))
    return "\n".join(out)


def enum_decl(gen, rel, name):
    """a Rust enum whose variants are all unit variants -> Inductive <name> := <name>_<Variant> | ..."""
    text, masked = gen.src(rel)
    m = re.search(r"\benum\s+%s\b[^{;(]*\{" % re.escape(name), masked)
    if not m:
        raise Err("%s: enum %s not found" % (rel, name))
    end = match_brace(masked, m.end() - 1)
    body = masked[m.end():end]
    variants = []
    for part in body.split(","):
        part = part.strip()
        if not part:
            continue
        if not re.fullmatch(r"[A-Za-z_][A-Za-z_0-9]*", part):
            raise Err("%s: enum %s: variant `%s` is not a unit variant" % (rel, name, " ".join(part.split())))
        variants.append(part)
    if not variants:
        raise Err("%s: enum %s has no variants" % (rel, name))
    gen.enums[name] = [(v, "%s_%s" % (name, v)) for v in variants]
    line0 = text.count("\n", 0, m.start()) + 1
    line1 = text.count("\n", 0, end) + 1
    sha = hashlib.sha1(text[m.start():end + 1].encode()).hexdigest()
    gen.index.append("%-45s %s:%d-%d  sha1=%s" % ("enum " + name, rel, line0, line1, sha))
    return "(* enum %s  %s  sha1=%s *)\nInductive %s := %s." % (
        name, rel, sha, name, " | ".join(c for _, c in gen.enums[name]))


HEADER_TXT = """(* GENERATED by tools/gen_fns.py from the Rust sources -- do not edit.
   One Definition per Rust function; its source file and the sha1 of its text are given before each, the
   line ranges are in Gen/Fns.index (kept out of this file so that shifted lines cause no rebuild);
   <f>_guard = conjunction of the asserts / checked conversions / unwraps the code performs on that input,
   <f>_dom   = every parameter inside the range of its Rust integer type (usize = u64).
   Integers are unbounded N: `+ *` do not wrap, `-` is truncated subtraction (see design.d/GEN.md). *)
From Coq Require Import NArith List Bool.
From RV Require Import Base.Bytes Gen.Consts Gen.FnsLib Gen.FnsLibB.
Import ListNotations.
Open Scope N_scope.
"""


gen_index = []


def generate(repo, want=None, structs=None, enums=None):
    gen = Gen(repo)
    parts = [HEADER_TXT]
    errors = []
    for rel, name in (ENUMS if enums is None else enums):
        # an enum that is no longer a plain list of unit variants is left out; the functions using it follow
        try:
            parts.append(enum_decl(gen, rel, name))
        except (Err, Unsupported) as ex:
            errors.append("%s" % ex)
            parts.append("(* UNTRANSLATABLE enum %s: no Inductive emitted.\n   %s *)" % (name, str(ex).replace("*)", "* )")))
    for ent in (STRUCTS if structs is None else structs):
        rel, name = ent[0], ent[1]
        if len(ent) > 2:
            # a struct added for the byte codecs: when it can no longer be translated only its users are left out
            try:
                parts.append(record_decl(gen, rel, name))
            except (Err, Unsupported) as ex:
                gen.records.pop(name, None)
                errors.append("%s" % ex)
                parts.append("(* UNTRANSLATABLE struct %s: no Record emitted.\n   %s *)" % (name, str(ex).replace("*)", "* )")))
        else:
            parts.append(record_decl(gen, rel, name))
    for rel, qual, opts in (WANT if want is None else want):
        # a function that cannot be translated is left out (with the reason as a comment): exactly the proofs
        # that mention it stop compiling, i.e. exactly the properties relying on it lose their S1
        try:
            f = gen.locate(rel, qual, opts)
            parts.append(translate_fn(gen, f))
            gen.fns[f.qual] = f
        except Exception as ex:     # noqa: BLE001  (Err / Unsupported, and any internal error of the translator)
            if not isinstance(ex, (Err, Unsupported)):
                ex = Err("%s: fn %s: internal error of the translator: %s: %s" % (rel, qual, type(ex).__name__, ex))
            name = opts.get("name", qual.replace("::", "_"))
            errors.append("%s" % ex)
            parts.append("(* UNTRANSLATABLE %s (%s): no definition emitted.\n   %s *)"
                         % (name, qual, str(ex).replace("*)", "* )").replace("(*", "( *")))
    gen_index[:] = gen.index
    return "\n\n".join(parts) + "\n", errors


def main(argv):
    if "--selftest" in argv:
        import gen_fns_selftest
        return gen_fns_selftest.run()
    out = OUT
    if "--out" in argv:
        out = argv[argv.index("--out") + 1]
    try:
        body, errors = generate(REPO)
    except (Err, Unsupported) as ex:
        print("gen_fns: ERROR %s" % ex, file=sys.stderr)
        return 2
    for e in errors:
        print("gen_fns: UNTRANSLATABLE (definition left out; dependent proofs will fail) %s" % e, file=sys.stderr)
    os.makedirs(os.path.dirname(out), exist_ok=True)
    old = open(out).read() if os.path.exists(out) else None
    if old != body:
        tmp = out + ".tmp%d" % os.getpid()
        with open(tmp, "w") as fh:
            fh.write(body)
        os.replace(tmp, out)
        print("gen_fns: wrote", os.path.normpath(out))
    idx = "# GENERATED by tools/gen_fns.py from %s: where each definition of Fns.v comes from\n" % REPO \
        + "\n".join(gen_index) + "\n"
    ip = os.path.splitext(out)[0] + ".index"
    if not os.path.exists(ip) or open(ip).read() != idx:
        with open(ip, "w") as fh:
            fh.write(idx)
    return 0


if __name__ == "__main__":
    sys.exit(main(sys.argv[1:]))
