#!/bin/bash
# usage: tools/run_all.sh [tier] [ids...]   runs the registered checks sequentially, prints one line each
tier=${1:-quick}; shift
ids=${@:-$(python3 -c "import json;print(' '.join(c['property_id'] for c in json.load(open('MANIFEST.json'))['checks']))")}
mkdir -p .cache/runall
for id in $ids; do
  s=$(date +%s)
  ./check $id --tier $tier > .cache/runall/$id.log 2>&1; rc=$?
  e=$(date +%s)
  echo "$id rc=$rc wall=$((e-s))s $(grep -c '^VIOLATION' .cache/runall/$id.log) violations; $(grep -h '^KNOWN-FINDING\|^VIOLATION' .cache/runall/$id.log | head -3 | tr '\n' '|')"
done
