#!/bin/bash
# usage: tools/seed_sweep.sh "<seeds>" [jobs] [ids...]  -- runs quick checks for several seeds; prints non-passing ones
seeds=$1; jobs=${2:-3}; shift; shift
ids=${@:-$(ls manifest.d/C*.json | sed 's/.*\/\(C[0-9]*\).json/\1/')}
mkdir -p .cache/sweep
for s in $seeds; do for id in $ids; do echo "$s $id"; done; done | xargs -P $jobs -L1 bash -c 's=$0; id=$1; VERIF_SEED=$s ./check $id --tier quick > .cache/sweep/$id.$s.log 2>&1; rc=$?; echo "seed=$s $id rc=$rc $(grep -h "^VIOLATION" .cache/sweep/$id.$s.log | cut -c1-200 | head -2 | tr "\n" "|")"'
