#!/bin/bash
# usage: verify_seed.sh <patch> <demo.rs> <outdir>
# Confirms, in a scratch worktree outside /repo and /verif: the patch applies, the existing test suite
# still passes with it, the demo fails with it and passes without it.
set -u
patch=$(readlink -f "$1"); demo=$(readlink -f "$2"); out=$3
mkdir -p "$out"
slot=${VS_SLOT:-0}
wt=/tmp/vs/wt.$$
export CARGO_NET_OFFLINE=true CARGO_TARGET_DIR=/tmp/vs/target-$slot CARGO_BUILD_JOBS=8
git -C /repo worktree add -q --detach "$wt" HEAD || exit 2
cd "$wt"
res=0
# the demo is either a test file (copied to tests/seed_demo.rs) or a standalone cargo project directory whose
# Cargo.toml names the worktree by a `path = "..."` dependency on redb (needed when it depends on redb 3.0.0 too)
if [ -d "$demo" ]; then
  dp=/tmp/vs/demo.$$; rm -rf $dp; cp -r "$demo" $dp; rm -rf $dp/target
  sed -i "s#^redb = { path = \"[^\"]*\"#redb = { path = \"$wt\"#" $dp/Cargo.toml
  cp "$wt/Cargo.lock" $dp/Cargo.lock 2>/dev/null
  rundemo() { (cd $dp && RUSTFLAGS="--cfg redb_verif" cargo run --offline); }
else
  cp "$demo" tests/seed_demo.rs
  rundemo() { RUSTFLAGS="--cfg redb_verif" cargo test --offline --features experimental_cursor --test seed_demo; }
fi
echo "== demo WITHOUT patch" > "$out/verify.log"
if rundemo >> "$out/verify.log" 2>&1; then echo "demo_without_patch=pass" | tee -a "$out/verify.log"; else echo "demo_without_patch=FAIL" | tee -a "$out/verify.log"; res=1; fi
if git apply "$patch"; then echo "patch_applies=yes" | tee -a "$out/verify.log"; else echo "patch_applies=NO" | tee -a "$out/verify.log"; res=1; fi
echo "== demo WITH patch" >> "$out/verify.log"
if rundemo >> "$out/verify.log" 2>&1; then echo "demo_with_patch=PASS(unexpected)" | tee -a "$out/verify.log"; res=1; else echo "demo_with_patch=fail(expected)" | tee -a "$out/verify.log"; fi
rm -f tests/seed_demo.rs; [ -n "${dp:-}" ] && rm -rf "$dp"
echo "== suite WITH patch" >> "$out/verify.log"
cargo nextest run -p redb@4.2.0 -p redb-derive -p redb-derive-rename-test --features redb/experimental_cursor --no-fail-fast --tool-config-file pb:/w/lib/nextest.toml --profile pb --test-threads 6 --offline > "$out/suite.log" 2>&1
tail -3 "$out/suite.log" | tee -a "$out/verify.log"
if grep -q "448 tests run: 448 passed" "$out/suite.log"; then echo "suite=448 passed" | tee -a "$out/verify.log"; else echo "suite=NOT 448 passed" | tee -a "$out/verify.log"; res=1; fi
cd /; git -C /repo worktree remove --force "$wt"
echo "verify_result=$res" | tee -a "$out/verify.log"
exit $res
