#!/usr/bin/env python3
"""Tie 1: regenerate coq/Gen/Consts.v from the Rust sources of the repository under check.

Parses `const NAME: T = <expr>;` items from a fixed list of files and folds the expressions
(literals, size_of::<uN>(), earlier constants, + - * / << >> |, `.len()` of a byte array constant,
`.ilog2()`, `as T`, `u16::MAX`, `BtreeHeader::serialized_size()` = PageNumber(8)+Checksum(16)+u64(8)).
Anything that is listed in WANT and cannot be parsed is an error: exit status 2 and a message, never a
silent default.  The output file is rewritten only when its content changes.
"""
import os
import re
import sys

REPO = os.environ.get("VERIF_REPO", "/repo")
# VERIF_COQ: the coq tree to write into (a private copy when a check runs against another checkout)
OUT = os.path.join(os.environ.get("VERIF_COQ") or os.path.join(os.path.dirname(os.path.abspath(__file__)), "..", "coq"), "Gen", "Consts.v")

# file -> list of constant names wanted (prefix for the Coq name, to avoid clashes such as PADDING)
WANT = {
    "src/tree_store/page_store/header.rs": ("", [
        "MAGICNUMBER", "GOD_BYTE_OFFSET", "PAGE_SIZE_OFFSET", "REGION_HEADER_PAGES_OFFSET",
        "REGION_MAX_DATA_PAGES_OFFSET", "NUM_FULL_REGIONS_OFFSET", "TRAILING_REGION_DATA_PAGES_OFFSET",
        "TRANSACTION_SIZE", "TRANSACTION_0_OFFSET", "TRANSACTION_1_OFFSET", "DB_HEADER_SIZE",
        "PRIMARY_BIT", "RECOVERY_REQUIRED", "TWO_PHASE_COMMIT", "VERSION_OFFSET",
        "USER_ROOT_NON_NULL_OFFSET", "SYSTEM_ROOT_NON_NULL_OFFSET", "USER_ROOT_OFFSET",
        "SYSTEM_ROOT_OFFSET", "TRANSACTION_ID_OFFSET", "TRANSACTION_LAST_FIELD",
        "SLOT_CHECKSUM_OFFSET", "PAGE_SIZE"]),
    "src/tree_store/page_store/base.rs": ("", [
        "MAX_VALUE_LENGTH", "MAX_PAIR_LENGTH", "MAX_PAGE_INDEX", "MAX_REGIONS"]),
    "src/tree_store/page_store/page_manager.rs": ("", [
        "MAX_USABLE_REGION_SPACE", "MAX_MAX_PAGE_ORDER", "MIN_USABLE_PAGES", "MIN_DESIRED_USABLE_BYTES",
        "INITIAL_REGIONS", "FILE_FORMAT_VERSION3"]),
    "src/tree_store/page_store/buddy_allocator.rs": ("BUDDY_", [
        "MAX_ORDER_OFFSET", "PADDING", "NUM_PAGES_OFFSET", "FREE_END_OFFSETS"]),
    "src/tree_store/page_store/bitmap.rs": ("BITMAP_", ["HEIGHT_OFFSET", "END_OFFSETS"]),
    "src/tree_store/btree_base.rs": ("", ["LEAF", "BRANCH", "MAX_BTREE_DEPTH", "DEFERRED"]),
    "src/tree_store/table_tree_base.rs": ("", ["ALIGNMENT"]),
    "src/tree_store/btree_cursor.rs": ("", ["INSERT_FLUSH_BYTES"]),
    "src/transactions.rs": ("", ["MAX_PAGES_PER_COMPACTION"]),
}

SIZEOF = {"u8": 1, "u16": 2, "u32": 4, "u64": 8, "u128": 16, "Checksum": 16, "i8": 1, "i16": 2,
          "i32": 4, "i64": 8, "i128": 16}
BTREE_HEADER_SIZE_SRC = ("src/tree_store/btree_base.rs",
                         r"pub\(crate\) const fn serialized_size\(\) -> usize \{\s*PageNumber::serialized_size\(\) \+ size_of::<Checksum>\(\) \+ size_of::<u64>\(\)\s*\}")


# literal facts that are not `const` items: (coq name, file, regex with one group)
EXTRA = [
    ("TABLE_NORMAL", "src/tree_store/table_tree_base.rs", r"TableType::Normal => (\d+),"),
    ("TABLE_MULTIMAP", "src/tree_store/table_tree_base.rs", r"TableType::Multimap => (\d+),"),
    ("COLL_INLINE", "src/tree_store/multimap_btree.rs", r"\bInline => (LEAF),"),
    ("COLL_SUBTREE", "src/tree_store/multimap_btree.rs", r"\bSubtreeV2 => (\d+),"),
    ("ALLOC_KEY_REGION", "src/transactions.rs", r"Self::Region\(region\) => \{\s*result\[0\] = (\d+);"),
    ("ALLOC_KEY_TRACKER", "src/transactions.rs", r"Self::RegionTracker => \{\s*result\[0\] = (\d+);"),
    ("ALLOC_KEY_TXNID", "src/transactions.rs", r"Self::TransactionId => \{\s*result\[0\] = (\d+);"),
    ("TYPE_CLASS_INTERNAL", "src/types.rs", r"TypeClassification::Internal => (\d+),"),
    ("TYPE_CLASS_USER", "src/types.rs", r"TypeClassification::UserDefined => (\d+),"),
    ("TYPE_CLASS_INTERNAL2", "src/types.rs", r"TypeClassification::Internal2 => (\d+),"),
    ("TYPE_CLASS_INTERNAL3", "src/types.rs", r"TypeClassification::Internal3 => (\d+),"),
]
EXTRA_STR = [
    ("NAME_NEXT_SAVEPOINT", "src/transactions.rs", r'NEXT_SAVEPOINT_TABLE:[^;]*?SystemTableDefinition::new\("([^"]+)"\)'),
    ("NAME_SAVEPOINTS", "src/transactions.rs", r'\bSAVEPOINT_TABLE:[^;]*?SystemTableDefinition::new\("([^"]+)"\)'),
    ("NAME_DATA_ALLOCATED", "src/transactions.rs", r'DATA_ALLOCATED_TABLE:[^;]*?SystemTableDefinition::new\("([^"]+)"\)'),
    ("NAME_DATA_FREED", "src/transactions.rs", r'DATA_FREED_TABLE:[^;]*?SystemTableDefinition::new\("([^"]+)"\)'),
    ("NAME_SYSTEM_FREED", "src/transactions.rs", r'SYSTEM_FREED_TABLE:[^;]*?SystemTableDefinition::new\("([^"]+)"\)'),
    ("NAME_ALLOCATOR_STATE", "src/transactions.rs", r'ALLOCATOR_STATE_TABLE_NAME: &str = "([^"]+)"'),
]


class ParseError(Exception):
    pass


def strip_comments(s):
    return re.sub(r"//[^\n]*", "", s)


def fold(expr, env, arrays):
    e = expr.strip()
    e = re.sub(r"size_of::<(\w+)>\(\)", lambda m: str(SIZEOF[m.group(1)]) if m.group(1) in SIZEOF else m.group(0), e)
    e = re.sub(r"(?:core::)?mem::size_of::<(\w+)>\(\)", lambda m: str(SIZEOF[m.group(1)]), e)
    e = e.replace("BtreeHeader::serialized_size()", str(env["__BTREE_HEADER_SIZE"]))
    e = re.sub(r"(\w+)\.len\(\)", lambda m: str(len(arrays[m.group(1)])) if m.group(1) in arrays else m.group(0), e)
    e = re.sub(r"\bu16::MAX\b", "65535", e)
    e = re.sub(r"\bu32::MAX\b", str(2**32 - 1), e)
    e = re.sub(r"\bu64::MAX\b", str(2**64 - 1), e)
    e = re.sub(r"\s+as\s+\w+", "", e)
    e = re.sub(r"\(([^()]+)\)\.ilog2\(\)", lambda m: "ILOG2(%s)" % m.group(1), e)
    # integer literals with underscores / suffixes
    e = re.sub(r"\b(0x[0-9a-fA-F_]+|0b[01_]+|[0-9][0-9_]*)(u8|u16|u32|u64|usize|u128)?\b",
               lambda m: str(int(m.group(1).replace("_", ""), 0)), e)
    names = set(re.findall(r"[A-Za-z_][A-Za-z_0-9]*", e)) - {"ILOG2"}
    for n in names:
        if n not in env:
            raise ParseError("unknown name %r in %r" % (n, expr))
    if not re.fullmatch(r"[\sA-Za-z_0-9+\-*/<>|()]*", e):
        raise ParseError("unsupported expression %r" % expr)
    e = e.replace("/", "//")
    loc = dict(env)
    loc["ILOG2"] = lambda x: x.bit_length() - 1
    return int(eval(e, {"__builtins__": {}}, loc))


def parse_array(expr):
    m = re.fullmatch(r"\[(.*)\]", expr.strip(), re.S)
    if not m:
        raise ParseError("not an array: %r" % expr)
    out = []
    for item in m.group(1).split(","):
        item = item.strip()
        if not item:
            continue
        mm = re.fullmatch(r"b'(.)'", item)
        if mm:
            out.append(ord(mm.group(1)))
        else:
            out.append(int(item.replace("_", ""), 0))
    return out


def main():
    lines = []
    errors = []
    src = open(os.path.join(REPO, BTREE_HEADER_SIZE_SRC[0])).read()
    if not re.search(BTREE_HEADER_SIZE_SRC[1], src):
        errors.append("BtreeHeader::serialized_size() no longer PageNumber+Checksum+u64")
    for rel, (prefix, wanted) in WANT.items():
        path = os.path.join(REPO, rel)
        try:
            text = strip_comments(open(path).read())
        except OSError as ex:
            errors.append("%s: %s" % (rel, ex))
            continue
        env = {"__BTREE_HEADER_SIZE": 32}
        arrays = {}
        # constants of other files that are referenced
        env["MAX_PAGE_INDEX"] = 0x000FFFFF
        if rel != "src/tree_store/page_store/base.rs":
            base = strip_comments(open(os.path.join(REPO, "src/tree_store/page_store/base.rs")).read())
            m = re.search(r"const MAX_PAGE_INDEX: u32 = ([^;]+);", base)
            if m:
                env["MAX_PAGE_INDEX"] = int(m.group(1).replace("_", ""), 0)
        found = {}
        for m in re.finditer(r"(?:pub(?:\([a-z]+\))?\s+)?const\s+([A-Z_0-9a-z]+)\s*:\s*([^=]+?)\s*=\s*([^;]+);", text):
            name, ty, expr = m.group(1), m.group(2).strip(), m.group(3)
            try:
                if ty.startswith("["):
                    arrays[name] = parse_array(expr)
                    found[name] = arrays[name]
                else:
                    v = fold(expr, env, arrays)
                    env[name] = v
                    found[name] = v
            except Exception as ex:  # noqa
                found[name] = ParseError(str(ex))
        for w in wanted:
            if w not in found:
                errors.append("%s: constant %s not found" % (rel, w))
            elif isinstance(found[w], ParseError):
                errors.append("%s: constant %s: %s" % (rel, w, found[w]))
            elif isinstance(found[w], list):
                lines.append("Definition %s%s : list N := [%s]%%N." % (prefix, w, "; ".join(str(x) for x in found[w])))
            else:
                lines.append("Definition %s%s : N := %d%%N." % (prefix, w, found[w]))
    # things that are not `const` items but literal facts of the code we rely on
    extra = EXTRA  # (coq name, file, regex with one group: a number or the name of a constant emitted above)
    for name, rel, rx in extra:
        try:
            text = strip_comments(open(os.path.join(REPO, rel)).read())
            m = re.search(rx, text)
            if m:
                g = m.group(1).replace("_", "")
                if re.fullmatch(r"[0-9]+|0x[0-9a-fA-F]+", g):
                    lines.append("Definition %s : N := %d%%N." % (name, int(g, 0)))
                else:
                    mm = [re.match(r"Definition %s : N := (\d+)%%N\." % re.escape(m.group(1)), l) for l in lines]
                    mm = [x for x in mm if x]
                    if mm:
                        lines.append("Definition %s : N := %s%%N." % (name, mm[0].group(1)))
                    else:
                        errors.append("%s: %s refers to unknown constant %s" % (rel, name, m.group(1)))
            else:
                errors.append("%s: pattern for %s not found" % (rel, name))
        except OSError as ex:
            errors.append("%s: %s" % (rel, ex))
    # string literals (ASCII) the format depends on, as byte lists
    for name, rel, rx in EXTRA_STR:
        try:
            text = strip_comments(open(os.path.join(REPO, rel)).read())
            m = re.search(rx, text)
            if m and all(ord(c) < 128 for c in m.group(1)):
                lines.append("Definition %s : list N := [%s]%%N." % (name, "; ".join(str(ord(c)) for c in m.group(1))))
            else:
                errors.append("%s: string pattern for %s not found" % (rel, name))
        except OSError as ex:
            errors.append("%s: %s" % (rel, ex))
    if errors:
        for e in errors:
            print("gen_consts: ERROR " + e, file=sys.stderr)
        return 2
    body = ("(* GENERATED by tools/gen_consts.py from the Rust sources -- do not edit. *)\n"
            "From Coq Require Import NArith List.\nImport ListNotations.\nOpen Scope N_scope.\n\n"
            + "\n".join(lines) + "\n")
    os.makedirs(os.path.dirname(OUT), exist_ok=True)
    old = None
    if os.path.exists(OUT):
        old = open(OUT).read()
    if old != body:
        with open(OUT, "w") as f:
            f.write(body)
        print("gen_consts: wrote", os.path.normpath(OUT))
    return 0


if __name__ == "__main__":
    sys.exit(main())
