#!/usr/bin/env python3
"""Assemble MANIFEST.json from manifest.d/<Cxx>.json (one check entry per claimed property).
Properties without an entry are listed under not_applicable with the reason from manifest.d/na/<Cxx>.txt
(or a default)."""
import glob
import json
import os
import subprocess

ROOT = os.path.dirname(os.path.dirname(os.path.abspath(__file__)))
props = [json.loads(l) for l in open(os.path.join(ROOT, "properties.jsonl"))]
checks = {}
for f in sorted(glob.glob(os.path.join(ROOT, "manifest.d", "C*.json"))):
    c = json.load(open(f))
    checks[c["property_id"]] = c
na = []
for p in props:
    if p["id"] not in checks:
        rf = os.path.join(ROOT, "manifest.d", "na", p["id"] + ".txt")
        reason = open(rf).read().strip() if os.path.exists(rf) else \
            "no check is claimed yet: model, theorems and correspondence for this property are not built (see DESIGN.md)"
        na.append({"property_id": p["id"], "reason": reason})
hooks = subprocess.run(["git", "-C", "/repo", "log", "--format=%H %s", "fa840e0..HEAD"], capture_output=True, text=True).stdout.strip().split("\n")
hook_commits = [l.split(" ")[0] for l in hooks if l and " verif hook" in l]
m = {
    "version": 1,
    "setup_cmd": "./setup.sh",
    "hooks": {
        "guard": "redb_verif",
        "enable": "RUSTFLAGS=\"--cfg redb_verif\" (set by lib/vlib.py when it builds harness/ against /repo)",
        "baseline_off_cmd": "cd /repo && (cargo nextest run --workspace --no-fail-fast --test-threads 8 --offline || cargo test --workspace --no-fail-fast --offline)",
        "source_commits": list(reversed(hook_commits)),
        "add_only": True,
    },
    "engines": [{
        "name": "coq-proof+correspondence", "path": "check",
        "serves_properties": sorted(checks),
        "kind_free_text": "Coq 8.16.1 models + theorems (coq/), constants regenerated from the Rust sources on every run "
                          "(tools/gen_consts.py), extracted OCaml models (ExtrOcamlBasic) compared with the real crate by a Rust harness "
                          "(harness/), decision protocol in lib/vlib.py",
    }],
    "checks": [checks[k] for k in sorted(checks)],
    "not_applicable": na,
    "notes": "DESIGN.md describes the approach; design.d/<Cxx>.md the as-built state per property; known_findings.json the recorded defects.",
}
json.dump(m, open(os.path.join(ROOT, "MANIFEST.json"), "w"), indent=1)
print("MANIFEST.json: %d checks, %d not_applicable" % (len(checks), len(na)))
