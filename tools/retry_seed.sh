#!/bin/bash
# usage: tools/retry_seed.sh <seeded ID> "<note>" [check ids...]   re-runs checks against a kept seeded change and records the outcome
id=$1; note=$2; shift; shift
cd "$(dirname "$0")/.."
checks=${@:-$(python3 -c "import json;print(json.load(open('seeded/$id/meta.json'))['property'])")}
for c in $checks; do
  line=$(tools/try_seed.sh seeded/$id $c | tail -1); echo "$line"
  python3 tools/record_try.py seeded/$id $c "$line" "$note"
done
