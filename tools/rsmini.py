"""A tiny lexer / recursive-descent parser for the restricted Rust subset translated by gen_fns.py.

Only what the WANT functions need.  Anything else raises Unsupported (a hard error upstream).
AST nodes are tuples whose first element is the node kind.
"""
import re


class Unsupported(Exception):
    pass


def mask_comments_strings(src):
    """Same length as src; comments, string and char literals blanked (newlines kept)."""
    out = list(src)
    i, n = 0, len(src)

    def blank(a, b):
        for k in range(a, b):
            if out[k] != "\n":
                out[k] = " "
    while i < n:
        c = src[i]
        if src.startswith("//", i):
            j = src.find("\n", i)
            j = n if j < 0 else j
            blank(i, j)
            i = j
        elif src.startswith("/*", i):
            j = src.find("*/", i + 2)
            j = n if j < 0 else j + 2
            blank(i, j)
            i = j
        elif c == '"':
            j = i + 1
            while j < n and src[j] != '"':
                j += 2 if src[j] == "\\" else 1
            blank(i + 1, j)          # keep the quotes: the token STR survives
            i = j + 1
        elif c == "'":
            m = re.match(r"'(\\.|[^\\'])'", src[i:])
            if m:                      # char literal
                blank(i + 1, i + m.end() - 1)
                i += m.end()
            else:
                i += 1                 # lifetime
        else:
            i += 1
    return "".join(out)


def match_brace(masked, i):
    """masked[i] == '{' ; index of the matching '}'."""
    depth = 0
    for k in range(i, len(masked)):
        if masked[k] == "{":
            depth += 1
        elif masked[k] == "}":
            depth -= 1
            if depth == 0:
                return k
    raise Unsupported("unbalanced braces")


PUNCT = ["<<=", ">>=", "..=", "...", "::", "->", "=>", "==", "!=", "<=", ">=", "&&", "||", "<<", ">>",
         "+=", "-=", "*=", "/=", "%=", "|=", "&=", "^=", "..",
         "+", "-", "*", "/", "%", "<", ">", "=", "!", "&", "|", "^", "(", ")", "{", "}", "[", "]",
         ",", ";", ":", ".", "?", "#", "@", "$"]
TOK = re.compile(r"\s*(?:(0x[0-9a-fA-F_]+|0b[01_]+|[0-9][0-9_]*)((?:u|i)(?:8|16|32|64|128|size))?\b"
                 r"|([A-Za-z_][A-Za-z_0-9]*)|('[a-z_]+\b(?!'))|(\"[^\"]*\")|('[^']*')|(%s))"
                 % "|".join(re.escape(p) for p in PUNCT))


def lex(text):
    toks = []
    i = 0
    text = text.rstrip()
    while i < len(text):
        m = TOK.match(text, i)
        if not m or m.end() == i:
            if text[i:].strip() == "":
                break
            raise Unsupported("cannot lex %r" % text[i:i + 30])
        if m.group(1) is not None:
            toks.append(("int", int(m.group(1).replace("_", ""), 0), m.group(2)))
        elif m.group(3) is not None:
            toks.append(("id", m.group(3)))
        elif m.group(4) is not None:
            toks.append(("life", m.group(4)))
        elif m.group(5) is not None or m.group(6) is not None:
            toks.append(("str", ""))
        else:
            toks.append(("p", m.group(7)))
        i = m.end()
    toks.append(("eof",))
    return toks


ASSERTS = {"assert", "debug_assert", "assert_eq", "debug_assert_eq", "assert_ne", "debug_assert_ne"}
BINPREC = [("||",), ("&&",), ("==", "!=", "<", ">", "<=", ">="), ("|",), ("^",), ("&",), ("<<", ">>"),
           ("+", "-"), ("*", "/", "%")]


class Parser:
    def __init__(self, toks, structs=()):
        self.t = toks
        self.i = 0
        self.structs = set(structs) | {"Self"}

    # -- token helpers
    def peek(self, k=0):
        return self.t[min(self.i + k, len(self.t) - 1)]

    def isp(self, s, k=0):
        return self.peek(k) == ("p", s)

    def isid(self, s=None, k=0):
        t = self.peek(k)
        return t[0] == "id" and (s is None or t[1] == s)

    def eat(self, s):
        if self.isp(s):
            self.i += 1
            return True
        return False

    def need(self, s):
        if not self.eat(s):
            raise Unsupported("expected %r at %s" % (s, self.ctx()))

    def ident(self):
        t = self.peek()
        if t[0] != "id":
            raise Unsupported("expected identifier at %s" % self.ctx())
        self.i += 1
        return t[1]

    def ctx(self):
        return " ".join(str(x[1]) if len(x) > 1 else x[0] for x in self.t[self.i:self.i + 8])

    def split_shr(self):
        """turn a '>>' token into two '>' (closing nested generics)"""
        if self.isp(">>"):
            self.t[self.i:self.i + 1] = [("p", ">"), ("p", ">")]
        if self.isp(">="):
            self.t[self.i:self.i + 1] = [("p", ">"), ("p", "=")]

    # -- types:  ('path', name, [args]) | ('tuple', [..]) | ('array', T, n) | ('ref', mut, T)
    def ty(self):
        if self.eat("&"):
            if self.peek()[0] == "life":
                self.i += 1
            mut = False
            if self.isid("mut"):
                self.i += 1
                mut = True
            return ("ref", mut, self.ty())
        if self.eat("("):
            items = []
            while not self.isp(")"):
                items.append(self.ty())
                if not self.eat(","):
                    break
            self.need(")")
            return ("tuple", items)
        if self.eat("["):
            t = self.ty()
            n = None
            if self.eat(";"):
                tok = self.peek()
                if tok[0] == "int" and self.isp("]", 1):
                    n = tok[1]
                    self.i += 1
                else:
                    # a length that is not a literal (`[u8; Self::serialized_size()]`): the array is a byte list
                    depth = 0
                    while not (depth == 0 and self.isp("]")):
                        if self.peek()[0] == "eof":
                            raise Unsupported("array length at %s" % self.ctx())
                        if self.peek() in (("p", "("), ("p", "["), ("p", "<")):
                            depth += 1
                        elif self.peek() in (("p", ")"), ("p", "]"), ("p", ">")):
                            depth -= 1
                        self.i += 1
                    n = None
            self.need("]")
            return ("array", t, n)
        name = self.ident()
        while self.eat("::"):
            name = self.ident()           # keep the last path segment (core::ops::Range -> Range)
        args = []
        if self.eat("<"):
            while True:
                self.split_shr()
                if self.isp(">"):
                    break
                if self.peek()[0] == "life":
                    self.i += 1
                else:
                    args.append(self.ty())
                if not self.eat(","):
                    break
            self.split_shr()
            self.need(">")
        return ("path", name, args)

    # -- function signature:  fn name<..>(params) -> T
    def signature(self):
        while self.isid("pub") or self.isid("const") or self.isid("unsafe"):
            self.i += 1
            if self.isp("("):
                while not self.eat(")"):
                    self.i += 1
        if not self.isid("fn"):
            raise Unsupported("expected fn at %s" % self.ctx())
        self.i += 1
        name = self.ident()
        if self.isp("<"):
            self.i += 1
            while not self.isp(">"):
                if self.peek()[0] == "life" or self.isp(",") or self.isp(":") or self.isp("+"):
                    self.i += 1
                else:
                    raise Unsupported("generic function %s" % name)
            self.i += 1
        self.need("(")
        params = []
        selfkind = None
        while not self.isp(")"):
            if self.isp("&") and (self.isid("self", 1) or (self.isid("mut", 1) and self.isid("self", 2))):
                mut = self.isid("mut", 1)
                self.i += 3 if mut else 2
                selfkind = "&mut" if mut else "&"
            elif self.isid("self"):
                self.i += 1
                selfkind = "val"
            else:
                mut = False
                if self.isid("mut"):
                    self.i += 1
                    mut = True
                pn = self.ident()
                self.need(":")
                params.append((pn, self.ty(), mut))
            if not self.eat(","):
                break
        self.need(")")
        ret = ("tuple", [])
        if self.eat("->"):
            ret = self.ty()
        if self.isid("where"):
            while not self.isp("{"):
                tok = self.peek()
                if tok[0] == "eof":
                    raise Unsupported("where clause")
                if tok[0] == "id" and tok[1] not in ("where", "Self") or tok[0] == "p" and tok[1] not in (":", ","):
                    raise Unsupported("where clause that is not about lifetimes: %s" % self.ctx())
                self.i += 1
        return name, selfkind, params, ret

    # -- blocks and statements
    def block(self):
        self.need("{")
        stmts = []
        tail = None
        while not self.isp("}"):
            if self.eat(";"):
                continue
            if self.isp("#"):
                raise Unsupported("attribute inside function body at %s" % self.ctx())
            if self.isid("let"):
                stmts.append(self.let())
                continue
            if self.isid("return"):
                self.i += 1
                e = None if self.isp(";") else self.expr()
                self.eat(";")
                stmts.append(("return", e))
                continue
            if self.isid("while"):
                self.i += 1
                c = self.expr(nostruct=True)
                stmts.append(("while", c, self.block()))
                continue
            if self.isid("for"):
                self.i += 1
                pat = self.pattern()
                if not self.isid("in"):
                    raise Unsupported("for without in at %s" % self.ctx())
                self.i += 1
                it = self.expr(nostruct=True)
                stmts.append(("for", pat, it, self.block()))
                continue
            if self.isid("loop") or self.isid("break") or self.isid("continue"):
                raise Unsupported("loop statement `%s`" % self.ctx())
            if self.peek()[0] == "id" and self.peek()[1] in ASSERTS and self.isp("!", 1):
                stmts.append(self.assertion())
                self.eat(";")
                continue
            e = self.expr(stmt=True)
            for op in ("=", "+=", "-=", "*=", "/=", "%=", "|=", "&=", "^=", "<<=", ">>="):
                if self.isp(op):
                    self.i += 1
                    rhs = self.expr()
                    self.need(";")
                    stmts.append(("assign", op, e, rhs))
                    break
            else:
                if self.eat(";"):
                    stmts.append(("expr", e))
                elif self.isp("}"):
                    tail = e
                elif e[0] in ("if", "iflet", "match", "block"):
                    stmts.append(("expr", e))     # block-like expression statement without `;`
                else:
                    raise Unsupported("statement at %s" % self.ctx())
        self.need("}")
        return ("block", stmts, tail)

    def pattern(self):
        p = self.pattern1()
        if self.isp("|"):
            alts = [p]
            while self.eat("|"):
                alts.append(self.pattern1())
            return ("por", alts)
        return p

    def pattern1(self):
        if self.eat("&"):
            return self.pattern1()
        if self.eat("("):
            items = []
            while not self.isp(")"):
                items.append(self.pattern())
                if not self.eat(","):
                    break
            self.need(")")
            return ("ptuple", items)
        tok = self.peek()
        if tok[0] == "int":
            self.i += 1
            if self.eat("..="):
                hi = self.peek()
                if hi[0] != "int":
                    raise Unsupported("range pattern at %s" % self.ctx())
                self.i += 1
                return ("prange", tok[1], hi[1])
            return ("plit", tok[1])
        while self.isid("ref") or self.isid("mut"):
            self.i += 1
        name = self.ident()
        if name == "_":
            return ("pwild",)
        if name in ("Some", "Ok") and self.eat("("):
            inner = self.pattern()
            self.need(")")
            return ("psome", inner)
        if name == "None":
            return ("pnone",)
        if self.isp("::"):
            segs = [name]
            while self.eat("::"):
                segs.append(self.ident())
            if self.isp("(") or self.isp("{"):
                raise Unsupported("pattern %s(..) with a payload at %s" % ("::".join(segs), self.ctx()))
            return ("ppath", segs)
        if self.isp("(") or self.isp("{"):
            raise Unsupported("pattern %s... at %s" % (name, self.ctx()))
        return ("pvar", name)

    def let(self):
        self.i += 1
        pat = self.pattern()
        ty = None
        if self.eat(":"):
            ty = self.ty()
        if not self.eat("="):
            raise Unsupported("let without initialiser at %s" % self.ctx())
        e = self.expr()
        if self.isid("else"):
            raise Unsupported("let-else")
        self.need(";")
        return ("let", pat, ty, e)

    def assertion(self):
        name = self.ident()
        self.need("!")
        self.need("(")
        a = self.expr()
        if name.endswith("_eq") or name.endswith("_ne"):
            self.need(",")
            b = self.expr()
            a = ("bin", "==" if name.endswith("_eq") else "!=", a, b)
        depth = 1                          # skip the optional message arguments
        while depth:
            if self.isp("("):
                depth += 1
            elif self.isp(")"):
                depth -= 1
            elif self.peek()[0] == "eof":
                raise Unsupported("unterminated assert")
            self.i += 1
        return ("assert", a)

    # -- expressions
    def expr(self, nostruct=False, stmt=False):
        lhs = self.binary(0, nostruct, stmt)
        if self.isp("..") and lhs[0] not in ("if", "iflet", "match", "block"):
            self.i += 1
            rhs = self.binary(0, nostruct, False)
            return ("range", lhs, rhs)
        return lhs

    def binary(self, level, nostruct, stmt=False):
        if level == len(BINPREC):
            return self.cast(nostruct, stmt)
        lhs = self.binary(level + 1, nostruct, stmt)
        if stmt and lhs[0] in ("if", "iflet", "match", "block"):
            return lhs                     # a block-like expression ends an expression statement
        while True:
            tok = self.peek()
            if tok[0] == "p" and tok[1] in BINPREC[level]:
                self.i += 1
                rhs = self.binary(level + 1, nostruct)
                lhs = ("bin", tok[1], lhs, rhs)
            else:
                return lhs

    def cast(self, nostruct, stmt=False):
        e = self.unary(nostruct, stmt)
        while self.isid("as"):
            self.i += 1
            e = ("cast", e, self.ty())
        return e

    def unary(self, nostruct, stmt=False):
        if self.eat("!"):
            return ("not", self.unary(nostruct))
        if self.eat("-"):
            return ("neg", self.unary(nostruct))
        if self.eat("&"):
            if self.isid("mut"):
                self.i += 1
            return ("borrow", self.unary(nostruct))
        if self.eat("*"):
            return ("borrow", self.unary(nostruct))
        return self.postfix(self.primary(nostruct), stmt)

    def index_expr(self):
        """inside `[..]`: an index, or a range a..b / a.. / ..b / a..=b / .. -> ("irange", lo, hi, inclusive)"""
        for op in ("..=", ".."):
            if self.isp(op):
                self.i += 1
                hi = None if self.isp("]") else self.binary(0, False)
                return ("irange", None, hi, op == "..=")
        lo = self.binary(0, False)
        for op in ("..=", ".."):
            if self.isp(op):
                self.i += 1
                hi = None if self.isp("]") else self.binary(0, False)
                return ("irange", lo, hi, op == "..=")
        return lo

    def args(self):
        self.need("(")
        out = []
        while not self.isp(")"):
            out.append(self.expr())
            if not self.eat(","):
                break
        self.need(")")
        return out

    def postfix(self, e, stmt=False):
        if stmt and e[0] in ("if", "iflet", "match", "block") and not self.isp("."):
            return e
        while True:
            if self.isp(".") and not self.isp("..") :
                self.i += 1
                tok = self.peek()
                if tok[0] == "int":
                    self.i += 1
                    e = ("tfield", e, tok[1])
                    continue
                name = self.ident()
                if self.isp("::"):
                    raise Unsupported("turbofish method call .%s::<..>" % name)
                if self.isp("("):
                    e = ("mcall", e, name, self.args())
                else:
                    e = ("field", e, name)
            elif self.isp("?"):
                self.i += 1
                e = ("try", e)
            elif self.isp("["):
                self.i += 1
                idx = self.index_expr()
                self.need("]")
                e = ("index", e, idx)
            else:
                return e

    def primary(self, nostruct):
        tok = self.peek()
        if tok[0] == "int":
            self.i += 1
            return ("lit", tok[1], tok[2])
        if self.eat("("):
            if self.eat(")"):
                return ("unit",)
            e = self.expr()
            if self.eat(","):
                items = [e]
                while not self.isp(")"):
                    items.append(self.expr())
                    if not self.eat(","):
                        break
                self.need(")")
                return ("tuple", items)
            self.need(")")
            return ("paren", e)
        if self.isp("{"):
            return self.block()
        if self.isp("|"):
            self.i += 1
            pats = []
            while not self.isp("|"):
                pats.append(self.pattern1())
                if self.eat(":"):
                    self.ty()
                if not self.eat(","):
                    break
            self.need("|")
            return ("closure", pats, self.expr())
        if self.isp("["):
            self.i += 1
            v = self.expr()
            if not self.eat(";"):
                raise Unsupported("array literal at %s" % self.ctx())
            n = self.expr()
            self.need("]")
            return ("arrayrep", v, n)
        if tok[0] == "str":
            self.i += 1
            return ("opaque", "string literal")
        if tok[0] != "id":
            raise Unsupported("expression at %s" % self.ctx())
        if tok[1] == "if":
            return self.ifexpr()
        if tok[1] == "match":
            self.i += 1
            scrut = self.expr(nostruct=True)
            self.need("{")
            arms = []
            while not self.isp("}"):
                pat = self.pattern()
                if self.isid("if"):
                    raise Unsupported("match guard")
                self.need("=>")
                body = self.expr()
                arms.append((pat, body))
                if not self.eat(",") and not self.isp("}"):
                    if body[0] != "block":
                        raise Unsupported("match arm at %s" % self.ctx())
            self.need("}")
            return ("match", scrut, arms)
        if tok[1] in ("true", "false"):
            self.i += 1
            return ("bool", tok[1] == "true")
        # path
        segs = [self.ident()]
        generic = None
        while self.isp("::"):
            self.i += 1
            if self.isp("<"):
                self.i += 1
                generic = self.ty()
                self.split_shr()
                self.need(">")
            else:
                segs.append(self.ident())
        if self.isp("!"):
            if segs[-1] == "format":       # only ever inside Err(..): skipped, payload is dropped
                self.i += 1
                self.need("(")
                depth = 1
                while depth:
                    if self.isp("("):
                        depth += 1
                    elif self.isp(")"):
                        depth -= 1
                    elif self.peek()[0] == "eof":
                        raise Unsupported("unterminated format!")
                    self.i += 1
                return ("opaque", "format!")
            if segs == ["vec"] and self.isp("[", 1) and self.isp("]", 2):
                self.i += 3
                return ("call", ["Vec", "new"], None, [])
            if segs == ["matches"]:
                self.i += 1
                self.need("(")
                e = self.expr()
                self.need(",")
                pat = self.pattern()
                self.eat(",")
                self.need(")")
                return ("matches", e, pat)
            if segs == ["unreachable"]:
                self.i += 1
                self.need("(")
                depth = 1
                while depth:
                    if self.isp("("):
                        depth += 1
                    elif self.isp(")"):
                        depth -= 1
                    elif self.peek()[0] == "eof":
                        raise Unsupported("unterminated unreachable!")
                    self.i += 1
                return ("unreachable",)
            raise Unsupported("macro %s!" % "::".join(segs))
        if self.isp("("):
            return ("call", segs, generic, self.args())
        if self.isp("{") and not nostruct and segs[-1] in self.structs and len(segs) == 1:
            self.i += 1
            fields = []
            while not self.isp("}"):
                fn = self.ident()
                if self.eat(":"):
                    fields.append((fn, self.expr()))
                else:
                    fields.append((fn, ("path", [fn], None)))
                if not self.eat(","):
                    break
            self.need("}")
            return ("struct", segs[0], fields)
        return ("path", segs, generic)

    def ifexpr(self):
        self.i += 1                         # `if`
        if self.isid("let"):
            self.i += 1
            pat = self.pattern()
            self.need("=")
            scrut = self.expr(nostruct=True)
            then = self.block()
            els = self.else_part()
            return ("iflet", pat, scrut, then, els)
        c = self.expr(nostruct=True)
        then = self.block()
        return ("if", c, then, self.else_part())

    def else_part(self):
        if self.isid("else"):
            self.i += 1
            if self.isid("if"):
                return ("block", [], self.ifexpr())
            return self.block()
        return None
