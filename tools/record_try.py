#!/usr/bin/env python3
"""usage: record_try.py <seeded/ID dir> <check id> "<try_seed output line>" [note]
appends the outcome of running a check against a seeded change to its meta.json (history is kept: a change first
missed and caught after the check was strengthened shows both runs)."""
import json, os, re, sys, time
dst, c, line = sys.argv[1:4]
note = sys.argv[4] if len(sys.argv) > 4 else ""
mp = os.path.join(dst, "meta.json")
m = json.load(open(mp))
rc = re.search(r"rc=(\d+)", line)
viol = line.split("::", 1)[1].strip() if "::" in line else ""
head = os.popen("git -C %s rev-parse --short HEAD" % os.path.dirname(os.path.abspath(__file__))).read().strip()
m.setdefault("checks_run", []).append({
    "check": c, "cmd": "tools/try_seed.sh seeded/%s %s (VERIF_REPO=worktree of /repo HEAD + patch, quick tier, seed 1)" % (m["id"], c),
    "result": "caught" if rc and rc.group(1) == "1" and "VIOLATION" in viol else "MISSED",
    "rc": int(rc.group(1)) if rc else None, "violation_lines": viol[:600],
    "verif_commit_before": head, "at": time.strftime("%Y-%m-%dT%H:%M:%S"), "note": note})
json.dump(m, open(mp, "w"), indent=1)
