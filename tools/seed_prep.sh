#!/bin/bash
# usage: tools/seed_prep.sh <Cxx> [tag]  -> creates /tmp/seedwork/<Cxx><tag>/{wt (worktree of /repo HEAD), property.txt, out/}
set -u
id=$1; tag=${2:-}
d=/tmp/seedwork/$id$tag
mkdir -p $d/out
git -C /repo worktree remove --force $d/wt 2>/dev/null
git -C /repo worktree add -q --detach $d/wt HEAD || exit 2
python3 - "$id" > $d/property.txt <<'PY'
import json,sys
for l in open('/verif/properties.jsonl'):
    p=json.loads(l)
    if p['id']==sys.argv[1]:
        print("Property %s: %s\n\nStatement: %s\n\nQuantified over: %s\n\nWhy tests cannot settle it: %s\n\nWhere it lives in the code (anchors):\n%s" % (
            p['id'],p['title'],p['statement'],p['quantifier']['text'],p.get('why_tests_cant',''),json.dumps(p['anchors'],indent=1)))
PY
echo $d
