#!/bin/bash
# usage: tools/run_par.sh [tier] [jobs] [ids...]  runs checks in parallel (jobs at a time), one line each
tier=${1:-quick}; jobs=${2:-4}; shift; shift
ids=${@:-$(ls manifest.d/C*.json | sed 's/.*\/\(C[0-9]*\).json/\1/')}
mkdir -p .cache/runall
export tier
printf '%s\n' $ids | xargs -P $jobs -I{} bash -c 's=$(date +%s); ./check {} --tier $tier > .cache/runall/{}.log 2>&1; rc=$?; e=$(date +%s); echo "{} rc=$rc wall=$((e-s))s $(grep -c "^VIOLATION" .cache/runall/{}.log) violations; $(grep -h "^KNOWN-FINDING\|^VIOLATION" .cache/runall/{}.log | cut -c1-160 | head -3 | tr "\n" "|")"'
