#!/bin/bash
# usage: tools/ingest_seed.sh <Cxx> <k> [extra check ids...]
# takes /tmp/seedwork/<Cxx>/out/<k>/{patch.diff,demo.rs,notes.md}, confirms it (verify_seed.sh), copies it to
# seeded/<Cxx>-s<k>/, runs the property's check (and extra ones) against it (try_seed.sh), writes meta.json.
set -u
dir=$1; k=$2; shift; shift; extra="$@"
id=${dir:0:3}          # property id; the directory may carry a wave tag (C03b)
src=/tmp/seedwork/$dir/out/$k
name=$id-s${dir:3}$k
dst=$(dirname "$0")/../seeded/$name
dst=$(readlink -f "$dst" || echo "$dst")
demo=demo.rs; [ -d "$src/demo" ] && demo=demo
[ -f "$src/patch.diff" ] && [ -e "$src/$demo" ] || { echo "$name: missing patch.diff/demo"; exit 2; }
mkdir -p "$dst"
cp -r "$src/patch.diff" "$src/$demo" "$dst/"; rm -rf "$dst/demo/target"; [ -f "$src/notes.md" ] && cp "$src/notes.md" "$dst/"
cd "$(dirname "$0")/.."
tools/verify_seed.sh "$dst/patch.diff" "$dst/$demo" "$dst" > "$dst/verify.out" 2>&1; vr=$?
rm -f "$dst/suite.log"
echo "$name verify_result=$vr"
python3 - "$dst" "$id" "$name" "$vr" <<'PY'
import json,sys,os
dst,pid,name,vr=sys.argv[1:5]
log=open(os.path.join(dst,"verify.log")).read().split("\n") if os.path.exists(os.path.join(dst,"verify.log")) else []
keep=[l for l in log if l.startswith(("demo_","patch_","suite=","verify_result"))]
notes=open(os.path.join(dst,"notes.md")).read() if os.path.exists(os.path.join(dst,"notes.md")) else ""
meta={"property":pid,"id":name,"origin":"independent sub-agent given only the property text and a scratch worktree of /repo (nothing from /verif)",
      "needs_to_manifest":"see notes.md","summary":notes.strip().split("\n")[0][:200],
      "confirmed_by_lead":{"cmd":"tools/verify_seed.sh patch.diff demo.rs (demo without patch passes, with patch fails, 448-test suite passes with patch)","result":keep,"ok":vr=="0"},
      "checks_run":[]}
json.dump(meta,open(os.path.join(dst,"meta.json"),"w"),indent=1)
PY
[ $vr -eq 0 ] || { echo "$name: NOT CONFIRMED (see $dst/verify.log)"; exit 1; }
for c in $id $extra; do
  line=$(tools/try_seed.sh "$dst" $c | tail -1)
  echo "$line"
  python3 tools/record_try.py "$dst" "$c" "$line"
done
