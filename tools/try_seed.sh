#!/bin/bash
# usage: tools/try_seed.sh <seeded/ID> [check ids...]   applies seeded/ID/patch.diff to a scratch worktree of /repo HEAD and
# runs the given checks (default: the property named in meta.json) against it via VERIF_REPO. Prints one line per check.
set -u
sd=$(readlink -f "$1"); shift
name=$(basename "$sd")
ids=${@:-$(python3 -c "import json,sys;print(json.load(open('$sd/meta.json'))['property'])")}
wt=/tmp/ts/$name
mkdir -p /tmp/ts; git -C /repo worktree remove --force "$wt" 2>/dev/null
git -C /repo worktree add -q --detach "$wt" HEAD || exit 2
if ! git -C "$wt" apply "$sd/patch.diff"; then echo "$name: PATCH DOES NOT APPLY to /repo HEAD"; git -C /repo worktree remove --force "$wt"; exit 3; fi
cd "$(dirname "$0")/.."
mkdir -p .cache/tryseed
for id in $ids; do
  s=$(date +%s)
  VERIF_REPO=$wt ./check $id --tier quick > .cache/tryseed/$name.$id.log 2>&1; rc=$?
  e=$(date +%s)
  echo "$name check=$id rc=$rc wall=$((e-s))s :: $(grep -h '^VIOLATION' .cache/tryseed/$name.$id.log | head -2 | tr '\n' '|')"
  for r in $(grep -h '^VIOLATION' .cache/tryseed/$name.$id.log | sed 's/.*replay=\([^ ]*\).*/\1/'); do [ -f "$r" ] && mkdir -p .cache/tryseed/replays && mv "$r" .cache/tryseed/replays/$name.$(basename $r); done
done
git -C /repo worktree remove --force "$wt"
h=$(python3 -c "import hashlib;print(hashlib.sha1('$wt'.encode()).hexdigest()[:10])")
rm -rf .cache/alt-$h
