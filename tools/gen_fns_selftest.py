"""Self-test of tools/gen_fns.py (run by hand: `python3 tools/gen_fns.py --selftest`; not part of any check).

Literal Rust snippets -> expected Gallina (whitespace-normalised), plus snippets that must be rejected and the
check that every function of WANT is mentioned by at least one proof file coq/Gen/Fns*P.v."""
import glob
import os
import re
import shutil
import tempfile

import gen_fns

RUST = r'''
struct Pt { a: u32, b: Option<u64> }

impl Pt {
    fn sum(&self, k: u64) -> u64 {
        u64::from(self.a) * k + self.b.unwrap_or(7)
    }
    fn make(a: u32) -> Self {
        assert!(a > 0, "message {}", a);
        Self { a, b: None }
    }
}

struct Holder { width: Option<usize>, n: usize }
impl Holder {
    fn need(&self, extra: usize) -> usize {
        if let Some(w) = self.width { w * self.n + extra } else { extra }
    }
}

fn mutate(x: usize, o: Option<usize>) -> usize {
    // comment with a brace {
    let mut r = 0x10;
    if o.is_none() {
        r += x * size_of::<u32>();
    }
    r -= 1;
    r
}

fn early(x: u64, y: u64) -> u64 {
    if x > y {
        return x - y;
    }
    let d = y - x;
    match d { 0 => 1, 1..=9 => 2, n => n / 10 }
}

fn shifts(x: u64, s: u8) -> u32 {
    debug_assert!(s < 64);
    let y = (x << s) | (x >> 3) & 0b1111_0000;
    let t: u32 = y.try_into().unwrap();
    (t as u8) as u32 + u32::try_from(x % 1_000).unwrap()
}

fn sink(n: usize, out: &mut Vec<u8>) {
    if n < 10 { out.push(n.try_into().unwrap()); } else { let v: u16 = n.try_into().unwrap(); out.extend_from_slice(&v.to_le_bytes()); }
}

fn res(x: u64) -> Result<u64> {
    if x == 0 { return Err(Bad::Thing(format!("x = {x}"))); }
    Ok(x.div_ceil(8).min(5))
}

enum Kind { Inline, Tree, Other }
enum Payload { A, B(u32) }

impl From<u8> for Kind {
    fn from(value: u8) -> Self {
        match value {
            1 => Inline,
            3 | 4 => Kind::Tree,
            _ => unreachable!(),
        }
    }
}

impl Kind {
    fn to_byte(&self) -> u8 {
        match self { Kind::Inline => 1, Kind::Tree => 3, Kind::Other => 9 }
    }
    fn is_tree(&self) -> bool { matches!(self, Kind::Tree | Kind::Other) }
}

fn get_u32(data: &[u8]) -> u32 {
    u32::from_le_bytes(data[..size_of::<u32>()].try_into().unwrap())
}

fn field(data: &[u8], n: usize) -> Option<u32> {
    if n >= 4 {
        return None;
    }
    let off = 4 + 4 * n;
    let end = u32::from_le_bytes(data.get(off..(off + 4))?.try_into().unwrap());
    Some(end + u32::from(data[0]))
}

fn two(data: &[u8]) -> Option<(u32, u32)> { Some((field(data, 0)?, field(data, 1)?)) }

fn sum(data: &[u8], n: usize) -> u64 {
    let mut acc = 0u64;
    for i in 0..n {
        acc += u64::from(data[i]);
    }
    acc
}

fn cmp2(a: u64, b: u64, c: u32, d: u32) -> Ordering {
    match a.cmp(&b) {
        Ordering::Less => Ordering::Less,
        Ordering::Equal => c.cmp(&d),
        core::cmp::Ordering::Greater => Ordering::Greater,
    }
}

fn horizon(o: Option<u64>, id: u64) -> u64 { o.map_or(id, |x| x + 1) }

fn write(a: u64, flag: bool) -> [u8; 2 * size_of::<u64>()] {
    let mut result = [0u8; 2 * size_of::<u64>()];
    result[..size_of::<u64>()].copy_from_slice(&a.to_le_bytes());
    result[15] = u8::from(flag);
    result
}

fn bad_loop(x: u64) -> u64 { let mut r = 0; loop { r += 1; } }
fn bad_for(v: &[u8]) -> u64 { let mut r = 0; for b in v.iter() { r += 1; } r }
fn bad_q(x: u64) -> Option<u64> { if x > 1 && res(x)? > 2 { Some(1) } else { None } }
fn bad_q2(x: u64) -> u64 { res(x)? + 1 }
fn bad_call(x: u64) -> u64 { unknown_fn(x) }
fn bad_index(v: u64) -> u64 { v[0] }
fn bad_enum(p: Payload) -> u8 { match p { Payload::A => 1, _ => 2 } }
fn bad_closure(o: Option<u64>) -> u64 { let f = |x| x + 1; f(2) }
'''

EXPECT = {
    "Pt_sum": "(((Pt_f_a self) * k) + (unwrap_or (Pt_f_b self) 7))",
    "Pt_make": "(mkPt a None)",
    "Pt_make_guard": "let g_ := true in let g_ := (andb g_ (0 <? a)) in g_",
    "Holder_need": "(match self_width with | Some w => ((w * self_n) + extra) | None => extra end)",
    "mutate": "let r := 16 in let r := (if (isNone o) then let r := (r + (x * 4)) in r else r) in "
              "let r := (r - 1) in r",
    "early": "(if (y <? x) then (x - y) else let d := (y - x) in (if (d =? 0) then 1 else "
             "if (andb (1 <=? d) (d <=? 9)) then 2 else let n := d in (n / 10)))",
    "shifts": "let y := (N.lor ((N.shiftl x s) mod 18446744073709551616) (N.land (N.shiftr x 3) 240)) in "
              "let t := y in ((t mod 256) + (x mod 1000))",
    "shifts_guard": "let g_ := true in let g_ := (andb g_ (s <? 64)) in "
                    "let y := (N.lor ((N.shiftl x s) mod 18446744073709551616) (N.land (N.shiftr x 3) 240)) in "
                    "let g_ := (andb g_ (y <? 4294967296)) in let t := y in "
                    "let g_ := (andb g_ ((x mod 1000) <? 4294967296)) in g_",
    "sink": "(if (n <? 10) then let out := (out ++ [n]) in out else let v := n in "
            "let out := (out ++ le_encode 2%nat v) in out)",
    "res": "(if (x =? 0) then None else (Some (N.min (div_ceil x 8) 5)))",
    # wave 2: enums, byte slices, `?`, `for`, Ordering, closures in map_or, writes into a byte buffer
    "Kind_from": "(if (value =? 1) then Kind_Inline else if (orb (value =? 3) (value =? 4)) then Kind_Tree else Kind_Inline)",
    "Kind_from_guard": "let g_ := true in (if (value =? 1) then g_ else if (orb (value =? 3) (value =? 4)) then g_ else "
                       "let g_ := (andb g_ false) in g_)",
    "Kind_to_byte": "(match self with | Kind_Inline => 1 | Kind_Tree => 3 | Kind_Other => 9 end)",
    "Kind_is_tree": "(match self with Kind_Tree | Kind_Other => true | _ => false end)",
    "get_u32": "(le_decode (slice_to data 4))",
    "get_u32_guard": "let g_ := true in let g_ := (andb g_ (4 <=? slen data)) in "
                     "let g_ := (andb g_ (slen (slice_to data 4) =? 4)) in g_",
    "field": "(if (4 <=? n) then None else let off := (4 + (4 * n)) in match (slice_get data off (off + 4)) with "
             "| Some q1_ => let end_ := (le_decode q1_) in (Some (end_ + (byte_at data 0))) | None => None end)",
    "two": "match (field data 0) with | Some q1_ => match (field data 1) with | Some q2_ => (Some (q1_, q2_)) "
           "| None => None end | None => None end",
    "sum": "let acc := 0 in let acc := for_range 0 n (fun i acc => let acc := (acc + (byte_at data i)) in acc) acc in acc",
    "sum_guard": "let g_ := true in let acc := 0 in let '(acc, g_) := for_range 0 n (fun i st_ => let '(acc, g_) := st_ in "
                 "let g_ := (andb g_ (i <? slen data)) in let acc := (acc + (byte_at data i)) in (acc, g_)) (acc, g_) in g_",
    "cmp2": "(match (a ?= b) with | Lt => Lt | Eq => (c ?= d) | Gt => Gt end)",
    "horizon": "(match o with Some x => (x + 1) | None => id end)",
    "write": "let result := (rep 0 (2 * 8)) in let result := (splice result 0 (le_encode 8%nat a)) in "
             "let result := (set_byte result 15 (b2n flag)) in result",
}
REJECT = {"bad_loop": "loop statement", "bad_for": "not a range", "bad_q": "cannot be hoisted",
          "bad_q2": "does not return Option/Result", "bad_call": "unknown_fn", "bad_index": "indexing a value of type",
          "bad_enum": "type outside the translated subset", "bad_closure": "closure"}


def norm(s):
    return " ".join(s.replace("\n", " ").split())


def run():
    tmp = tempfile.mkdtemp(prefix="gen_fns_selftest")
    ok = True
    try:
        os.makedirs(os.path.join(tmp, "src"))
        with open(os.path.join(tmp, "src", "t.rs"), "w") as fh:
            fh.write(RUST)
        want = [("src/t.rs", q, {}) for q in
                ["Pt::sum", "Pt::make", "Holder::need", "mutate", "early", "shifts", "sink", "res"]]
        want += [("src/t.rs", "Kind::from", {"trait": "From<u8>"})]
        want += [("src/t.rs", q, {}) for q in
                 ["Kind::to_byte", "Kind::is_tree", "get_u32", "field", "two", "sum", "cmp2", "horizon", "write"]]
        want += [("src/t.rs", q, {}) for q in REJECT]
        body, errors = gen_fns.generate(tmp, want=want, structs=[("src/t.rs", "Pt")],
                                        enums=[("src/t.rs", "Kind"), ("src/t.rs", "Payload")])
        if not any("Payload" in e and "not a unit variant" in e for e in errors):
            ok = False
            print("selftest FAIL enum Payload (a variant with a payload) should be rejected; errors: %s" % errors)
        else:
            print("selftest ok   enum Payload rejected: variant with a payload")
        defs = {}
        for m in re.finditer(r"^Definition (\w+)[^\n]*:=\n(.*?)\.\n(?=Definition|\n|$)", body, flags=re.M | re.S):
            defs[m.group(1)] = norm(m.group(2))
        for name, exp in EXPECT.items():
            got = defs.get(name)
            if got != norm(exp):
                ok = False
                print("selftest FAIL %s\n   expected: %s\n   got:      %s" % (name, norm(exp), got))
            else:
                print("selftest ok   %s" % name)
        for name, needle in REJECT.items():
            hit = [e for e in errors if ("fn %s:" % name) in e and needle in e]
            if name in defs or not hit:
                ok = False
                print("selftest FAIL %s should be rejected mentioning %r; errors: %s" % (name, needle, errors))
            else:
                print("selftest ok   %s rejected: %s" % (name, hit[0].split("subset: ")[-1][:70]))
    finally:
        shutil.rmtree(tmp, ignore_errors=True)
    # every generated function of the real WANT list is mentioned in some proof file
    proofs = ""
    for p in glob.glob(os.path.join(gen_fns.COQDIR, "Gen", "Fns*P.v")):
        proofs += open(p).read()
    for rel, qual, opts in gen_fns.WANT:
        name = opts.get("name", qual.replace("::", "_"))
        if not re.search(r"\b%s\b" % re.escape(name), proofs):
            ok = False
            print("selftest FAIL no lemma in coq/Gen/Fns*P.v mentions %s" % name)
    print("selftest", "PASSED" if ok else "FAILED")
    return 0 if ok else 1
