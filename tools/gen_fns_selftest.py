"""Self-test of tools/gen_fns.py (run by hand: `python3 tools/gen_fns.py --selftest`; not part of any check).

Literal Rust snippets -> expected Gallina (whitespace-normalised), plus snippets that must be rejected and the
check that every function of WANT is mentioned by at least one proof file coq/Gen/Fns*P.v."""
import glob
import os
import re
import shutil
import tempfile

import gen_fns

RUST = r'''
struct Pt { a: u32, b: Option<u64> }

impl Pt {
    fn sum(&self, k: u64) -> u64 {
        u64::from(self.a) * k + self.b.unwrap_or(7)
    }
    fn make(a: u32) -> Self {
        assert!(a > 0, "message {}", a);
        Self { a, b: None }
    }
}

struct Holder { width: Option<usize>, n: usize }
impl Holder {
    fn need(&self, extra: usize) -> usize {
        if let Some(w) = self.width { w * self.n + extra } else { extra }
    }
}

fn mutate(x: usize, o: Option<usize>) -> usize {
    // comment with a brace {
    let mut r = 0x10;
    if o.is_none() {
        r += x * size_of::<u32>();
    }
    r -= 1;
    r
}

fn early(x: u64, y: u64) -> u64 {
    if x > y {
        return x - y;
    }
    let d = y - x;
    match d { 0 => 1, 1..=9 => 2, n => n / 10 }
}

fn shifts(x: u64, s: u8) -> u32 {
    debug_assert!(s < 64);
    let y = (x << s) | (x >> 3) & 0b1111_0000;
    let t: u32 = y.try_into().unwrap();
    (t as u8) as u32 + u32::try_from(x % 1_000).unwrap()
}

fn sink(n: usize, out: &mut Vec<u8>) {
    if n < 10 { out.push(n.try_into().unwrap()); } else { let v: u16 = n.try_into().unwrap(); out.extend_from_slice(&v.to_le_bytes()); }
}

fn res(x: u64) -> Result<u64> {
    if x == 0 { return Err(Bad::Thing(format!("x = {x}"))); }
    Ok(x.div_ceil(8).min(5))
}

fn bad_loop(x: u64) -> u64 { let mut r = 0; for i in 0..x { r += i; } r }
fn bad_q(x: u64) -> Result<u64> { Ok(res(x)? + 1) }
fn bad_call(x: u64) -> u64 { unknown_fn(x) }
fn bad_index(v: &[u8]) -> u8 { v[0] }
'''

EXPECT = {
    "Pt_sum": "(((Pt_f_a self) * k) + (unwrap_or (Pt_f_b self) 7))",
    "Pt_make": "(mkPt a None)",
    "Pt_make_guard": "let g_ := true in let g_ := (andb g_ (0 <? a)) in g_",
    "Holder_need": "(match self_width with | Some w => ((w * self_n) + extra) | None => extra end)",
    "mutate": "let r := 16 in let r := (if (isNone o) then let r := (r + (x * 4)) in r else r) in "
              "let r := (r - 1) in r",
    "early": "(if (y <? x) then (x - y) else let d := (y - x) in (if (d =? 0) then 1 else "
             "if (andb (1 <=? d) (d <=? 9)) then 2 else let n := d in (n / 10)))",
    "shifts": "let y := (N.lor ((N.shiftl x s) mod 18446744073709551616) (N.land (N.shiftr x 3) 240)) in "
              "let t := y in ((t mod 256) + (x mod 1000))",
    "shifts_guard": "let g_ := true in let g_ := (andb g_ (s <? 64)) in "
                    "let y := (N.lor ((N.shiftl x s) mod 18446744073709551616) (N.land (N.shiftr x 3) 240)) in "
                    "let g_ := (andb g_ (y <? 4294967296)) in let t := y in "
                    "let g_ := (andb g_ ((x mod 1000) <? 4294967296)) in g_",
    "sink": "(if (n <? 10) then let out := (out ++ [n]) in out else let v := n in "
            "let out := (out ++ le_encode 2%nat v) in out)",
    "res": "(if (x =? 0) then None else (Some (N.min (div_ceil x 8) 5)))",
}
REJECT = {"bad_loop": "loop statement", "bad_q": "`?` operator", "bad_call": "unknown_fn", "bad_index": "indexing"}


def norm(s):
    return " ".join(s.replace("\n", " ").split())


def run():
    tmp = tempfile.mkdtemp(prefix="gen_fns_selftest")
    ok = True
    try:
        os.makedirs(os.path.join(tmp, "src"))
        with open(os.path.join(tmp, "src", "t.rs"), "w") as fh:
            fh.write(RUST)
        want = [("src/t.rs", q, {}) for q in
                ["Pt::sum", "Pt::make", "Holder::need", "mutate", "early", "shifts", "sink", "res"]]
        want += [("src/t.rs", q, {}) for q in REJECT]
        body, errors = gen_fns.generate(tmp, want=want, structs=[("src/t.rs", "Pt")])
        defs = {}
        for m in re.finditer(r"^Definition (\w+)[^\n]*:=\n(.*?)\.\n(?=Definition|\n|$)", body, flags=re.M | re.S):
            defs[m.group(1)] = norm(m.group(2))
        for name, exp in EXPECT.items():
            got = defs.get(name)
            if got != norm(exp):
                ok = False
                print("selftest FAIL %s\n   expected: %s\n   got:      %s" % (name, norm(exp), got))
            else:
                print("selftest ok   %s" % name)
        for name, needle in REJECT.items():
            hit = [e for e in errors if ("fn %s:" % name) in e and needle in e]
            if name in defs or not hit:
                ok = False
                print("selftest FAIL %s should be rejected mentioning %r; errors: %s" % (name, needle, errors))
            else:
                print("selftest ok   %s rejected: %s" % (name, hit[0].split("subset: ")[-1][:70]))
    finally:
        shutil.rmtree(tmp, ignore_errors=True)
    # every generated function of the real WANT list is mentioned in some proof file
    proofs = ""
    for p in glob.glob(os.path.join(gen_fns.COQDIR, "Gen", "Fns*P.v")):
        proofs += open(p).read()
    for rel, qual, opts in gen_fns.WANT:
        name = opts.get("name", qual.replace("::", "_"))
        if not re.search(r"\b%s\b" % re.escape(name), proofs):
            ok = False
            print("selftest FAIL no lemma in coq/Gen/Fns*P.v mentions %s" % name)
    print("selftest", "PASSED" if ok else "FAILED")
    return 0 if ok else 1
