//! Forced-schedule machinery for C03 / C16 (and the concurrent part of C02).
//!
//! Logical threads are OS worker threads that execute one *call* (a closure) at a time. While a
//! call runs, redb's H4 pause points (`redb::verif::pause`) report to the `Controller`; at every
//! point of the blocking alphabet the worker stops until the scheduler (the main thread) grants the
//! next step. Exactly one logical thread runs at any moment, except a thread that redb itself has
//! put to sleep (begin_write waiting for the write slot), so an execution is a function of the grant
//! sequence: no wall clock, no free running. A timeout exists only to turn a deadlock into a report.

use redb::StorageBackend;
use std::cell::Cell;
use std::collections::BTreeSet;
use std::io;
use std::sync::atomic::{AtomicBool, AtomicU64, Ordering};
use std::sync::{Arc, Condvar, Mutex};
use std::time::Duration;

thread_local! {
    static TID: Cell<Option<usize>> = const { Cell::new(None) };
}

pub const HANG_TIMEOUT: Duration = Duration::from_secs(90);

#[derive(Clone, Debug, PartialEq, Eq)]
pub enum Event {
    /// stopped at a pause point of the blocking alphabet
    At(String),
    /// redb put the thread to sleep inside begin_write (note point `T.start_write.wait!`)
    Blocked,
    /// the call returned; payload is the call's textual result
    Done(String),
    /// no event within HANG_TIMEOUT
    Hung,
}

#[derive(Default)]
struct Slot {
    /// set by the worker when it has something to report, taken by the scheduler
    event: Option<Event>,
    /// scheduler -> worker: proceed past the current pause point
    granted: bool,
    /// currently stopped at a pause point
    at_pause: bool,
    /// every pause-point name seen during the current call (blocking or not)
    trace: Vec<String>,
    /// the thread is inside redb's commit flush window (see io_sync)
    flush_window: bool,
    job: Option<Box<dyn FnOnce() -> String + Send>>,
    quit: bool,
    busy: bool,
}

pub struct Controller {
    slots: Vec<Mutex<Slot>>,
    cvs: Vec<Condvar>,
    /// names at which a managed thread stops; everything else is recorded only
    blocking: Mutex<BTreeSet<String>>,
    pub sync_pauses: AtomicBool,
}

impl redb::verif::PauseController for Controller {
    fn at(&self, point: &'static str) {
        self.reach(point);
    }
}

impl Controller {
    pub fn new(nthreads: usize, blocking: &[&str]) -> Arc<Self> {
        Arc::new(Controller {
            slots: (0..nthreads).map(|_| Mutex::new(Slot::default())).collect(),
            cvs: (0..nthreads).map(|_| Condvar::new()).collect(),
            blocking: Mutex::new(blocking.iter().map(|s| s.to_string()).collect()),
            sync_pauses: AtomicBool::new(true),
        })
    }

    pub fn install(self: &Arc<Self>) {
        redb::verif::set_pause_controller(Some(self.clone() as Arc<dyn redb::verif::PauseController>));
    }

    pub fn uninstall() {
        redb::verif::set_pause_controller(None);
    }

    pub fn set_blocking(&self, names: &[&str]) {
        *self.blocking.lock().unwrap() = names.iter().map(|s| s.to_string()).collect();
    }

    /// called (through the hook, or by the backend for `io.sync`) on the thread that reached `point`
    pub fn reach(&self, point: &str) {
        let Some(tid) = TID.with(|t| t.get()) else { return };
        let mut s = self.slots[tid].lock().unwrap();
        if !s.busy {
            return;
        }
        s.trace.push(point.to_string());
        match point {
            "X.commit.flush2pc" | "X.commit.flush" => s.flush_window = true,
            "X.commit.swap" | "U.clear" => s.flush_window = false,
            _ => {}
        }
        if point.ends_with('!') {
            // reached with a redb mutex held: report, never stop
            s.event = Some(Event::Blocked);
            self.cvs[tid].notify_all();
            return;
        }
        if !self.blocking.lock().unwrap().contains(point) {
            return;
        }
        s.at_pause = true;
        s.granted = false;
        s.event = Some(Event::At(point.to_string()));
        self.cvs[tid].notify_all();
        while !s.granted {
            s = self.cvs[tid].wait(s).unwrap();
        }
        s.at_pause = false;
    }

    /// backend hook: a `sync_data` issued from inside mem.commit's flush window is a step boundary
    pub fn io_sync(&self) {
        let Some(tid) = TID.with(|t| t.get()) else { return };
        let inside = {
            let s = self.slots[tid].lock().unwrap();
            s.busy && s.flush_window
        };
        if inside && self.sync_pauses.load(Ordering::SeqCst) {
            self.reach("io.sync");
        }
    }

    fn worker(self: Arc<Self>, tid: usize) {
        TID.with(|t| t.set(Some(tid)));
        loop {
            let job = {
                let mut s = self.slots[tid].lock().unwrap();
                loop {
                    if s.quit {
                        return;
                    }
                    if s.job.is_some() && s.granted {
                        break;
                    }
                    s = self.cvs[tid].wait(s).unwrap();
                }
                s.granted = false;
                s.busy = true;
                s.flush_window = false;
                s.job.take().unwrap()
            };
            let r = match std::panic::catch_unwind(std::panic::AssertUnwindSafe(job)) {
                Ok(v) => v,
                Err(e) => {
                    let msg = if let Some(s) = e.downcast_ref::<&str>() {
                        (*s).to_string()
                    } else if let Some(s) = e.downcast_ref::<String>() {
                        s.clone()
                    } else {
                        "?".to_string()
                    };
                    format!("PANIC({})", msg.replace('\n', " "))
                }
            };
            let mut s = self.slots[tid].lock().unwrap();
            s.busy = false;
            s.event = Some(Event::Done(r));
            self.cvs[tid].notify_all();
        }
    }

    pub fn spawn_workers(self: &Arc<Self>) -> Vec<std::thread::JoinHandle<()>> {
        (0..self.slots.len())
            .map(|tid| {
                let me = self.clone();
                std::thread::Builder::new()
                    .name(format!("lt{tid}"))
                    .stack_size(8 << 20)
                    .spawn(move || me.worker(tid))
                    .unwrap()
            })
            .collect()
    }

    pub fn shutdown(&self) {
        for (i, m) in self.slots.iter().enumerate() {
            let mut s = m.lock().unwrap();
            s.quit = true;
            s.granted = true;
            self.cvs[i].notify_all();
        }
    }

    /// hand a call to an idle logical thread; it does not start before the first `step`
    pub fn submit(&self, tid: usize, job: Box<dyn FnOnce() -> String + Send>) {
        let mut s = self.slots[tid].lock().unwrap();
        assert!(s.job.is_none() && !s.busy, "thread {tid} is not idle");
        s.trace.clear();
        s.event = None;
        s.granted = false;
        s.job = Some(job);
    }

    /// let `tid` run until its next event
    pub fn step(&self, tid: usize) -> Event {
        {
            let mut s = self.slots[tid].lock().unwrap();
            assert!(s.job.is_some() || s.at_pause, "thread {tid} has nothing to run");
            s.event = None;
            s.granted = true;
            self.cvs[tid].notify_all();
        }
        self.await_event(tid)
    }

    /// let `tid` run WITHOUT waiting for its next event (C16: the caller then polls `poll_event` and the OS state of
    /// the thread, to tell a thread that blocks on a mutex held by a stopped thread from one that is still running)
    pub fn grant(&self, tid: usize) {
        let mut s = self.slots[tid].lock().unwrap();
        assert!(s.job.is_some() || s.at_pause, "thread {tid} has nothing to run");
        s.event = None;
        s.granted = true;
        self.cvs[tid].notify_all();
    }

    /// wait for the next event of a thread that is running or was put to sleep by redb
    pub fn await_event(&self, tid: usize) -> Event {
        let mut s = self.slots[tid].lock().unwrap();
        loop {
            if let Some(e) = s.event.take() {
                return e;
            }
            let (g, to) = self.cvs[tid].wait_timeout(s, HANG_TIMEOUT).unwrap();
            s = g;
            if to.timed_out() && s.event.is_none() {
                return Event::Hung;
            }
        }
    }

    /// non-blocking: has the thread reported something since the last take?
    pub fn poll_event(&self, tid: usize) -> Option<Event> {
        self.slots[tid].lock().unwrap().event.take()
    }

    pub fn trace(&self, tid: usize) -> Vec<String> {
        self.slots[tid].lock().unwrap().trace.clone()
    }

    /// run a call to completion on `tid` with no interleaving; returns (result, blocking trace)
    pub fn run_call(&self, tid: usize, job: Box<dyn FnOnce() -> String + Send>) -> (Event, Vec<String>) {
        self.submit(tid, job);
        let mut steps = vec![];
        loop {
            match self.step(tid) {
                Event::At(p) => steps.push(p),
                e => return (e, steps),
            }
        }
    }
}

// ------------------------------------------------------------------------------------------------
// in-memory storage backend: sync_data reports to the controller and can be made to fail

#[derive(Debug, Default)]
pub struct MemFile {
    pub data: Mutex<Vec<u8>>,
    pub fail_syncs_from: AtomicU64,
    pub syncs: AtomicU64,
    pub closed: AtomicU64,
    pub max_len: AtomicU64,
}

pub struct ConcBackend {
    pub file: Arc<MemFile>,
    pub ctl: Option<Arc<Controller>>,
}

impl std::fmt::Debug for ConcBackend {
    fn fmt(&self, f: &mut std::fmt::Formatter<'_>) -> std::fmt::Result {
        f.write_str("ConcBackend")
    }
}

impl MemFile {
    pub fn new() -> Arc<Self> {
        let f = MemFile::default();
        f.fail_syncs_from.store(u64::MAX, Ordering::SeqCst);
        Arc::new(f)
    }
}

impl StorageBackend for ConcBackend {
    fn len(&self) -> io::Result<u64> {
        Ok(self.file.data.lock().unwrap().len() as u64)
    }
    fn read(&self, offset: u64, out: &mut [u8]) -> io::Result<()> {
        let d = self.file.data.lock().unwrap();
        let off = offset as usize;
        if off + out.len() > d.len() {
            return Err(io::Error::new(io::ErrorKind::InvalidInput, "read out of range"));
        }
        out.copy_from_slice(&d[off..off + out.len()]);
        Ok(())
    }
    fn set_len(&self, len: u64) -> io::Result<()> {
        self.file.data.lock().unwrap().resize(len as usize, 0);
        self.file.max_len.fetch_max(len, Ordering::SeqCst);
        Ok(())
    }
    fn sync_data(&self) -> io::Result<()> {
        if let Some(c) = &self.ctl {
            c.io_sync();
        }
        let k = self.file.syncs.fetch_add(1, Ordering::SeqCst);
        if k >= self.file.fail_syncs_from.load(Ordering::SeqCst) {
            return Err(io::Error::new(io::ErrorKind::Other, "injected sync failure"));
        }
        Ok(())
    }
    fn write(&self, offset: u64, data: &[u8]) -> io::Result<()> {
        let mut d = self.file.data.lock().unwrap();
        let off = offset as usize;
        if off + data.len() > d.len() {
            return Err(io::Error::new(io::ErrorKind::InvalidInput, "write out of range"));
        }
        d[off..off + data.len()].copy_from_slice(data);
        Ok(())
    }
    fn close(&self) -> io::Result<()> {
        self.file.closed.fetch_add(1, Ordering::SeqCst);
        Ok(())
    }
}
