//! Shared by the C08 and C20 harness binaries: a monitoring / fault-injecting storage backend, a small
//! API-history language with a specification model of the table contents, and a runner that executes
//! a history against the real crate while numbering every redb API call.
#![allow(dead_code)]

use redb::{
    Builder, Database, Durability, ReadableDatabase, ReadableTable, ReadableTableMetadata, Savepoint,
    StorageBackend, TableDefinition, WriteTransaction,
};
use rv_harness::{Rng, catch};
use std::collections::BTreeMap;
use std::fmt::Write as _;
use std::io;
use std::sync::{Arc, Mutex};

// ------------------------------------------------------------------------------------------------
// monitoring backend

#[derive(Clone, Copy, Debug, PartialEq, Eq, PartialOrd, Ord)]
pub enum Kind {
    Len = 0,
    Read = 1,
    Write = 2,
    SetLen = 3,
    Sync = 4,
    Close = 5,
}

impl Kind {
    pub fn name(self) -> &'static str {
        match self {
            Kind::Len => "len",
            Kind::Read => "read",
            Kind::Write => "write",
            Kind::SetLen => "set_len",
            Kind::Sync => "sync",
            Kind::Close => "close",
        }
    }
}

#[derive(Clone, Debug, PartialEq, Eq)]
pub struct Ev {
    pub kind: Kind,
    pub off: u64,
    pub len: u64,
    pub ok: bool,
    /// number of the redb API call in progress (u32::MAX = none / a drop)
    pub api: u32,
    /// global sequence number taken when the call ENTERED the backend method (before its lock)
    pub seq: u64,
    /// small id of the calling thread
    pub tid: u64,
}

#[derive(Clone, Copy, Debug, PartialEq, Eq)]
pub enum Fail {
    Never,
    /// the k-th counted call (len/read/write/set_len/sync; close is not counted) fails, later ones succeed
    Once(u64),
    /// the k-th counted call and every later one fail
    From(u64),
}

#[derive(Clone, Debug)]
pub enum Pending {
    Write(u64, Vec<u8>),
    SetLen(u64),
}

pub static ENTRY_SEQ: std::sync::atomic::AtomicU64 = std::sync::atomic::AtomicU64::new(1);
static NEXT_TID: std::sync::atomic::AtomicU64 = std::sync::atomic::AtomicU64::new(1);
std::thread_local! {
    static MY_TID: u64 = NEXT_TID.fetch_add(1, std::sync::atomic::Ordering::SeqCst);
}
pub fn my_tid() -> u64 {
    MY_TID.with(|t| *t)
}
pub fn entry_seq() -> u64 {
    ENTRY_SEQ.fetch_add(1, std::sync::atomic::Ordering::SeqCst)
}

pub struct MonState {
    /// entry sequence number of the call being recorded (set by the method before `enter`)
    pub cur_seq: u64,
    /// sequence number taken when close() returned (0 = not closed)
    pub close_exit_seq: u64,
    pub data: Vec<u8>,
    pub len0: u64,
    pub events: Vec<Ev>,
    pub calls: u64,
    pub fail: Fail,
    /// a failing write stores a prefix of its data (a torn, never acknowledged write)
    pub torn_fail: Option<u64>,
    pub closes: u32,
    pub calls_after_close: u32,
    pub oob: Vec<String>,
    pub cur_api: u32,
    /// image at the last successful sync and what was issued since (for crash images)
    pub track_pending: bool,
    pub synced: Vec<u8>,
    pub pending: Vec<Pending>,
    /// images right after every successful set_len: (event index, image)
    pub snapshot_setlen: bool,
    pub setlen_images: Vec<(usize, Vec<u8>)>,
    /// mirror backend calls into redb's latch log (verif_c08)
    pub latch_log: bool,
    /// close() itself reports an error (it still counts as the one close the contract asks for)
    pub fail_close: bool,
}

#[derive(Clone)]
pub struct MonBackend(pub Arc<Mutex<MonState>>);

impl std::fmt::Debug for MonBackend {
    fn fmt(&self, f: &mut std::fmt::Formatter<'_>) -> std::fmt::Result {
        f.write_str("MonBackend")
    }
}

impl MonBackend {
    pub fn new(data: Vec<u8>) -> Self {
        let len0 = data.len() as u64;
        MonBackend(Arc::new(Mutex::new(MonState {
            cur_seq: 0,
            close_exit_seq: 0,
            synced: data.clone(),
            data,
            len0,
            events: vec![],
            calls: 0,
            fail: Fail::Never,
            torn_fail: None,
            closes: 0,
            calls_after_close: 0,
            oob: vec![],
            cur_api: u32::MAX,
            track_pending: false,
            pending: vec![],
            snapshot_setlen: false,
            setlen_images: vec![],
            latch_log: false,
            fail_close: false,
        })))
    }
    /// a fresh backend object over the bytes this one holds now (a reopen hands redb a new object);
    /// the call counter and the failure mode carry over, the event list starts empty
    pub fn successor(&self) -> MonBackend {
        let g = self.lock();
        let n = MonBackend::new(g.data.clone());
        {
            let mut h = n.lock();
            h.calls = g.calls;
            h.fail = g.fail;
            h.torn_fail = g.torn_fail;
            h.track_pending = g.track_pending;
            h.synced = g.synced.clone();
            h.pending = g.pending.clone();
            h.snapshot_setlen = g.snapshot_setlen;
            h.latch_log = g.latch_log;
            h.fail_close = g.fail_close;
        }
        n
    }
    pub fn handle(&self) -> MonBackend {
        MonBackend(self.0.clone())
    }
    pub fn lock(&self) -> std::sync::MutexGuard<'_, MonState> {
        self.0.lock().unwrap_or_else(|e| e.into_inner())
    }
    pub fn image(&self) -> Vec<u8> {
        self.lock().data.clone()
    }
    pub fn set_api(&self, api: u32) {
        self.lock().cur_api = api;
    }
    fn enter(g: &mut MonState, kind: Kind, off: u64, len: u64) -> bool {
        if g.closes > 0 {
            g.calls_after_close += 1;
        }
        let k = g.calls;
        g.calls += 1;
        let fail = match g.fail {
            Fail::Never => false,
            Fail::Once(i) => k == i,
            Fail::From(i) => k >= i,
        };
        let api = g.cur_api;
        let seq = g.cur_seq;
        g.events.push(Ev { kind, off, len, ok: !fail, api, seq, tid: my_tid() });
        if g.latch_log {
            redb::verif_c08::latch_log_backend(kind as u8, !fail);
        }
        !fail
    }
    fn injected() -> io::Error {
        io::Error::other("injected failure")
    }
}

impl StorageBackend for MonBackend {
    fn len(&self) -> io::Result<u64> {
        let seq = entry_seq();
        let mut g = self.lock();
        g.cur_seq = seq;
        if !Self::enter(&mut g, Kind::Len, 0, 0) {
            return Err(Self::injected());
        }
        Ok(g.data.len() as u64)
    }
    fn read(&self, offset: u64, out: &mut [u8]) -> io::Result<()> {
        let seq = entry_seq();
        let mut g = self.lock();
        g.cur_seq = seq;
        let ok = Self::enter(&mut g, Kind::Read, offset, out.len() as u64);
        let end = offset.checked_add(out.len() as u64);
        if end.is_none() || end.unwrap() > g.data.len() as u64 {
            let m = format!("read {}+{} beyond len {}", offset, out.len(), g.data.len());
            g.oob.push(m);
            return Err(io::Error::new(io::ErrorKind::InvalidInput, "out of range"));
        }
        if !ok {
            return Err(Self::injected());
        }
        let off = offset as usize;
        out.copy_from_slice(&g.data[off..off + out.len()]);
        Ok(())
    }
    fn set_len(&self, len: u64) -> io::Result<()> {
        let seq = entry_seq();
        let mut g = self.lock();
        g.cur_seq = seq;
        if !Self::enter(&mut g, Kind::SetLen, len, 0) {
            return Err(Self::injected());
        }
        g.data.resize(len as usize, 0);
        if g.track_pending {
            g.pending.push(Pending::SetLen(len));
        }
        if g.snapshot_setlen {
            let idx = g.events.len() - 1;
            let img = g.data.clone();
            g.setlen_images.push((idx, img));
        }
        Ok(())
    }
    fn sync_data(&self) -> io::Result<()> {
        let seq = entry_seq();
        let mut g = self.lock();
        g.cur_seq = seq;
        if !Self::enter(&mut g, Kind::Sync, 0, 0) {
            return Err(Self::injected());
        }
        if g.track_pending {
            g.synced = g.data.clone();
            g.pending.clear();
        }
        Ok(())
    }
    fn write(&self, offset: u64, data: &[u8]) -> io::Result<()> {
        let seq = entry_seq();
        let mut g = self.lock();
        g.cur_seq = seq;
        let ok = Self::enter(&mut g, Kind::Write, offset, data.len() as u64);
        hdr_log_note(g.calls - 1, offset, data); // C08 S2 (add-only): bytes of header writes, inert unless started
        let end = offset.checked_add(data.len() as u64);
        if end.is_none() || end.unwrap() > g.data.len() as u64 {
            let m = format!("write {}+{} beyond len {}", offset, data.len(), g.data.len());
            g.oob.push(m);
            return Err(io::Error::new(io::ErrorKind::InvalidInput, "out of range"));
        }
        let off = offset as usize;
        if !ok {
            if let Some(t) = g.torn_fail {
                let n = (t as usize) % (data.len() + 1);
                g.data[off..off + n].copy_from_slice(&data[..n]);
                if g.track_pending {
                    g.pending.push(Pending::Write(offset, data[..n].to_vec()));
                }
            }
            return Err(Self::injected());
        }
        g.data[off..off + data.len()].copy_from_slice(data);
        if g.track_pending {
            g.pending.push(Pending::Write(offset, data.to_vec()));
        }
        Ok(())
    }
    fn close(&self) -> io::Result<()> {
        let seq = entry_seq();
        let mut g = self.lock();
        g.cur_seq = seq;
        if g.closes > 0 {
            g.calls_after_close += 1;
        }
        g.closes += 1;
        let api = g.cur_api;
        let seq = g.cur_seq;
        let ok = !g.fail_close;
        g.events.push(Ev { kind: Kind::Close, off: 0, len: 0, ok, api, seq, tid: my_tid() });
        if g.latch_log {
            redb::verif_c08::latch_log_backend(Kind::Close as u8, ok);
        }
        g.close_exit_seq = entry_seq();
        if ok { Ok(()) } else { Err(Self::injected()) }
    }
}

/// `T <id> <ro> <len0> <events...>` line for the extracted contract monitor (numbers in hex)
pub fn trace_line(id: &str, ro: bool, len0: u64, events: &[Ev]) -> String {
    let mut s = String::with_capacity(16 + events.len() * 10);
    write!(s, "T {} {} {:x}", id, ro as u8, len0).unwrap();
    for e in events {
        let r = if e.ok { '+' } else { '-' };
        match e.kind {
            Kind::Len => write!(s, " L{r}"),
            Kind::Read => write!(s, " R{:x}:{:x}{r}", e.off, e.len),
            Kind::Write => write!(s, " W{:x}:{:x}{r}", e.off, e.len),
            Kind::SetLen => write!(s, " S{:x}{r}", e.off),
            Kind::Sync => write!(s, " Y{r}"),
            Kind::Close => write!(s, " C{r}"),
        }
        .unwrap();
    }
    s
}

/// the harness' own (unverified) monitor, compared with the extracted one: (contract ok, prefix ok)
pub fn rust_monitor(ro: bool, len0: u64, events: &[Ev]) -> (bool, bool) {
    let mut len = len0;
    let mut closed = false;
    for e in events {
        if closed {
            return (false, false);
        }
        match e.kind {
            Kind::Len => {}
            Kind::Read => {
                if e.off.checked_add(e.len).is_none_or(|x| x > len) {
                    return (false, false);
                }
            }
            Kind::Write => {
                if ro || e.off.checked_add(e.len).is_none_or(|x| x > len) {
                    return (false, false);
                }
            }
            Kind::SetLen => {
                if ro {
                    return (false, false);
                }
                if e.ok {
                    len = e.off;
                }
            }
            Kind::Sync => {
                if ro {
                    return (false, false);
                }
            }
            Kind::Close => closed = true,
        }
    }
    (closed, true)
}

// ------------------------------------------------------------------------------------------------
// specification model of the contents + history language

pub const TABLES: [&str; 3] = ["t0", "t1", "t2"];
pub fn tdef(t: u8) -> TableDefinition<'static, u64, &'static [u8]> {
    TableDefinition::new(TABLES[t as usize])
}

/// (table, key) -> value
pub type Contents = BTreeMap<(u8, u64), Vec<u8>>;

pub fn value_for(k: u64, ver: u32, vlen: u32) -> Vec<u8> {
    let mut v = Vec::with_capacity(vlen as usize + 12);
    v.extend_from_slice(&k.to_le_bytes());
    v.extend_from_slice(&ver.to_le_bytes());
    let mut x = k.wrapping_mul(0x9E37_79B9_7F4A_7C15) ^ u64::from(ver);
    for _ in 0..vlen {
        x = x.wrapping_mul(6364136223846793005).wrapping_add(1442695040888963407);
        v.push((x >> 33) as u8);
    }
    v
}

pub fn digest(c: &Contents) -> String {
    // FNV over the canonical listing; plus the count, so that replays stay small
    let mut h: u64 = 0xcbf29ce484222325;
    let mut eat = |b: u8| {
        h ^= u64::from(b);
        h = h.wrapping_mul(0x100000001b3);
    };
    for ((t, k), v) in c {
        eat(*t);
        for b in k.to_le_bytes() {
            eat(b);
        }
        for b in (v.len() as u32).to_le_bytes() {
            eat(b);
        }
        for b in v {
            eat(*b);
        }
    }
    format!("{}:{:016x}", c.len(), h)
}

#[derive(Clone, Debug)]
pub enum TOp {
    Insert { t: u8, k: u64, vlen: u32 },
    Remove { t: u8, k: u64 },
    Get { t: u8, k: u64 },
    DeleteTable { t: u8 },
}

#[derive(Clone, Copy, Debug, PartialEq, Eq)]
pub enum End {
    Commit,
    Abort,
    Drop,
}

#[derive(Clone, Copy, Debug, PartialEq, Eq)]
pub enum Sp {
    None,
    /// take an ephemeral savepoint at the start of the transaction (kept in the runner)
    Ephemeral,
    /// restore the i-th kept ephemeral savepoint (mod count) at the start
    Restore(u8),
    /// drop the i-th kept ephemeral savepoint before the transaction
    Forget(u8),
    /// create a persistent savepoint (forces Immediate durability)
    Persistent,
    /// delete the oldest persistent savepoint
    DeletePersistent,
}

#[derive(Clone, Debug)]
pub enum HOp {
    Write { durable: bool, two_phase: bool, quick_repair: bool, sp: Sp, ops: Vec<TOp>, end: End },
    ReadAll,
    HoldRead,
    ReleaseRead,
    Compact,
    CheckIntegrity,
    Reopen,
}

#[derive(Clone, Debug)]
pub struct Config {
    pub page_size: usize,
    pub region_size: u64,
    pub cache_size: usize,
}

#[derive(Clone, Debug)]
pub struct History {
    pub cfg: Config,
    pub ops: Vec<HOp>,
}

pub fn gen_history(rng: &mut Rng, n_ops: usize, allow_reopen: bool) -> History {
    let page_size = *rng.pick(&[512usize, 512, 1024, 4096]);
    // regions of 32..256 pages
    let region_size = (page_size as u64) * *rng.pick(&[32u64, 64, 128, 256]);
    let cache_size = *rng.pick(&[0usize, 4096, 16 * 1024, 64 * 1024, 1024 * 1024]);
    let cfg = Config { page_size, region_size, cache_size };
    let mut ops = vec![];
    let key_space = *rng.pick(&[8u64, 64, 400]);
    for _ in 0..n_ops {
        let r = rng.below(100);
        let op = if r < 66 {
            let durable = !rng.chance(1, 3);
            let two_phase = rng.chance(1, 3);
            let quick_repair = rng.chance(1, 5);
            let sp = match rng.below(24) {
                0 | 1 => Sp::Ephemeral,
                2 | 3 => Sp::Restore(rng.below(4) as u8),
                4 => Sp::Forget(rng.below(4) as u8),
                5 => Sp::Persistent,
                6 => Sp::DeletePersistent,
                _ => Sp::None,
            };
            let shape = rng.below(10);
            let n = match shape {
                0 => 0,
                1..=5 => rng.range(1, 6),
                6 | 7 => rng.range(10, 40),
                _ => rng.range(40, 120),
            } as usize;
            let mut tops = vec![];
            // growth: big values; shrink: removals of many keys
            let bias_remove = rng.chance(1, 4);
            for _ in 0..n {
                let t = rng.below(TABLES.len() as u64) as u8;
                let k = rng.below(key_space);
                let q = rng.below(100);
                tops.push(if q < 3 {
                    TOp::DeleteTable { t }
                } else if q < 10 {
                    TOp::Get { t, k }
                } else if q < (if bias_remove { 75 } else { 30 }) {
                    TOp::Remove { t, k }
                } else {
                    let vlen = match rng.below(12) {
                        0 => rng.range(2000, 9000),
                        1 => rng.range(300, 2000),
                        2 => 0,
                        _ => rng.range(1, 120),
                    } as u32;
                    TOp::Insert { t, k, vlen }
                });
            }
            let end = match rng.below(10) {
                0 => End::Abort,
                1 => End::Drop,
                _ => End::Commit,
            };
            HOp::Write { durable, two_phase, quick_repair, sp, ops: tops, end }
        } else if r < 78 {
            HOp::ReadAll
        } else if r < 83 {
            HOp::HoldRead
        } else if r < 88 {
            HOp::ReleaseRead
        } else if r < 92 {
            HOp::Compact
        } else if r < 95 {
            HOp::CheckIntegrity
        } else if allow_reopen {
            HOp::Reopen
        } else {
            HOp::ReadAll
        };
        ops.push(op);
    }
    History { cfg, ops }
}

// ------------------------------------------------------------------------------------------------
// runner

#[derive(Clone, Debug, PartialEq, Eq)]
pub enum ApiRes {
    Ok,
    Err(String),
    Panic(String),
}

#[derive(Clone, Debug)]
pub struct ApiRec {
    pub idx: u32,
    pub name: &'static str,
    pub res: ApiRes,
    /// index of the history op this call belongs to
    pub hop: u32,
}

#[derive(Clone, Debug)]
pub struct CommitPoint {
    pub contents: Contents,
    /// the commit call returned Ok with Immediate durability (or a clean close followed it)
    pub durable: bool,
    pub hop: u32,
}

pub struct Runner {
    pub cfg: Config,
    pub be: MonBackend,
    /// backend objects of earlier opens of the same storage (each closed by redb), oldest first
    pub old_backends: Vec<MonBackend>,
    /// per open: the latch log (redb::verif_c08) of the previous CheckedBackend instance
    pub use_latch_log: bool,
    pub latch_segments: Vec<Vec<redb::verif_c08::VLatchEvent>>,
    /// index into `apis` of every open attempt
    pub open_apis: Vec<usize>,
    pub db: Option<Database>,
    pub apis: Vec<ApiRec>,
    pub cur_hop: u32,
    /// all acknowledged commit points, oldest first; [0] = empty database after creation
    pub points: Vec<CommitPoint>,
    /// contents a commit that returned Err (or panicked) would have produced, with the hop index
    pub failed_commits: Vec<(u32, Contents)>,
    pub held_reads: Vec<(redb::ReadTransaction, usize /*index into points*/)>,
    pub savepoints: Vec<(Savepoint, Contents)>,
    pub persistent: Vec<(u64, Contents)>,
    pub ver: u32,
    /// spec mismatches observed on reads (what, detail)
    pub mismatches: Vec<String>,
    /// true once any API call returned Err/Panic whose cause may be a storage failure
    pub saw_failure: bool,
    /// in a faulted run reads may see the last point or a failed commit
    pub lenient: bool,
}

pub fn err_string<E: std::fmt::Debug>(e: &E) -> String {
    let mut s = format!("{e:?}");
    s.truncate(160);
    s
}

impl Runner {
    pub fn builder(cfg: &Config) -> Builder {
        let mut b = Database::builder();
        b.verif_set_page_size(cfg.page_size);
        b.verif_set_region_size(cfg.region_size);
        b.set_cache_size(cfg.cache_size);
        b
    }

    pub fn new(cfg: Config, be: MonBackend) -> Self {
        Runner {
            cfg,
            be,
            old_backends: vec![],
            use_latch_log: false,
            latch_segments: vec![],
            open_apis: vec![],
            db: None,
            apis: vec![],
            cur_hop: 0,
            points: vec![CommitPoint { contents: Contents::new(), durable: true, hop: 0 }],
            failed_commits: vec![],
            held_reads: vec![],
            savepoints: vec![],
            persistent: vec![],
            ver: 0,
            mismatches: vec![],
            saw_failure: false,
            lenient: false,
        }
    }

    /// run one redb API call: numbered, under catch, result recorded
    pub fn api<T, E: std::fmt::Debug>(
        &mut self,
        name: &'static str,
        f: impl FnOnce() -> Result<T, E>,
    ) -> Option<T> {
        let idx = self.apis.len() as u32;
        self.be.set_api(idx);
        let r = catch(f);
        self.be.set_api(u32::MAX);
        let (res, out) = match r {
            Ok(Ok(v)) => (ApiRes::Ok, Some(v)),
            Ok(Err(e)) => (ApiRes::Err(err_string(&e)), None),
            Err(p) => {
                let mut p = p;
                p.truncate(200);
                (ApiRes::Panic(p), None)
            }
        };
        if res != ApiRes::Ok {
            self.saw_failure = true;
        }
        self.apis.push(ApiRec { idx, name, res, hop: self.cur_hop });
        out
    }

    /// an API "call" that returns nothing (drops): numbered so that backend ops are attributed
    pub fn api_drop(&mut self, name: &'static str, f: impl FnOnce()) {
        let idx = self.apis.len() as u32;
        self.be.set_api(idx);
        let r = catch(f);
        self.be.set_api(u32::MAX);
        let res = match r {
            Ok(()) => ApiRes::Ok,
            Err(mut p) => {
                p.truncate(200);
                ApiRes::Panic(p)
            }
        };
        self.apis.push(ApiRec { idx, name, res, hop: self.cur_hop });
    }

    pub fn open(&mut self) -> bool {
        if self.use_latch_log {
            let seg = redb::verif_c08::latch_log_take();
            if !self.open_apis.is_empty() {
                self.latch_segments.push(seg);
            }
            redb::verif_c08::latch_log_start();
        }
        self.open_apis.push(self.apis.len());
        let b = Self::builder(&self.cfg);
        let be = self.be.handle();
        match self.api("create_with_backend", move || b.create_with_backend(be)) {
            Some(db) => {
                self.db = Some(db);
                true
            }
            None => false,
        }
    }

    pub fn last(&self) -> &Contents {
        &self.points.last().unwrap().contents
    }

    fn failed_backend_calls(&self) -> usize {
        self.be.lock().events.iter().filter(|e| !e.ok).count()
    }

    pub fn close(&mut self) {
        let failed_before = self.failed_backend_calls();
        self.close_inner();
        // a failure while closing is not reported by any API result (Drop returns nothing)
        if self.failed_backend_calls() != failed_before {
            self.saw_failure = true;
        }
    }

    fn close_inner(&mut self) {
        self.savepoints.clear();
        let reads = std::mem::take(&mut self.held_reads);
        self.api_drop("drop_reads", move || drop(reads));
        if let Some(db) = self.db.take() {
            self.api_drop("drop_database", move || drop(db));
        }
    }

    fn scan(&mut self, txn: &redb::ReadTransaction) -> Option<Contents> {
        let mut c = Contents::new();
        for t in 0..TABLES.len() as u8 {
            let tab = {
                let idx = self.apis.len() as u32;
                self.be.set_api(idx);
                let r = catch(|| txn.open_table(tdef(t)));
                self.be.set_api(u32::MAX);
                match r {
                    Ok(Ok(tab)) => {
                        self.apis.push(ApiRec { idx, name: "r.open_table", res: ApiRes::Ok, hop: self.cur_hop });
                        tab
                    }
                    Ok(Err(redb::TableError::TableDoesNotExist(_))) => {
                        self.apis.push(ApiRec { idx, name: "r.open_table", res: ApiRes::Ok, hop: self.cur_hop });
                        continue;
                    }
                    Ok(Err(e)) => {
                        self.saw_failure = true;
                        self.apis.push(ApiRec { idx, name: "r.open_table", res: ApiRes::Err(err_string(&e)), hop: self.cur_hop });
                        return None;
                    }
                    Err(mut p) => {
                        self.saw_failure = true;
                        p.truncate(200);
                        self.apis.push(ApiRec { idx, name: "r.open_table", res: ApiRes::Panic(p), hop: self.cur_hop });
                        return None;
                    }
                }
            };
            let got = self.api("r.scan", || -> Result<Vec<(u64, Vec<u8>)>, redb::StorageError> {
                let mut out = vec![];
                for e in tab.range(..)? {
                    let (k, v) = e?;
                    out.push((k.value(), v.value().to_vec()));
                }
                let n = tab.len()?;
                if n as usize != out.len() {
                    // reported through the contents comparison: make it differ
                    out.push((u64::MAX, n.to_le_bytes().to_vec()));
                }
                Ok(out)
            })?;
            for (k, v) in got {
                c.insert((t, k), v);
            }
        }
        Some(c)
    }

    fn check_read(&mut self, what: &str, got: &Contents, allowed: &[&Contents]) {
        if !allowed.iter().any(|a| *a == got) {
            let exp: Vec<String> = allowed.iter().map(|a| digest(a)).collect();
            self.mismatches.push(format!(
                "{what} at hop {}: read contents {} not among allowed {:?}",
                self.cur_hop,
                digest(got),
                exp
            ));
        }
    }

    pub fn read_all(&mut self) {
        let Some(db) = self.db.as_ref() else { return };
        let idx = self.apis.len() as u32;
        self.be.set_api(idx);
        let r = catch(|| db.begin_read());
        self.be.set_api(u32::MAX);
        let txn = match r {
            Ok(Ok(t)) => {
                self.apis.push(ApiRec { idx, name: "begin_read", res: ApiRes::Ok, hop: self.cur_hop });
                t
            }
            Ok(Err(e)) => {
                self.saw_failure = true;
                self.apis.push(ApiRec { idx, name: "begin_read", res: ApiRes::Err(err_string(&e)), hop: self.cur_hop });
                return;
            }
            Err(mut p) => {
                self.saw_failure = true;
                p.truncate(200);
                self.apis.push(ApiRec { idx, name: "begin_read", res: ApiRes::Panic(p), hop: self.cur_hop });
                return;
            }
        };
        if let Some(c) = self.scan(&txn) {
            let last = self.last().clone();
            let mut allowed: Vec<&Contents> = vec![&last];
            let fc: Vec<Contents> = if self.lenient {
                self.failed_commits.iter().map(|(_, c)| c.clone()).collect()
            } else {
                vec![]
            };
            for f in &fc {
                allowed.push(f);
            }
            self.check_read("read_all", &c, &allowed);
        }
        self.api_drop("drop_read", move || drop(txn));
    }

    fn check_held(&mut self) {
        let held = std::mem::take(&mut self.held_reads);
        for (txn, pi) in &held {
            if let Some(c) = self.scan(txn) {
                let exp = self.points[*pi].contents.clone();
                let mut allowed: Vec<&Contents> = vec![&exp];
                let fc: Vec<Contents> = if self.lenient {
                    self.failed_commits.iter().map(|(_, c)| c.clone()).collect()
                } else {
                    vec![]
                };
                for f in &fc {
                    allowed.push(f);
                }
                self.check_read("held_read", &c, &allowed);
            }
        }
        self.held_reads = held;
    }

    /// executes one history op; returns false if the history cannot continue (no database)
    pub fn step(&mut self, hop: u32, op: &HOp) -> bool {
        self.cur_hop = hop;
        if self.db.is_none() {
            return false;
        }
        match op {
            HOp::ReadAll => {
                self.read_all();
                self.check_held();
            }
            HOp::HoldRead => {
                if self.held_reads.len() < 3 {
                    let db = self.db.as_ref().unwrap();
                    let idx = self.apis.len() as u32;
                    self.be.set_api(idx);
                    let r = catch(|| db.begin_read());
                    self.be.set_api(u32::MAX);
                    match r {
                        Ok(Ok(t)) => {
                            self.apis.push(ApiRec { idx, name: "begin_read", res: ApiRes::Ok, hop });
                            let pi = self.points.len() - 1;
                            self.held_reads.push((t, pi));
                        }
                        Ok(Err(e)) => {
                            self.saw_failure = true;
                            self.apis.push(ApiRec { idx, name: "begin_read", res: ApiRes::Err(err_string(&e)), hop });
                        }
                        Err(mut p) => {
                            self.saw_failure = true;
                            p.truncate(200);
                            self.apis.push(ApiRec { idx, name: "begin_read", res: ApiRes::Panic(p), hop });
                        }
                    }
                }
            }
            HOp::ReleaseRead => {
                if !self.held_reads.is_empty() {
                    let (t, _) = self.held_reads.remove(0);
                    self.api_drop("drop_read", move || drop(t));
                }
            }
            HOp::Compact => {
                // compact needs &mut Database and no readers/savepoints; errors of that kind are fine
                let mut db = self.db.take().unwrap();
                let idx = self.apis.len() as u32;
                self.be.set_api(idx);
                let r = catch(|| db.compact());
                self.be.set_api(u32::MAX);
                let res = match r {
                    Ok(Ok(_)) => {
                        // a successful compaction makes everything durable
                        let c = self.last().clone();
                        self.points.push(CommitPoint { contents: c, durable: true, hop });
                        ApiRes::Ok
                    }
                    Ok(Err(e)) => {
                        let s = err_string(&e);
                        if s.contains("Storage") || s.contains("Io") {
                            self.saw_failure = true;
                            let c = self.last().clone();
                            self.failed_commits.push((hop, c));
                        }
                        ApiRes::Err(s)
                    }
                    Err(mut p) => {
                        self.saw_failure = true;
                        p.truncate(200);
                        ApiRes::Panic(p)
                    }
                };
                self.apis.push(ApiRec { idx, name: "compact", res, hop });
                self.db = Some(db);
            }
            HOp::CheckIntegrity => {
                let mut db = self.db.take().unwrap();
                let idx = self.apis.len() as u32;
                self.be.set_api(idx);
                let r = catch(|| db.check_integrity());
                self.be.set_api(u32::MAX);
                let res = match r {
                    Ok(Ok(clean)) => {
                        if !self.lenient && self.held_reads.is_empty() && !clean {
                            self.mismatches.push(format!("check_integrity reported not-clean at hop {hop} in a fault-free run"));
                        }
                        let c = self.last().clone();
                        self.points.push(CommitPoint { contents: c, durable: true, hop });
                        ApiRes::Ok
                    }
                    Ok(Err(e)) => {
                        let s = err_string(&e);
                        if !s.contains("TransactionInProgress") {
                            self.saw_failure = true;
                        }
                        ApiRes::Err(s)
                    }
                    Err(mut p) => {
                        self.saw_failure = true;
                        p.truncate(200);
                        ApiRes::Panic(p)
                    }
                };
                self.apis.push(ApiRec { idx, name: "check_integrity", res, hop });
                self.db = Some(db);
            }
            HOp::Reopen => {
                self.close();
                let had_failure = self.saw_failure;
                // a clean close makes the last commit durable
                if !had_failure {
                    self.points.last_mut().unwrap().durable = true;
                }
                self.persistent.clear();
                let next = self.be.successor();
                let prev = std::mem::replace(&mut self.be, next);
                self.old_backends.push(prev);
                if !self.open() {
                    return false;
                }
                if had_failure {
                    // after a failure the reopened contents must be one allowed commit point; the
                    // model continues from whichever it is
                    let db = self.db.take().unwrap();
                    let txn = self.api("begin_read", || db.begin_read());
                    self.db = Some(db);
                    if let Some(txn) = txn {
                        if let Some(c) = self.scan(&txn) {
                            let ld = self.points.iter().rposition(|p| p.durable).unwrap_or(0);
                            let ok = self.points[ld..].iter().any(|p| p.contents == c)
                                || self.failed_commits.iter().any(|(_, f)| *f == c);
                            if !ok {
                                self.mismatches.push(format!(
                                    "reopen after a storage failure at hop {hop}: contents {} are not an allowed commit point (allowed: points {:?} or failed commits {:?})",
                                    digest(&c),
                                    self.points[ld..].iter().map(|p| digest(&p.contents)).collect::<Vec<_>>(),
                                    self.failed_commits.iter().map(|(_, f)| digest(f)).collect::<Vec<_>>()
                                ));
                            }
                            self.points.push(CommitPoint { contents: c, durable: true, hop });
                            self.failed_commits.clear();
                            self.saw_failure = false;
                        }
                        self.api_drop("drop_read", move || drop(txn));
                    }
                } else {
                    self.read_all();
                }
            }
            HOp::Write { durable, two_phase, quick_repair, sp, ops, end } => {
                self.write_txn(hop, *durable, *two_phase, *quick_repair, *sp, ops, *end);
            }
        }
        true
    }

    #[allow(clippy::too_many_arguments)]
    fn write_txn(&mut self, hop: u32, durable: bool, two_phase: bool, quick_repair: bool, sp: Sp, ops: &[TOp], end: End) {
        if let Sp::Forget(i) = sp {
            if !self.savepoints.is_empty() {
                let i = i as usize % self.savepoints.len();
                let (s, _) = self.savepoints.remove(i);
                self.api_drop("drop_savepoint", move || drop(s));
            }
        }
        let db = self.db.take().unwrap();
        let txn = self.api("begin_write", || db.begin_write());
        self.db = Some(db);
        let Some(mut txn) = txn else { return };
        let mut durable = durable;
        if matches!(sp, Sp::Persistent | Sp::DeletePersistent) {
            durable = true;
        }
        let mut staged = self.last().clone();
        let mut alive = true; // false once an operation failed: the transaction is dropped
        if !durable {
            alive &= self.api("set_durability", || txn.set_durability(Durability::None)).is_some();
        }
        txn.set_two_phase_commit(two_phase);
        txn.set_quick_repair(quick_repair);
        let mut new_persistent: Option<u64> = None;
        let mut deleted_persistent: Option<u64> = None;
        let mut restored = false;
        if alive {
            match sp {
                Sp::Ephemeral => {
                    if self.savepoints.len() < 4 {
                        if let Some(s) = self.api("ephemeral_savepoint", || txn.ephemeral_savepoint()) {
                            let c = self.last().clone();
                            self.savepoints.push((s, c));
                        }
                    }
                }
                Sp::Restore(i) => {
                    if !self.savepoints.is_empty() {
                        let i = i as usize % self.savepoints.len();
                        let idx = self.apis.len() as u32;
                        self.be.set_api(idx);
                        let r = catch(|| txn.restore_savepoint(&self.savepoints[i].0));
                        self.be.set_api(u32::MAX);
                        let res = match r {
                            Ok(Ok(())) => {
                                staged = self.savepoints[i].1.clone();
                                restored = true;
                                // later savepoints are invalidated by the restore (once committed);
                                // using them afterwards yields InvalidSavepoint, which is tolerated
                                ApiRes::Ok
                            }
                            Ok(Err(redb::SavepointError::InvalidSavepoint)) => ApiRes::Ok,
                            Ok(Err(e)) => {
                                self.saw_failure = true;
                                alive = false;
                                ApiRes::Err(err_string(&e))
                            }
                            Err(mut p) => {
                                self.saw_failure = true;
                                alive = false;
                                p.truncate(200);
                                ApiRes::Panic(p)
                            }
                        };
                        self.apis.push(ApiRec { idx, name: "restore_savepoint", res, hop });
                    }
                }
                Sp::Persistent => {
                    if self.persistent.len() < 2 {
                        match self.api("persistent_savepoint", || txn.persistent_savepoint()) {
                            Some(id) => new_persistent = Some(id),
                            None => alive = false,
                        }
                    }
                }
                Sp::DeletePersistent => {
                    if let Some((id, _)) = self.persistent.first().cloned() {
                        match self.api("delete_persistent_savepoint", || txn.delete_persistent_savepoint(id)) {
                            Some(_) => deleted_persistent = Some(id),
                            None => alive = false,
                        }
                    }
                }
                Sp::None | Sp::Forget(_) => {}
            }
        }
        let _ = restored;
        if alive {
            'ops: for op in ops {
                match op {
                    TOp::DeleteTable { t } => {
                        let t = *t;
                        if self.api("delete_table", || txn.delete_table(tdef(t))).is_none() {
                            alive = false;
                            break 'ops;
                        }
                        staged.retain(|(tt, _), _| *tt != t);
                    }
                    TOp::Insert { t, k, vlen } => {
                        let (t, k) = (*t, *k);
                        self.ver += 1;
                        let v = value_for(k, self.ver, *vlen);
                        let Some(mut tab) = self.api("open_table", || txn.open_table(tdef(t))) else {
                            alive = false;
                            break 'ops;
                        };
                        let r = self.api("insert", || tab.insert(&k, v.as_slice()).map(|old| old.map(|g| g.value().to_vec())));
                        let tabdrop = catch(move || drop(tab));
                        if tabdrop.is_err() {
                            self.apis.push(ApiRec { idx: self.apis.len() as u32, name: "drop_table", res: ApiRes::Panic("drop table".into()), hop });
                        }
                        match r {
                            Some(old) => {
                                let exp = staged.insert((t, k), v);
                                if old != exp && !self.lenient {
                                    self.mismatches.push(format!("insert at hop {hop} returned a wrong previous value for {t}/{k}"));
                                }
                            }
                            None => {
                                alive = false;
                                break 'ops;
                            }
                        }
                    }
                    TOp::Remove { t, k } => {
                        let (t, k) = (*t, *k);
                        let Some(mut tab) = self.api("open_table", || txn.open_table(tdef(t))) else {
                            alive = false;
                            break 'ops;
                        };
                        let r = self.api("remove", || tab.remove(&k).map(|old| old.map(|g| g.value().to_vec())));
                        let _ = catch(move || drop(tab));
                        match r {
                            Some(old) => {
                                let exp = staged.remove(&(t, k));
                                if old != exp && !self.lenient {
                                    self.mismatches.push(format!("remove at hop {hop} returned a wrong previous value for {t}/{k}"));
                                }
                            }
                            None => {
                                alive = false;
                                break 'ops;
                            }
                        }
                    }
                    TOp::Get { t, k } => {
                        let (t, k) = (*t, *k);
                        let Some(tab) = self.api("open_table", || txn.open_table(tdef(t))) else {
                            alive = false;
                            break 'ops;
                        };
                        let r = self.api("get", || tab.get(&k).map(|old| old.map(|g| g.value().to_vec())));
                        let _ = catch(move || drop(tab));
                        match r {
                            Some(got) => {
                                if got.as_ref() != staged.get(&(t, k)) {
                                    self.mismatches.push(format!("get in write txn at hop {hop} returned wrong data for {t}/{k}"));
                                }
                            }
                            None => {
                                alive = false;
                                break 'ops;
                            }
                        }
                    }
                }
            }
        }
        // a caller that goes on after an operation of the transaction reported an error: every third such
        // transaction is committed all the same (the commit must then be refused, never acknowledged)
        let insist = !alive && hop % 3 == 0;
        let end = if alive { end } else if insist { End::Commit } else { End::Drop };
        match end {
            End::Commit => {
                // every fourth commit has a second writer queued behind it: begin_write() on another thread, blocked
                // on the write slot while this transaction is live; if this commit fails, the queued call must be
                // refused like any later write attempt (it is recorded as a begin_write issued after the commit)
                let queued = hop % 4 == 1;
                let idx = self.apis.len() as u32;
                self.be.set_api(idx);
                let mut queued_res: Option<Result<Result<(), String>, String>> = None;
                let mut queued_tid = 0u64;
                let r = if queued {
                    let db = self.db.as_ref().unwrap();
                    std::thread::scope(|sc| {
                        let h = sc.spawn(move || {
                            let tid = my_tid();
                            let r = catch(|| match db.begin_write() {
                                Ok(t) => {
                                    let _ = t.abort();
                                    Ok(())
                                }
                                Err(e) => Err(err_string(&e)),
                            });
                            (tid, r)
                        });
                        // give the second writer time to reach the wait on the write slot
                        std::thread::sleep(std::time::Duration::from_millis(3));
                        let r = catch(move || txn.commit());
                        let (tid, qr) = h.join().unwrap_or_else(|_| (0, Err("queued begin_write thread panicked".into())));
                        queued_tid = tid;
                        queued_res = Some(qr);
                        r
                    })
                } else {
                    catch(move || txn.commit())
                };
                self.be.set_api(u32::MAX);
                let res = match r {
                    Ok(Ok(())) => {
                        if let Some(id) = new_persistent {
                            // restoring a persistent savepoint is not exercised; keep it for deletion
                            self.persistent.push((id, self.last().clone()));
                        }
                        if let Some(id) = deleted_persistent {
                            self.persistent.retain(|(i, _)| *i != id);
                        }
                        self.points.push(CommitPoint { contents: staged, durable, hop });
                        ApiRes::Ok
                    }
                    Ok(Err(e)) => {
                        self.saw_failure = true;
                        if alive {
                            self.failed_commits.push((hop, staged));
                        }
                        ApiRes::Err(err_string(&e))
                    }
                    Err(mut p) => {
                        self.saw_failure = true;
                        if alive {
                            self.failed_commits.push((hop, staged));
                        }
                        p.truncate(200);
                        ApiRes::Panic(p)
                    }
                };
                self.apis.push(ApiRec { idx, name: "commit", res, hop });
                if let Some(q) = queued_res {
                    let res = match q {
                        Ok(Ok(())) => ApiRes::Ok,
                        Ok(Err(e)) => ApiRes::Err(e),
                        Err(mut p) => {
                            p.truncate(200);
                            ApiRes::Panic(p)
                        }
                    };
                    if res != ApiRes::Ok {
                        self.saw_failure = true;
                    }
                    let bi = self.apis.len() as u32;
                    self.apis.push(ApiRec { idx: bi, name: "begin_write", res, hop });
                    // backend calls made by the queued writer's thread belong to ITS call, not to the commit
                    for e in self.be.lock().events.iter_mut() {
                        if e.tid == queued_tid && queued_tid != 0 {
                            e.api = bi;
                        }
                    }
                }
            }
            End::Abort => {
                self.api("abort", move || txn.abort());
            }
            End::Drop => {
                self.api_drop("drop_write", move || drop(txn));
            }
        }
    }

    pub fn run(&mut self, h: &History) {
        if !self.open() {
            return;
        }
        for (i, op) in h.ops.iter().enumerate() {
            if !self.step(i as u32 + 1, op) {
                break;
            }
        }
        self.cur_hop = h.ops.len() as u32 + 1;
        self.close();
        if !self.saw_failure {
            self.points.last_mut().unwrap().durable = true;
        }
    }
}

/// open `image` without faults and read everything; Err(text) if open/read fails or panics
pub fn reopen_and_read(cfg: &Config, image: Vec<u8>, check_integrity: bool) -> Result<(Contents, MonBackend), String> {
    let be = MonBackend::new(image);
    let b = Runner::builder(cfg);
    let h = be.handle();
    let r = catch(move || -> Result<Contents, String> {
        let mut db = b.create_with_backend(h).map_err(|e| format!("open failed: {}", err_string(&e)))?;
        if check_integrity {
            db.check_integrity().map_err(|e| format!("check_integrity failed: {}", err_string(&e)))?;
        }
        let txn = db.begin_read().map_err(|e| format!("begin_read failed: {}", err_string(&e)))?;
        let mut c = Contents::new();
        for t in 0..TABLES.len() as u8 {
            let tab = match txn.open_table(tdef(t)) {
                Ok(t) => t,
                Err(redb::TableError::TableDoesNotExist(_)) => continue,
                Err(e) => return Err(format!("open_table failed: {}", err_string(&e))),
            };
            for e in tab.range(..).map_err(|e| format!("range failed: {}", err_string(&e)))? {
                let (k, v) = e.map_err(|e| format!("scan failed: {}", err_string(&e)))?;
                c.insert((t, k.value()), v.value().to_vec());
            }
        }
        drop(txn);
        drop(db);
        Ok(c)
    });
    match r {
        Ok(Ok(c)) => Ok((c, be)),
        Ok(Err(e)) => Err(e),
        Err(p) => Err(format!("panic: {p}")),
    }
}

pub fn hop_summary(op: &HOp) -> String {
    match op {
        HOp::Write { durable, two_phase, quick_repair, sp, ops, end } => {
            format!("Write(durable={durable},2pc={two_phase},qr={quick_repair},sp={sp:?},n={},end={end:?})", ops.len())
        }
        o => format!("{o:?}"),
    }
}

/// WriteTransaction is used only through the runner; keep the type referenced
pub type Wtx = WriteTransaction;

// ------------------------------------------------------------------------------------------------
// C08 S2 (fault-aware commit model): the bytes of every database-header write (offset 0, 320 bytes) with the
// number of the backend call that carried it. Per thread, inert unless `hdr_log_start` was called on the thread.
pub const DB_HEADER_LEN: usize = 320;
std::thread_local! {
    static HDR_LOG: std::cell::RefCell<Option<Vec<(u64, Vec<u8>)>>> = const { std::cell::RefCell::new(None) };
}
pub fn hdr_log_start() {
    HDR_LOG.with(|l| *l.borrow_mut() = Some(vec![]));
}
pub fn hdr_log_take() -> Vec<(u64, Vec<u8>)> {
    HDR_LOG.with(|l| l.borrow_mut().take().unwrap_or_default())
}
pub fn hdr_log_note(call: u64, offset: u64, data: &[u8]) {
    if offset == 0 && data.len() == DB_HEADER_LEN {
        HDR_LOG.with(|l| {
            if let Some(v) = l.borrow_mut().as_mut() {
                v.push((call, data.to_vec()));
            }
        });
    }
}
