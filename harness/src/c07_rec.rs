//! C07 "rec" mode: histories over the real crate in which, after EVERY API call, the page-ownership state
//! (own_util.rs, hook H3) AND redb's allocation records are observed:
//!   DATA_ALLOCATED_TABLE (decoded by redb's own reader under the latest committed system root),
//!   UnpersistedState::{allocations, allocation_txn}, the write transaction's PageTracker (+ tracking flag),
//!   WriteTransaction::dirty, TransactionTracker::valid_savepoints, SavepointTransactionState::invalidated.
//! The trace (rtrace.txt) is consumed by ocaml/c07r_driver.ml: extracted `step2` of coq/Txn/AllocRec.v on the
//! previous observed state vs this one (S2), extracted `rinv_checkb` / `own_checkb` on every state (S3), and on
//! every restore the record-based `restore_rec` vs what redb actually freed / queued.
//!
//! usage: c07 rec <n_histories> <steps_per_history> [only <history>]
//! Trace format: own_util.rs, with the S lines extended by
//!   dalloc=<tab> ualloc=<tab> trk=<list> trkon=<0|1> dirty=<0|1> valid=<h:t;..> winval=<list>
#[path = "own_util.rs"]
mod own_util;

use crate::rvdb::{run_isolated, Block};
use own_util::*;
use redb::verif::VPageTrackerState;
use redb::{Durability, MultimapTableDefinition, ReadableDatabase, TableDefinition};
use rv_harness::{catch, seed_from_env, Rng};
use std::collections::{BTreeMap, BTreeSet};
use std::fmt::Write as _;

const TABLES: [TableDefinition<u64, &[u8]>; 2] = [TableDefinition::new("t0"), TableDefinition::new("t1")];
const MM: MultimapTableDefinition<u64, &[u8]> = MultimapTableDefinition::new("m0");

#[derive(Clone, Debug)]
enum Kind {
    Nop,
    BeginWrite,
    Mut,
    BeginRead(u64),
    DropPin(u64),
    SpCreate(u64, bool),
    SpDelete(u64),
    Restore(u64, Vec<u64>),
    Abort,
    CommitDur(bool),
    CommitNd,
    Reopen,
    Opaque,
}

#[derive(Clone, Debug, Default)]
struct RecObs {
    dalloc: BTreeMap<u64, Vec<u64>>,
    ualloc: BTreeMap<u64, Vec<u64>>,
    trk: Vec<u64>,
    trk_on: bool,
    dirty: bool,
    valid: Vec<(u64, u64)>,
    winval: Vec<u64>,
}

impl RecObs {
    fn fields(&self) -> String {
        let mut s = String::new();
        write!(s, " dalloc={} ualloc={} trk={} trkon={} dirty={}", fmt_tab(&self.dalloc), fmt_tab(&self.ualloc),
            fmt_list(&self.trk), u8::from(self.trk_on), u8::from(self.dirty)).unwrap();
        s.push_str(" valid=");
        if self.valid.is_empty() {
            s.push('-');
        }
        for (i, (h, t)) in self.valid.iter().enumerate() {
            if i > 0 {
                s.push(';');
            }
            write!(s, "{h}:{t}").unwrap();
        }
        write!(s, " winval={}", fmt_list(&self.winval)).unwrap();
        s
    }
}

struct Gen {
    r: Rng,
    w: World,
    trace: String,
    log: Vec<String>,
    hist: usize,
    step: usize,
    dead: bool,
    immediate: bool,
    qr: bool,
    stats: BTreeMap<String, u64>,
    viol: Vec<String>,
    sigs: BTreeSet<String>,
    restores_ok: u64,
    restores_rec: u64,
    restores_after_nd: u64,
    restores_twice: u64,
    restored_in_txn: u64,
}

fn vsize(r: &mut Rng) -> usize {
    *r.pick(&[8usize, 8, 40, 40, 200, 200, 700, 1500])
}

impl Gen {
    fn count(&mut self, k: &str) {
        *self.stats.entry(k.to_string()).or_default() += 1;
    }

    /// the allocation records as they are right now; direct consistency checks go to `viol`
    fn rec_of(&mut self, o: &Observed) -> RecObs {
        let mut r = RecObs { trk_on: true, ..Default::default() };
        r.dalloc = group(&o.lat_reach.data_allocated);
        let u = &o.db.mem.unpersisted;
        for (t, pages) in &u.allocations {
            let v = expand(pages);
            if !v.is_empty() {
                r.ualloc.insert(*t, v);
            }
        }
        // allocation_txn must be exactly the inverse index of allocations (what `claim` relies on)
        let mut inv: BTreeMap<(u32, u32, u8), u64> = BTreeMap::new();
        let mut dup = false;
        for (t, pages) in &u.allocations {
            for p in pages {
                if inv.insert((p.region, p.index, p.order), *t).is_some() {
                    dup = true;
                }
            }
        }
        let idx: BTreeMap<(u32, u32, u8), u64> = u.allocation_txn.iter().map(|(p, t)| ((p.region, p.index, p.order), *t)).collect();
        if dup || inv != idx {
            self.viol.push(format!("h{} s{}: unpersisted.allocation_txn is not the inverse index of unpersisted.allocations", self.hist, self.step));
        }
        r.valid = o.db.tracker.valid_savepoints.iter().map(|(id, t)| (World::handle_of_savepoint(*id), *t)).collect();
        if let Some(t) = &o.txn {
            r.trk = expand(&t.page_tracker.pages);
            r.trk_on = t.page_tracker.tracking_flag;
            let ignore = matches!(t.page_tracker.state, VPageTrackerState::Ignore);
            if ignore == r.trk_on || matches!(t.page_tracker.state, VPageTrackerState::Closed) {
                self.viol.push(format!("h{} s{}: PageTracker flag {} inconsistent with its policy {:?} inside a live transaction",
                    self.hist, self.step, r.trk_on, t.page_tracker.state));
            }
            r.dirty = t.dirty;
            r.winval = t.savepoint_state.invalidated.iter().map(|id| World::handle_of_savepoint(*id)).collect();
            // DATA_ALLOCATED_TABLE is written only by the commit: the transaction's working copy is the committed one
            if let Some(c) = &o.cur_reach {
                if group(&c.data_allocated) != r.dalloc {
                    self.viol.push(format!("h{} s{}: working DATA_ALLOCATED_TABLE differs from the committed one before commit", self.hist, self.step));
                }
            }
        }
        r
    }

    fn after(&mut self, label: &str, kind: Kind) {
        if self.dead {
            return;
        }
        self.step += 1;
        self.log.push(label.to_string());
        self.count(label.split(' ').next().unwrap());
        let obs = match self.w.observe() {
            Ok(o) => o,
            Err(e) => {
                self.viol.push(format!("h{} s{} after `{label}`: {e}", self.hist, self.step));
                self.dead = true;
                return;
            }
        };
        let rec = self.rec_of(&obs);
        let a = &obs.abs;
        let l = |x: &Vec<u64>| fmt_list(x);
        let mut ops: Vec<String> = vec![];
        match &kind {
            Kind::Nop => {}
            Kind::BeginWrite => ops.push("O bw".into()),
            Kind::Mut => {
                ops.push(format!("O md {}", l(&a.wdata)));
                ops.push(format!("O ms {}", l(&a.wsys)));
            }
            Kind::BeginRead(h) => ops.push(format!("O br {h}")),
            Kind::DropPin(h) => ops.push(format!("O dp {h}")),
            Kind::SpCreate(h, p) => {
                ops.push(format!("O sc {h} {}", u8::from(*p)));
                ops.push(format!("O ms {}", l(&a.wsys)));
            }
            Kind::SpDelete(h) => {
                ops.push(format!("O sd {h}"));
                ops.push(format!("O ms {}", l(&a.wsys)));
            }
            Kind::Restore(h, dels) => {
                ops.push(format!("O rs {h}"));
                for d in dels {
                    ops.push(format!("O sd {d}"));
                }
                ops.push(format!("O ms {}", l(&a.wsys)));
            }
            Kind::Abort => ops.push("O ab".into()),
            Kind::CommitDur(qr) => {
                let so = if obs.db.mem.read_from_secondary { l(&a.lat.2) } else { "-".into() };
                ops.push(format!("O cd {} 1 {}|{}|{}", u8::from(*qr), l(&a.dur.1), l(&a.dur.2), so));
            }
            Kind::CommitNd => ops.push(format!("O cn {}|{}", l(&a.lat.1), l(&a.lat.2))),
            Kind::Reopen => {
                ops.push("O bw".into());
                ops.push(format!("O cd 1 0 {}|{}|-", l(&a.dur.1), l(&a.dur.2)));
                ops.push("O ro".into());
            }
            Kind::Opaque => ops.push(format!("X {}", label.replace(' ', "_"))),
        }
        for o in ops {
            self.trace.push_str(&o);
            self.trace.push('\n');
        }
        let lab = format!("h{}.{}:{}", self.hist, self.step, label.replace(' ', "_"));
        self.trace.push_str(&a.line(&lab));
        self.trace.push_str(&rec.fields());
        self.trace.push('\n');
        let sig = format!(
            "{:?}/{}/{}/{}/{}/{}/{}/{}/{}/{}",
            std::mem::discriminant(&kind), a.inw, rec.valid.len().min(3), a.pend.len().min(2),
            rec.dalloc.len().min(3), rec.ualloc.len().min(2), u8::from(rec.trk.is_empty()), rec.trk_on, rec.dirty,
            rec.winval.len().min(2)
        );
        self.sigs.insert(sig);
        let rv: Vec<String> = self.w.rust_violations.drain(..).collect();
        for v in rv {
            self.viol.push(format!("h{} s{} after `{label}`: {v}", self.hist, self.step));
        }
    }

    fn begin_write(&mut self) {
        let t = self.w.db().begin_write().expect("begin_write");
        self.w.wtx = Some(t);
        self.immediate = true;
        self.qr = false;
        self.restored_in_txn = 0;
        self.after("begin_write", Kind::BeginWrite);
    }

    fn table_op(&mut self) {
        let which = self.r.below(100);
        let t = self.w.wtx.as_ref().unwrap();
        let label;
        let keyspace = *self.r.pick(&[30u64, 200, 200, 1000]);
        if which < 45 {
            let ti = self.r.below(2) as usize;
            let n = *self.r.pick(&[1u64, 3, 10, 30, 60]);
            let sz = vsize(&mut self.r);
            let mut tab = t.open_table(TABLES[ti]).unwrap();
            for _ in 0..n {
                let k = self.r.below(keyspace);
                let v = vec![(k & 0xff) as u8; sz];
                tab.insert(k, v.as_slice()).unwrap();
            }
            label = format!("insert t{ti} n={n} size={sz}");
        } else if which < 62 {
            let ti = self.r.below(2) as usize;
            let n = *self.r.pick(&[1u64, 5, 20, 80]);
            let mut tab = t.open_table(TABLES[ti]).unwrap();
            for _ in 0..n {
                let k = self.r.below(keyspace);
                tab.remove(k).unwrap();
            }
            label = format!("remove t{ti} n={n}");
        } else if which < 68 {
            // opening a table without changing it still marks the transaction dirty
            let ti = self.r.below(2) as usize;
            let tab = t.open_table(TABLES[ti]).unwrap();
            drop(tab);
            label = format!("open t{ti}");
        } else if which < 74 {
            let ti = self.r.below(2) as usize;
            let m = self.r.range(2, 4);
            let mut tab = t.open_table(TABLES[ti]).unwrap();
            tab.retain(|k, _| k % m == 0).unwrap();
            label = format!("retain t{ti} mod{m}");
        } else if which < 86 {
            let n = *self.r.pick(&[1u64, 5, 20]);
            let sz = *self.r.pick(&[4usize, 30, 300]);
            let mut tab = t.open_multimap_table(MM).unwrap();
            for _ in 0..n {
                let k = self.r.below(20);
                let mut v = vec![0u8; sz];
                v[0] = self.r.below(40) as u8;
                tab.insert(k, v.as_slice()).unwrap();
            }
            label = format!("mminsert n={n} size={sz}");
        } else if which < 92 {
            let mut tab = t.open_multimap_table(MM).unwrap();
            let n = self.r.range(1, 8);
            for _ in 0..n {
                let k = self.r.below(20);
                tab.remove_all(k).unwrap();
            }
            label = format!("mmremove_all n={n}");
        } else if which < 97 {
            let ti = self.r.below(2) as usize;
            t.delete_table(TABLES[ti]).unwrap();
            label = format!("delete_table t{ti}");
        } else {
            t.delete_multimap_table(MM).unwrap();
            label = "delete_multimap_table".to_string();
        }
        self.after(&label, Kind::Mut);
    }

    fn commit(&mut self) {
        let t = self.w.wtx.take().unwrap();
        let snap = t.verif_snapshot();
        let deleted: Vec<u64> = snap.savepoint_state.deleted_persistent.iter().map(|(id, _)| World::handle_of_savepoint(*id)).collect();
        let invalidated: Vec<u64> = snap.savepoint_state.invalidated.iter().map(|id| World::handle_of_savepoint(*id)).collect();
        let imm = self.immediate;
        let qr = self.qr;
        match catch(|| t.commit()) {
            Ok(Ok(())) => {}
            other => {
                self.viol.push(format!("h{} s{}: commit failed unexpectedly: {other:?}", self.hist, self.step));
                self.dead = true;
                return;
            }
        }
        self.w.pins.retain(|p| !deleted.contains(&p.handle));
        for p in self.w.pins.iter_mut() {
            if invalidated.contains(&p.handle) {
                p.valid = false;
            }
        }
        if imm {
            self.after(&format!("commit durable qr={}", u8::from(qr)), Kind::CommitDur(qr));
        } else {
            self.after("commit nondurable", Kind::CommitNd);
        }
    }

    fn abort(&mut self, by_drop: bool) {
        let t = self.w.wtx.take().unwrap();
        let snap = t.verif_snapshot();
        let created: Vec<u64> = snap.savepoint_state.created_persistent.iter().map(|(id, _)| World::handle_of_savepoint(*id)).collect();
        if by_drop {
            drop(t);
        } else {
            t.abort().unwrap();
        }
        self.w.pins.retain(|p| !created.contains(&p.handle));
        self.after(if by_drop { "drop_txn" } else { "abort" }, Kind::Abort);
    }

    fn begin_read(&mut self) {
        let rt = self.w.db().begin_read().unwrap();
        let (txn, root) = rt.verif_root();
        let h = self.w.next_handle;
        self.w.next_handle += 1;
        match self.w.pin_pages(root) {
            Ok((pages, content)) => {
                self.w.pins.push(Pin { handle: h, kind: PinKind::Reader(rt), txn, root, pages, content, valid: true });
                self.after("begin_read", Kind::BeginRead(h));
            }
            Err(e) => {
                self.viol.push(format!("h{} s{}: new reader cannot walk its own root: {e}", self.hist, self.step));
                self.dead = true;
            }
        }
    }

    fn drop_pin(&mut self, only_savepoints: bool) {
        let cands: Vec<usize> = (0..self.w.pins.len())
            .filter(|i| !self.w.pins[*i].persistent() && (!only_savepoints || matches!(self.w.pins[*i].kind, PinKind::Eph(_))))
            .collect();
        if cands.is_empty() {
            return;
        }
        let i = *self.r.pick(&cands);
        let p = self.w.pins.remove(i);
        let h = p.handle;
        let what = if matches!(p.kind, PinKind::Reader(_)) { "drop_reader" } else { "drop_ephemeral_savepoint" };
        drop(p);
        self.after(what, Kind::DropPin(h));
    }

    fn savepoint(&mut self, persistent: bool) {
        let t = self.w.wtx.as_ref().unwrap();
        if persistent {
            match t.persistent_savepoint() {
                Ok(id) => {
                    let sp = t.get_persistent_savepoint(id).unwrap();
                    let rec = sp.verif_record();
                    drop(sp);
                    let h = World::handle_of_savepoint(id);
                    let (pages, content) = self.w.pin_pages(rec.data_root).unwrap();
                    self.w.pins.push(Pin { handle: h, kind: PinKind::Pers(id), txn: rec.transaction_id, root: rec.data_root, pages, content, valid: true });
                    self.after("persistent_savepoint", Kind::SpCreate(h, true));
                }
                Err(_) => self.after("persistent_savepoint rejected", Kind::Nop),
            }
        } else {
            match t.ephemeral_savepoint() {
                Ok(sp) => {
                    let rec = sp.verif_record();
                    let h = World::handle_of_savepoint(rec.id);
                    let (pages, content) = self.w.pin_pages(rec.data_root).unwrap();
                    self.w.pins.push(Pin { handle: h, kind: PinKind::Eph(sp), txn: rec.transaction_id, root: rec.data_root, pages, content, valid: true });
                    self.after("ephemeral_savepoint", Kind::SpCreate(h, false));
                }
                Err(_) => self.after("ephemeral_savepoint rejected", Kind::Nop),
            }
        }
    }

    fn delete_persistent(&mut self) {
        let cands: Vec<(u64, u64)> = self.w.pins.iter().filter_map(|p| if let PinKind::Pers(id) = p.kind { Some((p.handle, id)) } else { None }).collect();
        if cands.is_empty() {
            return;
        }
        let (h, id) = *self.r.pick(&cands);
        let t = self.w.wtx.as_ref().unwrap();
        let snap = t.verif_snapshot();
        if snap.savepoint_state.deleted_persistent.iter().any(|(i, _)| *i == id) {
            return;
        }
        match t.delete_persistent_savepoint(id) {
            Ok(true) => self.after("delete_persistent_savepoint", Kind::SpDelete(h)),
            Ok(false) => self.after("delete_persistent_savepoint absent", Kind::Nop),
            Err(_) => self.after("delete_persistent_savepoint rejected", Kind::Nop),
        }
    }

    fn restore(&mut self) {
        self.restore_pick(0)
    }

    /// which: 0 = any savepoint (older ones preferred now and then, so that a second restore in the same
    /// transaction is legal), 1 = the newest savepoint, 2 = the oldest one
    fn restore_pick(&mut self, which: u8) {
        let cands: Vec<usize> = (0..self.w.pins.len()).filter(|i| !matches!(self.w.pins[*i].kind, PinKind::Reader(_))).collect();
        if cands.is_empty() {
            return;
        }
        let i = match which {
            1 => *cands.last().unwrap(),
            2 => cands[0],
            _ => {
                if self.r.chance(1, 3) { cands[0] } else { *self.r.pick(&cands) }
            }
        };
        let before = self.w.wtx.as_ref().unwrap().verif_snapshot();
        let pending_nd = !before.db.tracker.pending_non_durable_commits.is_empty();
        let mut t = self.w.wtx.take().unwrap();
        let (h, res, spid) = {
            let p = &self.w.pins[i];
            match &p.kind {
                PinKind::Eph(sp) => (p.handle, t.restore_savepoint(sp), sp.verif_record().id),
                PinKind::Pers(id) => match t.get_persistent_savepoint(*id) {
                    Ok(sp) => (p.handle, t.restore_savepoint(&sp), *id),
                    Err(e) => (p.handle, Err(e), *id),
                },
                PinKind::Reader(_) => unreachable!(),
            }
        };
        let poisoned = t.verif_snapshot().poisoned;
        self.w.wtx = Some(t);
        match res {
            Ok(()) => {
                let after = self.w.wtx.as_ref().unwrap().verif_snapshot();
                let dels: Vec<u64> = after
                    .savepoint_state
                    .deleted_persistent
                    .iter()
                    .filter(|x| !before.savepoint_state.deleted_persistent.contains(x))
                    .map(|(id, _)| World::handle_of_savepoint(*id))
                    .collect();
                self.restores_ok += 1;
                self.restored_in_txn += 1;
                if self.restored_in_txn == 2 {
                    self.restores_twice += 1;
                }
                if pending_nd {
                    self.restores_after_nd += 1;
                }
                if !before.db.mem.unpersisted.allocations.is_empty() || !before.page_tracker.pages.is_empty() {
                    self.restores_rec += 1;
                }
                self.after(&format!("restore_savepoint {spid}"), Kind::Restore(h, dels));
            }
            Err(_) => {
                if poisoned {
                    self.viol.push(format!("h{} s{}: restore failed part-way and poisoned the transaction without a storage fault", self.hist, self.step));
                    self.dead = true;
                } else {
                    self.after("restore_savepoint rejected", Kind::Nop);
                }
            }
        }
    }

    fn reopen(&mut self) {
        while self.w.pins.iter().any(|p| !p.persistent()) {
            self.drop_pin(false);
            if self.dead {
                return;
            }
        }
        let db = self.w.db.take().unwrap();
        drop(db);
        self.w.open();
        self.after("reopen", Kind::Reopen);
    }

    fn set_durability(&mut self, none: bool) {
        let t = self.w.wtx.as_mut().unwrap();
        let r = t.set_durability(if none { Durability::None } else { Durability::Immediate });
        if r.is_ok() {
            self.immediate = !none;
        }
        self.after(if none { "set_durability none" } else { "set_durability immediate" }, Kind::Nop);
    }

    fn step_once(&mut self) {
        let x = self.r.below(100);
        if self.w.wtx.is_none() {
            match x {
                0..=69 => self.begin_write(),
                70..=77 => self.begin_read(),
                78..=89 => self.drop_pin(false),
                90..=95 => self.reopen(),
                _ => self.begin_write(),
            }
        } else {
            match x {
                0..=33 => self.table_op(),
                34..=51 => self.commit(),
                52..=55 => self.abort(false),
                56..=57 => self.abort(true),
                58..=66 => {
                    let none = self.r.chance(3, 4);
                    self.set_durability(none);
                }
                67..=68 => {
                    let on = self.r.chance(2, 3);
                    self.w.wtx.as_mut().unwrap().set_quick_repair(on);
                    self.qr = on;
                    self.after("set_quick_repair", Kind::Nop);
                }
                69..=76 => self.savepoint(false),
                77..=81 => self.savepoint(true),
                82..=91 => self.restore(),
                92..=94 => self.delete_persistent(),
                95..=96 => self.begin_read(),
                _ => self.drop_pin(true),
            }
        }
    }

    /// The schedule of `savepoint_no_leak` / `bounded_storage` (coq/Props/C07.v, C06.v): every reader and
    /// savepoint released, then three durable commits without data change (quick-repair off, post-commit
    /// free on): nothing may be pending afterwards, the records must be empty, allocated = pages(current).
    fn quiesce(&mut self) {
        if self.dead {
            return;
        }
        if self.w.wtx.is_some() {
            self.commit();
        }
        while !self.dead && self.w.pins.iter().any(|p| !p.persistent()) {
            self.drop_pin(false);
        }
        if self.dead {
            return;
        }
        if self.w.pins.iter().any(|p| p.persistent()) {
            self.begin_write();
            while !self.dead && self.w.pins.iter().any(|p| p.persistent()) {
                let n = self.w.pins.len();
                self.delete_persistent();
                if self.w.wtx.as_ref().map(|t| t.verif_snapshot().savepoint_state.deleted_persistent.len()).unwrap_or(0) >= n {
                    break;
                }
            }
            if self.dead {
                return;
            }
            self.commit();
        }
        for _ in 0..3 {
            if self.dead {
                return;
            }
            self.begin_write();
            self.commit();
        }
        if self.dead {
            return;
        }
        if let Ok(o) = self.w.observe() {
            let rec = self.rec_of(&o);
            let a = &o.abs;
            if !(a.dfreed.is_empty() && a.sfreed.is_empty() && a.ufreed.is_empty() && a.unpers.is_empty() && a.pend.is_empty()) {
                self.viol.push(format!(
                    "h{}: no-leak schedule (all readers/savepoints released, three durable commits): still pending dfreed={:?} sfreed={:?} ufreed={:?} unpers={} pend={:?}",
                    self.hist, a.dfreed.keys().collect::<Vec<_>>(), a.sfreed.keys().collect::<Vec<_>>(), a.ufreed.keys().collect::<Vec<_>>(), a.unpers.len(), a.pend
                ));
            }
            if !(rec.dalloc.is_empty() && rec.ualloc.is_empty()) {
                self.viol.push(format!(
                    "h{}: no-leak schedule: allocation records not empty although no savepoint exists: DATA_ALLOCATED keys {:?}, unpersisted.allocations keys {:?}",
                    self.hist, rec.dalloc.keys().collect::<Vec<_>>(), rec.ualloc.keys().collect::<Vec<_>>()
                ));
            }
            let owned: BTreeSet<u64> = a.lat.1.iter().chain(a.lat.2.iter()).copied().collect();
            let alloc: BTreeSet<u64> = a.alloc.iter().copied().collect();
            if owned != alloc {
                self.viol.push(format!("h{}: no-leak schedule: allocated ({}) != pages(current data tree) + pages(current system tree) ({})", self.hist, alloc.len(), owned.len()));
            }
            self.count("quiescent_checks");
        }
    }

    /// directed prefixes: the situations in which the records decide what a restore frees
    ///  0  savepoint, a commit that records allocations under it, a second savepoint AT that commit, restore of
    ///     the second one (the boundary key of DATA_ALLOCATED / unpersisted.allocations / DATA_FREED)
    ///  1  two savepoints separated by non-durable commits that free pages, then restore the newer and the older
    ///     one in the same transaction (restored_transaction, unpersisted freed records)
    ///  2  two persistent savepoints, one of them deleted in a committing transaction that allocates (purge
    ///     horizon with a pending deletion), then restore of the remaining one
    ///  3  mixed: savepoint, several commits of both durabilities, restores
    fn directed(&mut self, variant: u64) {
        let writes = |g: &mut Gen, n: usize| {
            for _ in 0..n {
                if !g.dead {
                    g.table_op();
                }
            }
        };
        let nd = |g: &mut Gen, yes: bool| {
            if yes && !g.dead {
                g.set_durability(true);
            }
        };
        self.begin_write();
        writes(self, 2);
        self.commit();
        if self.dead {
            return;
        }
        match variant % 4 {
            0 => {
                self.begin_write();
                self.savepoint(false);
                writes(self, 2);
                nd(self, variant % 8 < 4);
                self.commit();
                if self.dead {
                    return;
                }
                self.begin_write();
                self.savepoint(false);
                if variant % 3 == 0 {
                    writes(self, 1);
                }
                self.restore_pick(1);
                if variant % 5 < 2 && !self.dead {
                    nd(self, variant % 2 == 0);
                    self.commit();
                }
            }
            1 => {
                self.begin_write();
                self.savepoint(false);
                writes(self, 2);
                nd(self, true);
                self.commit();
                if self.dead {
                    return;
                }
                self.begin_write();
                self.savepoint(false);
                writes(self, 2);
                nd(self, variant % 8 < 6);
                self.commit();
                if self.dead {
                    return;
                }
                self.begin_write();
                if variant % 3 == 0 {
                    writes(self, 1);
                }
                self.restore_pick(1);
                if !self.dead {
                    self.restore_pick(2);
                }
                if !self.dead && variant % 5 < 3 {
                    nd(self, variant % 2 == 0);
                    self.commit();
                }
            }
            2 => {
                self.begin_write();
                self.savepoint(true);
                writes(self, 1);
                self.commit();
                if self.dead {
                    return;
                }
                self.begin_write();
                self.savepoint(true);
                writes(self, 2);
                self.commit();
                if self.dead {
                    return;
                }
                self.begin_write();
                self.delete_persistent();
                writes(self, 2);
                self.commit();
                if self.dead {
                    return;
                }
                self.begin_write();
                self.restore_pick(2);
                if !self.dead && variant % 2 == 0 {
                    self.commit();
                }
            }
            _ => {
                self.begin_write();
                self.savepoint(variant % 8 < 4);
                writes(self, 2);
                nd(self, variant % 3 != 0 && variant % 8 >= 4);
                self.commit();
                for k in 0..(1 + variant % 3) {
                    if self.dead {
                        return;
                    }
                    self.begin_write();
                    if k == 1 {
                        self.savepoint(false);
                    }
                    writes(self, 1 + (variant % 2) as usize);
                    nd(self, (variant + k) % 2 == 0);
                    self.commit();
                }
                if self.dead {
                    return;
                }
                self.begin_write();
                if variant % 5 == 1 {
                    writes(self, 1);
                }
                self.restore();
                if variant % 5 == 0 && !self.dead {
                    self.restore();
                }
            }
        }
    }
}

fn run_history(g: &mut Gen, steps: usize) {
    g.after("create", Kind::Opaque);
    if g.hist % 2 == 1 {
        let v = g.r.below(120);
        g.directed(v);
    }
    for _ in 0..steps {
        if g.dead {
            break;
        }
        g.step_once();
    }
    g.quiesce();
}

pub fn main_rec(args: &[String]) {
    let n: usize = args.get(2).map(|s| s.parse().unwrap()).unwrap_or(20);
    let steps: usize = args.get(3).map(|s| s.parse().unwrap()).unwrap_or(40);
    let only: Option<u64> = if args.get(4).map(|s| s.as_str()) == Some("only") { Some(args[5].parse().unwrap()) } else { None };
    let seed = seed_from_env();
    let configs: [(usize, u64); 6] = [(512, 16), (512, 16), (512, 64), (512, 16), (1024, 8), (4096, 0)];
    let todo: Vec<u64> = (0..n as u64).filter(|i| only.map(|o| o == *i).unwrap_or(true)).collect();
    let work = |i: u64| -> Block {
        let hist = i as usize;
        let mut master = Rng::new(seed ^ 0x5eed_c07e);
        let mut r = master.fork(i);
        for _ in 0..3 {
            r.below(7);
        }
        let cfg = configs[hist % configs.len()];
        let mut g = Gen {
            r,
            w: World::create(cfg.0, cfg.1),
            trace: String::new(),
            log: vec![],
            hist,
            step: 0,
            dead: false,
            immediate: true,
            qr: false,
            stats: Default::default(),
            viol: vec![],
            sigs: BTreeSet::new(),
            restores_ok: 0,
            restores_rec: 0,
            restores_after_nd: 0,
            restores_twice: 0,
            restored_in_txn: 0,
        };
        writeln!(g.trace, "H {hist} page={} region_pages={}", cfg.0, cfg.1).unwrap();
        let res = catch(|| run_history(&mut g, steps));
        if let Err(msg) = res {
            let last = g.log.last().cloned().unwrap_or_default();
            g.viol.push(format!("h{} s{}: engine panicked after `{}`: {}", hist, g.step, last, msg.chars().take(300).collect::<String>()));
            g.dead = true;
        }
        let mut b = Block::default();
        b.texts.insert("trace".into(), g.trace.clone());
        b.texts.insert("viol".into(), g.viol.iter().map(|v| v.replace('\n', " ")).collect::<Vec<_>>().join("\n"));
        let mut logs = String::new();
        if !g.viol.is_empty() || only.is_some() {
            writeln!(logs, "history {hist} config {cfg:?}:").unwrap();
            for (k, l) in g.log.iter().enumerate() {
                writeln!(logs, "  {}: {l}", k + 1).unwrap();
            }
        }
        b.texts.insert("logs".into(), logs);
        b.texts.insert("sigs".into(), g.sigs.iter().cloned().collect::<Vec<_>>().join("\n"));
        for (k, v) in &g.stats {
            b.nums.insert(format!("op.{k}"), *v);
        }
        b.nums.insert("states".into(), g.step as u64);
        b.nums.insert("restores_ok".into(), g.restores_ok);
        b.nums.insert("restores_rec".into(), g.restores_rec);
        b.nums.insert("restores_after_nd".into(), g.restores_after_nd);
        b.nums.insert("restores_twice".into(), g.restores_twice);
        if g.dead {
            std::mem::forget(g.w);
        } else {
            g.w.wtx.take().map(|t| t.abort());
            g.w.pins.clear();
        }
        b
    };
    let mut trace = String::new();
    let mut viol: Vec<String> = vec![];
    let mut logs = String::new();
    let mut stats = BTreeMap::<String, u64>::new();
    let mut sigs = BTreeSet::new();
    let mut totals = BTreeMap::<&str, u64>::new();
    let mut nontrivial = 0u64;
    for (i, r) in run_isolated("c07r", &todo, &work) {
        match r {
            Ok(b) => {
                trace.push_str(b.text("trace"));
                for v in b.text("viol").lines().filter(|l| !l.is_empty()) {
                    viol.push(v.to_string());
                }
                logs.push_str(b.text("logs"));
                for s in b.text("sigs").lines() {
                    sigs.insert(s.to_string());
                }
                for (k, v) in &b.nums {
                    if let Some(kk) = k.strip_prefix("op.") {
                        *stats.entry(kk.to_string()).or_default() += v;
                    }
                }
                for k in ["states", "restores_ok", "restores_rec", "restores_after_nd", "restores_twice"] {
                    *totals.entry(k).or_default() += b.num(k);
                }
                if b.num("restores_rec") > 0 {
                    nontrivial += 1;
                }
            }
            Err(e) => viol.push(format!("h{i}: {e}")),
        }
    }
    std::fs::write("rtrace.txt", trace).unwrap();
    std::fs::write("rrust_viol.txt", viol.join("\n")).unwrap();
    std::fs::write("rhistory_logs.txt", logs).unwrap();
    let mut st = String::new();
    for (k, v) in &stats {
        write!(st, "{k}={v} ").unwrap();
    }
    let tot = |k: &str| totals.get(k).copied().unwrap_or(0);
    println!(
        "rec: histories={} states={} distinct_situations={} histories_with_record_restore={} restores_ok={} restores_using_records={} restores_after_nondurable={} second_restore_in_txn={} rust_violations={}",
        todo.len(), tot("states"), sigs.len(), nontrivial, tot("restores_ok"), tot("restores_rec"),
        tot("restores_after_nd"), tot("restores_twice"), viol.len()
    );
    println!("rec ops: {st}");
}
