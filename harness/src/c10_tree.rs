//! C10 writer-model correspondence: for a sample of committed tables, the LOGICAL tree (per node: kind,
//! page number, keys, values -- from the read-only hook `Table::verif_shape` plus a plain iteration) is
//! written next to the storage image taken right after the durable commit.  The extracted Coq writer
//! (`encode_tree`: LeafBuilder / BranchBuilder layouts + bottom-up checksums) applied to that logical tree
//! and those page numbers must reproduce, byte for byte, what the crate left in the image at those pages up
//! to the covered length, and the root BtreeHeader the catalog stores for the table.
//!
//! tree file:   T page_size=<n> fill=<0|255> ks=<n|var> vs=<n|var> name=<hex> len=<n> nodes=<n>
//!              N <depth> L <region> <index> <order> <n> <keyhex>:<valuehex> ...
//!              N <depth> B <region> <index> <order> <nchildren> <keyhex> ...          (pre-order)
#![allow(dead_code)]

use crate::util;
use crate::util::{GenCfg, Op, Ow, Stats, COMBOS};
use redb::{ReadableTable, ReadableTableMetadata};
use rv_harness::backend::RecBackend;
use rv_harness::{hex, Rng};
use std::fmt::Write as _;
use std::path::Path;

pub struct TreeStats {
    pub cases: u64,
    pub nodes: u64,
    pub branches: u64,
    pub max_height: u32,
    pub two_level: u64,
    pub three_level: u64,
    pub high_order_pages: u64,
    pub empty: u64,
    pub errors: Vec<String>,
}

fn width_s(w: Option<usize>) -> String {
    match w {
        Some(x) => x.to_string(),
        None => "var".to_string(),
    }
}

/// shape + contents of table `name` as a fresh write transaction sees the committed tree
fn dump<K: redb::Key + 'static, V: redb::Value + 'static>(
    db: &redb::Database,
    name: &str,
    page_size: usize,
    st: &mut TreeStats,
) -> Result<String, String> {
    let txn = db.begin_write().map_err(|e| e.to_string())?;
    let mut out = String::new();
    {
        let def: redb::TableDefinition<K, V> = redb::TableDefinition::new(name);
        let t = txn.open_table(def).map_err(|e| e.to_string())?;
        let shape = t.verif_shape().map_err(|e| e.to_string())?;
        let mut entries: Vec<(Vec<u8>, Vec<u8>)> = vec![];
        for e in t.iter().map_err(|e| e.to_string())? {
            let (k, v) = e.map_err(|e| e.to_string())?;
            let kb = K::as_bytes(&k.value()).as_ref().to_vec();
            let vb = V::as_bytes(&v.value()).as_ref().to_vec();
            entries.push((kb, vb));
        }
        if t.len().map_err(|e| e.to_string())? != entries.len() as u64 || shape.length != entries.len() as u64 {
            return Err("table length differs from the entries iterated".to_string());
        }
        writeln!(
            out,
            "T page_size={} fill={} ks={} vs={} name={} len={} nodes={}",
            page_size,
            // reserved page bytes keep the fill of a freshly allocated page: 0xFF under debug_assertions, else 0
            if cfg!(debug_assertions) { 255 } else { 0 },
            width_s(K::fixed_width()),
            width_s(V::fixed_width()),
            hex(name.as_bytes()),
            shape.length,
            shape.nodes.len()
        )
        .unwrap();
        let mut next = 0usize;
        let mut height = 0u32;
        for n in &shape.nodes {
            height = height.max(n.depth);
            st.nodes += 1;
            if n.page.order > 0 {
                st.high_order_pages += 1;
            }
            if n.leaf {
                write!(out, "N {} L {} {} {} {}", n.depth, n.page.region, n.page.index, n.page.order, n.keys.len()).unwrap();
                for (i, k) in n.keys.iter().enumerate() {
                    let (ek, ev) = entries.get(next).ok_or("fewer entries iterated than leaf keys in the shape")?;
                    if ek != k || ev.len() != n.value_lens[i] {
                        return Err("leaf keys of the shape differ from the iteration order".to_string());
                    }
                    write!(out, " {}:{}", hex(ek), hex(ev)).unwrap();
                    next += 1;
                }
                writeln!(out).unwrap();
            } else {
                st.branches += 1;
                write!(out, "N {} B {} {} {} {}", n.depth, n.page.region, n.page.index, n.page.order, n.children).unwrap();
                for k in &n.keys {
                    write!(out, " {}", hex(k)).unwrap();
                }
                writeln!(out).unwrap();
            }
        }
        if next != entries.len() {
            return Err("more entries iterated than leaf keys in the shape".to_string());
        }
        if shape.nodes.is_empty() {
            st.empty += 1;
        } else {
            st.max_height = st.max_height.max(height);
            if height == 1 {
                st.two_level += 1;
            }
            if height >= 2 {
                st.three_level += 1;
            }
        }
    }
    txn.abort().map_err(|e| e.to_string())?;
    Ok(out)
}

fn dump_combo(db: &redb::Database, combo: usize, name: &str, page_size: usize, st: &mut TreeStats) -> Result<String, String> {
    match combo {
        0 => dump::<u64, &[u8]>(db, name, page_size, st),
        1 => dump::<&str, &str>(db, name, page_size, st),
        2 => dump::<&[u8], u64>(db, name, page_size, st),
        3 => dump::<i32, &[u8]>(db, name, page_size, st),
        4 => dump::<&[u8; 8], u64>(db, name, page_size, st),
        5 => dump::<(u64, u64), &[u8]>(db, name, page_size, st),
        6 => dump::<u128, ()>(db, name, page_size, st),
        _ => unreachable!(),
    }
}

fn one_case(i: u64, r: &mut Rng, out: &Path, index: &mut String, st: &mut TreeStats) -> Result<(), String> {
    let page_size = *r.pick(&[512usize, 512, 512, 1024, 4096]);
    let region_size = page_size as u64 * *r.pick(&[64u64, 128, 256]);
    let combo = r.below(7) as usize;
    let name = format!("tw{i}");
    let plen = *r.pick(&[0usize, 8, 40]);
    let prefix: Vec<u8> = (0..plen).map(|j| (j as u8).wrapping_mul(11).wrapping_add(i as u8)).collect();
    let cfg = GenCfg { page_size, prefix };
    let be = RecBackend::new();
    be.0.lock().unwrap().record = false;
    let mut b = redb::Database::builder();
    b.verif_set_page_size(page_size);
    b.verif_set_region_size(region_size);
    let db = b.create_with_backend(util::cur::Be(be.handle())).map_err(|e| format!("open: {e}"))?;
    let mut stats = Stats::default();
    let c = COMBOS[combo];
    let mut present: Vec<Ow> = vec![];
    let ntx = r.range(1, 4);
    // tier of the case: tiny / one or two leaves / multi-level / multi-level with deletions
    let tier = i % 4;
    for _ in 0..ntx {
        let txn = db.begin_write().map_err(|e| e.to_string())?;
        let nops = match tier {
            0 => r.range(0, 6),
            1 => r.range(6, 30),
            _ => r.range(40, 220),
        };
        for _ in 0..nops {
            let op = match r.below(20) {
                0..=13 => Op::Ins(util::gen_key(r, c.k, &cfg), util::gen_value(r, c.v, &cfg, &mut stats, tier == 3)),
                14..=17 if !present.is_empty() => Op::Rem(r.pick(&present).clone()),
                18 => Op::PopFirst,
                19 => Op::PopLast,
                _ => Op::Ins(util::gen_key(r, c.k, &cfg), util::gen_value(r, c.v, &cfg, &mut stats, false)),
            };
            if let Op::Ins(k, _) = &op {
                present.push(k.clone());
            }
            util::cur::apply(&txn, combo, &name, &op).map_err(|e| format!("op {op:?}: {e}"))?;
        }
        // make sure the table exists even when no operation ran
        util::cur::apply(&txn, combo, &name, &Op::Rem(util::gen_key(r, c.k, &cfg))).map_err(|e| e.to_string())?;
        txn.commit().map_err(|e| format!("commit: {e}"))?;
    }
    let img = be.snapshot();
    let tree = dump_combo(&db, combo, &name, page_size, st)?;
    let tf = format!("tree_{i}.txt");
    let imf = format!("timg_{i}.bin");
    std::fs::write(out.join(&tf), tree).unwrap();
    std::fs::write(out.join(&imf), img).unwrap();
    writeln!(index, "{tf} {imf} page_size={page_size} combo={combo}").unwrap();
    st.cases += 1;
    Ok(())
}

pub fn run(n: u64, r: &mut Rng, out: &Path) -> TreeStats {
    let mut st = TreeStats { cases: 0, nodes: 0, branches: 0, max_height: 0, two_level: 0, three_level: 0, high_order_pages: 0, empty: 0, errors: vec![] };
    let mut index = String::new();
    for i in 0..n {
        let mut cr = r.fork(0x7ee0 + i);
        match rv_harness::catch(|| one_case(i, &mut cr, out, &mut index, &mut st)) {
            Ok(Ok(())) => {}
            Ok(Err(e)) => st.errors.push(format!("tree case {i}: {e}")),
            Err(p) => st.errors.push(format!("tree case {i}: PANIC {p}")),
        }
    }
    std::fs::write(out.join("trees.txt"), index).unwrap();
    st
}

impl TreeStats {
    pub fn summary(&self) -> String {
        format!(
            "tree_cases={} nodes={} branches={} max_height={} two_level={} three_level={} high_order_pages={} empty={} harness_errors={}",
            self.cases, self.nodes, self.branches, self.max_height, self.two_level, self.three_level, self.high_order_pages, self.empty, self.errors.len()
        ) + &self.errors.iter().take(5).map(|e| format!(" | ERROR {}", e.replace('\n', " "))).collect::<String>()
    }
}
