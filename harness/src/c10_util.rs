//! Shared by c10.rs and c19.rs: history generator + plain sorted-map spec, instantiated for the working
//! tree (`redb`) and for redb 3.0.0 (`redb3`) by one macro, so both writers run the same histories.
#![allow(dead_code, unused_macros, clippy::all)]

use rv_harness::backend::RecBackend;
use rv_harness::{Rng, hex};
use std::collections::{BTreeMap, BTreeSet};
use std::fmt::Write as _;
use std::path::Path;

/// which crate writes the history
pub enum Mode {
    Current,
    /// working tree writing files redb 3.0.0 can open: 3.0.0 insists on its default page size
    CurrentFor3,
    V3,
}

/// owned values of the key/value types used; one table uses one variant, so the derived order is the
/// order of that Rust type
#[derive(Clone, PartialEq, Eq, PartialOrd, Ord, Debug)]
pub enum Ow {
    U64(u64),
    Str(String),
    Bytes(Vec<u8>),
    I32(i32),
    Arr8([u8; 8]),
    Tup(u64, u64),
    U128(u128),
    Unit,
}

#[derive(Clone, Copy, PartialEq, Eq, Debug)]
pub enum Ty {
    U64,
    Str,
    Bytes,
    I32,
    Arr8,
    Tup,
    U128,
    Unit,
}

#[derive(Clone, Copy, Debug)]
pub struct Combo {
    pub multi: bool,
    pub k: Ty,
    pub v: Ty,
}

pub const COMBOS: [Combo; 11] = [
    Combo { multi: false, k: Ty::U64, v: Ty::Bytes },
    Combo { multi: false, k: Ty::Str, v: Ty::Str },
    Combo { multi: false, k: Ty::Bytes, v: Ty::U64 },
    Combo { multi: false, k: Ty::I32, v: Ty::Bytes },
    Combo { multi: false, k: Ty::Arr8, v: Ty::U64 },
    Combo { multi: false, k: Ty::Tup, v: Ty::Bytes },
    Combo { multi: false, k: Ty::U128, v: Ty::Unit },
    Combo { multi: true, k: Ty::U64, v: Ty::Bytes },
    Combo { multi: true, k: Ty::Str, v: Ty::U64 },
    Combo { multi: true, k: Ty::Bytes, v: Ty::Str },
    Combo { multi: true, k: Ty::I32, v: Ty::Arr8 },
];
/// combos whose type names contain a composite ([u8;8], tuple): the working tree stores them with a
/// classification byte redb 3.0.0 does not know
pub fn combo_is_composite(c: usize) -> bool {
    matches!(COMBOS[c].k, Ty::Arr8 | Ty::Tup) || matches!(COMBOS[c].v, Ty::Arr8 | Ty::Tup)
}

#[derive(Clone, Debug)]
pub enum Op {
    Ins(Ow, Ow),
    Rem(Ow),
    PopFirst,
    PopLast,
    MIns(Ow, Ow),
    MRem(Ow, Ow),
    MRemAll(Ow),
    Drop,
}

#[derive(Clone, Default, Debug, PartialEq, Eq)]
pub struct TableSt {
    pub normal: BTreeMap<Ow, Ow>,
    pub multi: BTreeMap<Ow, BTreeSet<Ow>>,
}

/// table index (into the history's table list) -> state; presence = the table exists
#[derive(Clone, Default, Debug, PartialEq, Eq)]
pub struct Spec {
    pub tables: BTreeMap<usize, TableSt>,
}

#[derive(Clone, Debug)]
pub struct TableDecl {
    pub name: String,
    pub combo: usize,
}

#[derive(Default)]
pub struct Stats {
    pub histories: u64,
    pub images: u64,
    pub durable: u64,
    pub nondurable: u64,
    pub two_phase: u64,
    pub quick_repair: u64,
    pub aborts: u64,
    pub eph_savepoints: u64,
    pub pers_savepoints: u64,
    pub restores: u64,
    pub deleted_savepoints: u64,
    pub compactions: u64,
    pub reopens: u64,
    pub closes: u64,
    pub ops: BTreeMap<&'static str, u64>,
    pub big_values: u64,
    pub page_sizes: BTreeMap<u64, u64>,
    pub combos: BTreeMap<usize, u64>,
    pub errors: Vec<String>,
}

impl Stats {
    pub fn op(&mut self, k: &'static str) {
        *self.ops.entry(k).or_insert(0) += 1;
    }
    pub fn summary(&self) -> String {
        let ops: Vec<String> = self.ops.iter().map(|(k, v)| format!("{k}:{v}")).collect();
        let ps: Vec<String> = self.page_sizes.iter().map(|(k, v)| format!("{k}:{v}")).collect();
        let cs: Vec<String> = self.combos.iter().map(|(k, v)| format!("{k}:{v}")).collect();
        format!(
            "histories={} images={} durable={} nondurable={} two_phase={} quick_repair={} aborts={} eph_savepoints={} pers_savepoints={} restores={} deleted_savepoints={} compactions={} reopens={} closes={} big_values={} ops={} page_sizes={} combos={} harness_errors={}",
            self.histories, self.images, self.durable, self.nondurable, self.two_phase, self.quick_repair,
            self.aborts, self.eph_savepoints, self.pers_savepoints, self.restores, self.deleted_savepoints,
            self.compactions, self.reopens, self.closes, self.big_values, ops.join(","), ps.join(","),
            cs.join(","), self.errors.len()
        ) + &self.errors.iter().take(5).map(|e| format!(" | ERROR {}", e.replace('\n', " "))).collect::<String>()
    }
}

/// features the generator must avoid, comma separated in H_AVOID (e.g. "nondurable,savepoint")
pub fn avoid(f: &str) -> bool {
    std::env::var("H_AVOID").map(|v| v.split(',').any(|x| x == f)).unwrap_or(false)
}

pub fn tov<T: AsRef<[u8]>>(t: T) -> Vec<u8> {
    t.as_ref().to_vec()
}

// ---------------------------------------------------------------- value generators

pub struct GenCfg {
    pub page_size: usize,
    /// long common prefix for variable-width keys (exercises shortened separators)
    pub prefix: Vec<u8>,
}

pub fn gen_key(r: &mut Rng, ty: Ty, cfg: &GenCfg) -> Ow {
    match ty {
        Ty::U64 => Ow::U64(match r.below(8) {
            0 => u64::MAX - r.below(3),
            1 => 1u64 << r.below(64),
            _ => r.below(60),
        }),
        Ty::I32 => Ow::I32(match r.below(8) {
            0 => i32::MIN + r.below(3) as i32,
            1 => i32::MAX - r.below(3) as i32,
            _ => r.below(50) as i32 - 25,
        }),
        Ty::U128 => Ow::U128(match r.below(6) {
            0 => u128::MAX - r.below(3) as u128,
            1 => 1u128 << r.below(128),
            _ => r.below(60) as u128,
        }),
        Ty::Arr8 => {
            let mut a = [0u8; 8];
            let n = r.below(40);
            a[7] = n as u8;
            a[0] = (n % 3) as u8 * 0x7f;
            Ow::Arr8(a)
        }
        Ty::Tup => Ow::Tup(r.below(4), r.below(12)),
        Ty::Str => {
            let mut s: Vec<u8> = match r.below(4) {
                0 => vec![],
                _ => cfg.prefix.iter().map(|b| b'a' + (b % 26)).collect(),
            };
            let n = r.below(60);
            // suffixes that share prefixes among themselves as well
            s.extend(format!("{:03}", n).bytes());
            if r.chance(1, 5) {
                s.extend(b"/x");
            }
            Ow::Str(String::from_utf8(s).unwrap())
        }
        Ty::Bytes => {
            let mut s: Vec<u8> = match r.below(4) {
                0 => vec![],
                _ => cfg.prefix.clone(),
            };
            let n = r.below(60) as u8;
            s.push(n / 8);
            s.push(n % 8 * 32);
            if r.chance(1, 6) {
                s.push(0xff);
            }
            Ow::Bytes(s)
        }
        Ty::Unit => Ow::Unit,
    }
}

pub fn gen_value(r: &mut Rng, ty: Ty, cfg: &GenCfg, stats: &mut Stats, allow_big: bool) -> Ow {
    let len = match r.below(20) {
        0 => 0,
        1..=9 => r.range(1, 24) as usize,
        10..=16 => r.range(25, 200) as usize,
        17 | 18 => r.range(200, cfg.page_size as u64) as usize,
        _ => {
            if allow_big {
                stats.big_values += 1;
                r.range(cfg.page_size as u64, 3 * cfg.page_size as u64 + 100) as usize
            } else {
                r.range(1, 60) as usize
            }
        }
    };
    match ty {
        Ty::Bytes => Ow::Bytes(r.bytes(len)),
        Ty::Str => Ow::Str((0..len).map(|_| (b'a' + r.below(26) as u8) as char).collect()),
        Ty::U64 => Ow::U64(if r.chance(1, 4) { r.next_u64() } else { r.below(1000) }),
        Ty::Unit => Ow::Unit,
        _ => gen_key(r, ty, cfg),
    }
}

/// values of a multimap are keys themselves; keep them small-ish but numerous
pub fn gen_mvalue(r: &mut Rng, ty: Ty, cfg: &GenCfg) -> Ow {
    match ty {
        Ty::Bytes => {
            let n = r.below(200);
            let mut v = format!("{:04}", n).into_bytes();
            let extra = match r.below(14) {
                0 | 1 => r.range(30, 120) as usize,
                // a value of half a page up to almost a page: it sits alone in a leaf of the value subtree, so that
                // removing it deletes a whole leaf (branch collapse onto a sibling that may be a committed page)
                2 => r.range(cfg.page_size as u64 / 2 - 20, cfg.page_size as u64 - 80) as usize,
                _ => r.below(6) as usize,
            };
            v.extend(std::iter::repeat(b'.').take(extra));
            Ow::Bytes(v)
        }
        Ty::Str => {
            let n = r.below(200);
            let mut v = format!("v{:04}", n);
            if r.chance(1, 6) {
                v.push_str(&"-".repeat(r.range(30, 100) as usize));
            }
            Ow::Str(v)
        }
        Ty::U64 => Ow::U64(r.below(400)),
        _ => gen_key(r, ty, cfg),
    }
}

// ---------------------------------------------------------------- spec

pub fn spec_apply(spec: &mut Spec, t: usize, multi: bool, op: &Op) {
    if matches!(op, Op::Drop) {
        spec.tables.remove(&t);
        return;
    }
    let st = spec.tables.entry(t).or_default();
    match op {
        Op::Ins(k, v) => {
            st.normal.insert(k.clone(), v.clone());
        }
        Op::Rem(k) => {
            st.normal.remove(k);
        }
        Op::PopFirst => {
            if let Some(k) = st.normal.keys().next().cloned() {
                st.normal.remove(&k);
            }
        }
        Op::PopLast => {
            if let Some(k) = st.normal.keys().next_back().cloned() {
                st.normal.remove(&k);
            }
        }
        Op::MIns(k, v) => {
            st.multi.entry(k.clone()).or_default().insert(v.clone());
        }
        Op::MRem(k, v) => {
            if let Some(s) = st.multi.get_mut(k) {
                s.remove(v);
                if s.is_empty() {
                    st.multi.remove(k);
                }
            }
        }
        Op::MRemAll(k) => {
            st.multi.remove(k);
        }
        Op::Drop => {}
    }
    let _ = multi;
}

// ---------------------------------------------------------------- per-crate instantiation

macro_rules! rty {
    (U64) => { u64 };
    (Str) => { &'static str };
    (Bytes) => { &'static [u8] };
    (I32) => { i32 };
    (Arr8) => { &'static [u8; 8] };
    (Tup) => { (u64, u64) };
    (U128) => { u128 };
    (Unit) => { () };
}
macro_rules! conv {
    (U64, $o:expr) => { match $o { Ow::U64(x) => *x, _ => unreachable!() } };
    (Str, $o:expr) => { match $o { Ow::Str(x) => x.as_str(), _ => unreachable!() } };
    (Bytes, $o:expr) => { match $o { Ow::Bytes(x) => x.as_slice(), _ => unreachable!() } };
    (I32, $o:expr) => { match $o { Ow::I32(x) => *x, _ => unreachable!() } };
    (Arr8, $o:expr) => { match $o { Ow::Arr8(x) => x, _ => unreachable!() } };
    (Tup, $o:expr) => { match $o { Ow::Tup(a, b) => (*a, *b), _ => unreachable!() } };
    (U128, $o:expr) => { match $o { Ow::U128(x) => *x, _ => unreachable!() } };
    (Unit, $o:expr) => { match $o { Ow::Unit => (), _ => unreachable!() } };
}

macro_rules! per_crate {
    ($m:ident, $c:ident) => {
        pub mod $m {
            use super::*;
            use $c::{ReadableDatabase, ReadableMultimapTable, ReadableTable, ReadableTableMetadata};

            #[derive(Debug, Clone)]
            pub struct Be(pub RecBackend);
            impl $c::StorageBackend for Be {
                fn len(&self) -> std::io::Result<u64> {
                    redb::StorageBackend::len(&self.0)
                }
                fn read(&self, offset: u64, out: &mut [u8]) -> std::io::Result<()> {
                    redb::StorageBackend::read(&self.0, offset, out)
                }
                fn set_len(&self, len: u64) -> std::io::Result<()> {
                    redb::StorageBackend::set_len(&self.0, len)
                }
                fn sync_data(&self) -> std::io::Result<()> {
                    redb::StorageBackend::sync_data(&self.0)
                }
                fn write(&self, offset: u64, data: &[u8]) -> std::io::Result<()> {
                    redb::StorageBackend::write(&self.0, offset, data)
                }
                fn close(&self) -> std::io::Result<()> {
                    redb::StorageBackend::close(&self.0)
                }
            }

            macro_rules! enc_ty {
                ($t:ident, $o:expr) => {{
                    let x = conv!($t, $o);
                    tov(<rty!($t) as $c::Value>::as_bytes(&x))
                }};
            }
            pub fn enc(ty: Ty, o: &Ow) -> Vec<u8> {
                match ty {
                    Ty::U64 => enc_ty!(U64, o),
                    Ty::Str => enc_ty!(Str, o),
                    Ty::Bytes => enc_ty!(Bytes, o),
                    Ty::I32 => enc_ty!(I32, o),
                    Ty::Arr8 => enc_ty!(Arr8, o),
                    Ty::Tup => enc_ty!(Tup, o),
                    Ty::U128 => enc_ty!(U128, o),
                    Ty::Unit => enc_ty!(Unit, o),
                }
            }

            macro_rules! normal_ops {
                ($k:ident, $v:ident, $txn:expr, $name:expr, $op:expr) => {{
                    let def: $c::TableDefinition<rty!($k), rty!($v)> = $c::TableDefinition::new($name);
                    match $op {
                        Op::Drop => {
                            $txn.delete_table(def).map_err(|e| e.to_string())?;
                        }
                        _ => {
                            let mut t = $txn.open_table(def).map_err(|e| e.to_string())?;
                            match $op {
                                Op::Ins(k, v) => {
                                    t.insert(conv!($k, k), conv!($v, v)).map_err(|e| e.to_string())?;
                                }
                                Op::Rem(k) => {
                                    t.remove(conv!($k, k)).map_err(|e| e.to_string())?;
                                }
                                Op::PopFirst => {
                                    t.pop_first().map_err(|e| e.to_string())?;
                                }
                                Op::PopLast => {
                                    t.pop_last().map_err(|e| e.to_string())?;
                                }
                                _ => unreachable!(),
                            }
                        }
                    }
                }};
            }
            macro_rules! multi_ops {
                ($k:ident, $v:ident, $txn:expr, $name:expr, $op:expr) => {{
                    let def: $c::MultimapTableDefinition<rty!($k), rty!($v)> = $c::MultimapTableDefinition::new($name);
                    match $op {
                        Op::Drop => {
                            $txn.delete_multimap_table(def).map_err(|e| e.to_string())?;
                        }
                        _ => {
                            let mut t = $txn.open_multimap_table(def).map_err(|e| e.to_string())?;
                            match $op {
                                Op::MIns(k, v) => {
                                    t.insert(conv!($k, k), conv!($v, v)).map_err(|e| e.to_string())?;
                                }
                                Op::MRem(k, v) => {
                                    t.remove(conv!($k, k), conv!($v, v)).map_err(|e| e.to_string())?;
                                }
                                Op::MRemAll(k) => {
                                    t.remove_all(conv!($k, k)).map_err(|e| e.to_string())?;
                                }
                                _ => unreachable!(),
                            }
                        }
                    }
                }};
            }

            pub fn apply(txn: &$c::WriteTransaction, combo: usize, name: &str, op: &Op) -> Result<(), String> {
                match combo {
                    0 => normal_ops!(U64, Bytes, txn, name, op),
                    1 => normal_ops!(Str, Str, txn, name, op),
                    2 => normal_ops!(Bytes, U64, txn, name, op),
                    3 => normal_ops!(I32, Bytes, txn, name, op),
                    4 => normal_ops!(Arr8, U64, txn, name, op),
                    5 => normal_ops!(Tup, Bytes, txn, name, op),
                    6 => normal_ops!(U128, Unit, txn, name, op),
                    7 => multi_ops!(U64, Bytes, txn, name, op),
                    8 => multi_ops!(Str, U64, txn, name, op),
                    9 => multi_ops!(Bytes, Str, txn, name, op),
                    10 => multi_ops!(I32, Arr8, txn, name, op),
                    _ => unreachable!(),
                }
                Ok(())
            }

            macro_rules! normal_dump {
                ($k:ident, $v:ident, $txn:expr, $name:expr, $out:expr) => {{
                    let def: $c::TableDefinition<rty!($k), rty!($v)> = $c::TableDefinition::new($name);
                    let t = $txn.open_table(def).map_err(|e| e.to_string())?;
                    writeln!($out, "table {} normal", hex($name.as_bytes())).unwrap();
                    let mut n = 0u64;
                    for e in t.iter().map_err(|e| e.to_string())? {
                        let (k, v) = e.map_err(|e| e.to_string())?;
                        let kb = tov(<rty!($k) as $c::Value>::as_bytes(&k.value()));
                        let vb = tov(<rty!($v) as $c::Value>::as_bytes(&v.value()));
                        writeln!($out, "kv {} {}", hex(&kb), hex(&vb)).unwrap();
                        n += 1;
                    }
                    if t.len().map_err(|e| e.to_string())? != n {
                        return Err(format!("table {} len() differs from the number of entries iterated", $name));
                    }
                }};
            }
            macro_rules! multi_dump {
                ($k:ident, $v:ident, $txn:expr, $name:expr, $out:expr) => {{
                    let def: $c::MultimapTableDefinition<rty!($k), rty!($v)> = $c::MultimapTableDefinition::new($name);
                    let t = $txn.open_multimap_table(def).map_err(|e| e.to_string())?;
                    writeln!($out, "table {} multimap", hex($name.as_bytes())).unwrap();
                    let mut n = 0u64;
                    for e in t.iter().map_err(|e| e.to_string())? {
                        let (k, vs) = e.map_err(|e| e.to_string())?;
                        let kb = tov(<rty!($k) as $c::Value>::as_bytes(&k.value()));
                        let mut line = format!("kvs {}", hex(&kb));
                        for v in vs {
                            let v = v.map_err(|e| e.to_string())?;
                            let vb = tov(<rty!($v) as $c::Value>::as_bytes(&v.value()));
                            write!(line, " {}", hex(&vb)).unwrap();
                            n += 1;
                        }
                        writeln!($out, "{}", line).unwrap();
                    }
                    if t.len().map_err(|e| e.to_string())? != n {
                        return Err(format!("multimap table {} len() differs from the number of values iterated", $name));
                    }
                }};
            }

            /// contents of one table as this crate reads them (same text format as `expected`)
            pub fn dump_table(txn: &$c::ReadTransaction, combo: usize, name: &str, out: &mut String) -> Result<(), String> {
                match combo {
                    0 => normal_dump!(U64, Bytes, txn, name, out),
                    1 => normal_dump!(Str, Str, txn, name, out),
                    2 => normal_dump!(Bytes, U64, txn, name, out),
                    3 => normal_dump!(I32, Bytes, txn, name, out),
                    4 => normal_dump!(Arr8, U64, txn, name, out),
                    5 => normal_dump!(Tup, Bytes, txn, name, out),
                    6 => normal_dump!(U128, Unit, txn, name, out),
                    7 => multi_dump!(U64, Bytes, txn, name, out),
                    8 => multi_dump!(Str, U64, txn, name, out),
                    9 => multi_dump!(Bytes, Str, txn, name, out),
                    10 => multi_dump!(I32, Arr8, txn, name, out),
                    _ => unreachable!(),
                }
                Ok(())
            }

            /// what the spec says the user tables contain, in key order of the Rust types
            pub fn expected(spec: &Spec, decls: &[TableDecl]) -> String {
                let mut byname: Vec<(&str, usize)> = spec.tables.keys().map(|t| (decls[*t].name.as_str(), *t)).collect();
                byname.sort();
                let mut out = String::new();
                for (name, t) in byname {
                    let c = COMBOS[decls[t].combo];
                    let st = &spec.tables[&t];
                    if c.multi {
                        writeln!(out, "table {} multimap", hex(name.as_bytes())).unwrap();
                        for (k, vs) in &st.multi {
                            let mut line = format!("kvs {}", hex(&enc(c.k, k)));
                            for v in vs {
                                write!(line, " {}", hex(&enc(c.v, v))).unwrap();
                            }
                            writeln!(out, "{}", line).unwrap();
                        }
                    } else {
                        writeln!(out, "table {} normal", hex(name.as_bytes())).unwrap();
                        for (k, v) in &st.normal {
                            writeln!(out, "kv {} {}", hex(&enc(c.k, k)), hex(&enc(c.v, v))).unwrap();
                        }
                    }
                }
                out
            }

            /// open `bytes` with this crate, dump the given tables (sorted by name), run check_integrity
            /// returns (contents, check_integrity result, did the reader grow the file while opening it)
            pub fn read_back(bytes: Vec<u8>, decls: &[(String, usize)]) -> Result<(String, String, bool), String> {
                let len0 = bytes.len();
                let be = RecBackend::with_data(bytes);
                let mut db = $c::Database::builder().create_with_backend(Be(be.handle())).map_err(|e| format!("open: {e}"))?;
                let grew = be.0.lock().unwrap().data.len() > len0;
                let mut out = String::new();
                {
                    let txn = db.begin_read().map_err(|e| e.to_string())?;
                    let mut d: Vec<&(String, usize)> = decls.iter().collect();
                    d.sort();
                    for (name, combo) in d {
                        dump_table(&txn, *combo, name, &mut out)?;
                    }
                }
                // persistent savepoints must be listable (their records parse) by this reader
                let nsp = {
                    let txn = db.begin_write().map_err(|e| e.to_string())?;
                    let n = txn.list_persistent_savepoints().map_err(|e| format!("list_persistent_savepoints: {e}"))?.count();
                    txn.abort().map_err(|e| e.to_string())?;
                    n
                };
                writeln!(out, "savepoints {nsp}").unwrap();
                let integ = match db.check_integrity() {
                    Ok(b) => format!("Ok({b})"),
                    Err(e) => format!("Err({e})"),
                };
                Ok((out, integ, grew))
            }

            pub struct Sp {
                pub seq: u64,
                pub persistent_id: Option<u64>,
                pub eph: Option<$c::Savepoint>,
                pub snapshot: Spec,
            }

            pub struct Hist<'a> {
                pub h: u64,
                pub out: &'a Path,
                pub index: &'a mut String,
                pub stats: &'a mut Stats,
                pub img: u64,
                pub page_size: usize,
                pub region_size: u64,
                pub decls: Vec<TableDecl>,
                pub committed: Spec,
                pub cfg: GenCfg,
                pub be: RecBackend,
                pub sps: Vec<Sp>,
                pub seq: u64,
                /// image index after which the file is known NOT cleanly closed (for crash-copy use)
                pub last_event: String,
                /// directed shape: (table, key, value sitting alone in a leaf of the key's committed value subtree)
                pub planted: Vec<(usize, Ow, Ow)>,
            }

            impl<'a> Hist<'a> {
                pub fn dump(&mut self, event: &str) {
                    let bytes = self.be.snapshot();
                    let img = format!("img_{}_{}.bin", self.h, self.img);
                    let exp = format!("exp_{}_{}.txt", self.h, self.img);
                    std::fs::write(self.out.join(&img), &bytes).unwrap();
                    std::fs::write(self.out.join(&exp), expected(&self.committed, &self.decls)).unwrap();
                    let tables: Vec<String> = self
                        .committed
                        .tables
                        .keys()
                        .map(|t| format!("{}:{}", self.decls[*t].name, self.decls[*t].combo))
                        .collect();
                    writeln!(
                        self.index,
                        "{} {} page_size={} region_size={} event={} savepoints={} tables={}",
                        img,
                        exp,
                        self.page_size,
                        self.region_size,
                        event,
                        self.sps.iter().filter(|s| s.persistent_id.is_some()).count(),
                        if tables.is_empty() { "-".to_string() } else { tables.join(",") }
                    )
                    .unwrap();
                    self.img += 1;
                    self.stats.images += 1;
                    self.last_event = event.to_string();
                }

                pub fn open(&self, mode_current: bool) -> Result<$c::Database, String> {
                    let mut b = $c::Database::builder();
                    b.set_cache_size(if self.h % 3 == 0 { 64 * 1024 } else { 4 * 1024 * 1024 });
                    let _ = mode_current;
                    self.configure(&mut b);
                    b.create_with_backend(Be(self.be.handle())).map_err(|e| format!("open: {e}"))
                }

                fn gen_op(&mut self, r: &mut Rng, t: usize, working: &Spec) -> Op {
                    let c = COMBOS[self.decls[t].combo];
                    let existing: Vec<Ow> = working
                        .tables
                        .get(&t)
                        .map(|st| if c.multi { st.multi.keys().cloned().collect() } else { st.normal.keys().cloned().collect() })
                        .unwrap_or_default();
                    // multimap tables get two hot keys so that value sets grow past the inline threshold
                    let hot: Vec<Ow> = (0..2u64).map(|i| gen_key(&mut Rng::new(0xabc0 + 16 * t as u64 + i), c.k, &self.cfg)).collect();
                    let pick_key = |r: &mut Rng, cfg: &GenCfg| -> Ow {
                        if c.multi && r.chance(1, 2) {
                            r.pick(&hot).clone()
                        } else if !existing.is_empty() && r.chance(3, 5) {
                            r.pick(&existing).clone()
                        } else {
                            gen_key(r, c.k, cfg)
                        }
                    };
                    if c.multi {
                        match r.below(40) {
                            0..=29 => {
                                self.stats.op("m_insert");
                                Op::MIns(pick_key(r, &self.cfg), gen_mvalue(r, c.v, &self.cfg))
                            }
                            30..=35 => {
                                self.stats.op("m_remove");
                                let k = pick_key(r, &self.cfg);
                                let v = working
                                    .tables
                                    .get(&t)
                                    .and_then(|st| st.multi.get(&k))
                                    .filter(|_| r.chance(4, 5))
                                    .map(|s| {
                                        let v: Vec<&Ow> = s.iter().collect();
                                        (*r.pick(&v)).clone()
                                    })
                                    .unwrap_or_else(|| gen_mvalue(r, c.v, &self.cfg));
                                Op::MRem(k, v)
                            }
                            36..=38 => {
                                self.stats.op("m_remove_all");
                                Op::MRemAll(pick_key(r, &self.cfg))
                            }
                            _ => {
                                self.stats.op("drop_table");
                                Op::Drop
                            }
                        }
                    } else {
                        // directed: a small pair whose key sorts directly before (or after) a key that holds a value of a
                        // page or more -- such a value sits alone in its leaf ("single large value"), possibly a page
                        // committed by an earlier transaction, and the insert takes the sibling fast path
                        if c.k == Ty::U64 && c.v == Ty::Bytes && r.chance(1, 5) {
                            let big: Vec<u64> = working
                                .tables
                                .get(&t)
                                .map(|st| st.normal.iter().filter_map(|(k, v)| match (k, v) {
                                    (Ow::U64(k), Ow::Bytes(v)) if v.len() >= self.page_size => Some(*k),
                                    _ => None,
                                }).collect())
                                .unwrap_or_default();
                            if !big.is_empty() {
                                let k = *r.pick(&big);
                                let nk = if r.chance(2, 3) { k.wrapping_sub(1) } else { k.wrapping_add(1) };
                                self.stats.op("insert_next_to_large");
                                let n = r.range(0, 20) as usize;
                                return Op::Ins(Ow::U64(nk), Ow::Bytes(r.bytes(n)));
                            }
                        }
                        match r.below(40) {
                            0..=24 => {
                                self.stats.op("insert");
                                let k = pick_key(r, &self.cfg);
                                let v = gen_value(r, c.v, &self.cfg, self.stats, true);
                                Op::Ins(k, v)
                            }
                            25..=34 => {
                                self.stats.op("remove");
                                Op::Rem(pick_key(r, &self.cfg))
                            }
                            35 | 36 => {
                                self.stats.op("pop_first");
                                Op::PopFirst
                            }
                            37 | 38 => {
                                self.stats.op("pop_last");
                                Op::PopLast
                            }
                            _ => {
                                self.stats.op("drop_table");
                                Op::Drop
                            }
                        }
                    }
                }

                /// one write transaction; returns Err on an unexpected crate error
                pub fn write_txn(&mut self, r: &mut Rng, db: &$c::Database) -> Result<(), String> {
                    let mut txn = db.begin_write().map_err(|e| e.to_string())?;
                    let any_persistent = self.sps.iter().any(|s| s.persistent_id.is_some());
                    let mut durable = r.chance(3, 5) || avoid("nondurable");
                    let two_phase = r.chance(1, 4) && !avoid("2pc");
                    let quick = r.chance(1, 5) && !avoid("quick");
                    let mut working = self.committed.clone();
                    let mut new_sp: Option<Sp> = None;
                    let mut restored: Option<u64> = None; // seq of restored savepoint
                    let mut deleted: Option<u64> = None;
                    // savepoint actions come first (the transaction must not be dirty)
                    match r.below(12) + if avoid("savepoint") { 100 } else { 0 } {
                        0 => {
                            let sp = txn.ephemeral_savepoint().map_err(|e| e.to_string())?;
                            self.stats.eph_savepoints += 1;
                            new_sp = Some(Sp { seq: 0, persistent_id: None, eph: Some(sp), snapshot: self.committed.clone() });
                        }
                        1 => {
                            durable = true;
                            let id = txn.persistent_savepoint().map_err(|e| e.to_string())?;
                            self.stats.pers_savepoints += 1;
                            new_sp = Some(Sp { seq: 0, persistent_id: Some(id), eph: None, snapshot: self.committed.clone() });
                        }
                        2 | 3 if !self.sps.is_empty() => {
                            durable = true;
                            let i = r.below(self.sps.len() as u64) as usize;
                            let sp = &self.sps[i];
                            if let Some(id) = sp.persistent_id {
                                let s = txn.get_persistent_savepoint(id).map_err(|e| e.to_string())?;
                                txn.restore_savepoint(&s).map_err(|e| format!("restore persistent: {e}"))?;
                            } else {
                                txn.restore_savepoint(sp.eph.as_ref().unwrap()).map_err(|e| format!("restore ephemeral: {e}"))?;
                            }
                            working = sp.snapshot.clone();
                            restored = Some(sp.seq);
                            self.stats.restores += 1;
                        }
                        4 if any_persistent => {
                            durable = true;
                            let ids: Vec<(u64, u64)> = self.sps.iter().filter_map(|s| s.persistent_id.map(|i| (i, s.seq))).collect();
                            let (id, seq) = *r.pick(&ids);
                            txn.delete_persistent_savepoint(id).map_err(|e| e.to_string())?;
                            deleted = Some(seq);
                            self.stats.deleted_savepoints += 1;
                        }
                        _ => {}
                    }
                    if !durable {
                        txn.set_durability($c::Durability::None).map_err(|e| format!("{e:?}"))?;
                    } else {
                        txn.set_two_phase_commit(two_phase);
                        txn.set_quick_repair(quick);
                    }
                    let nops = match r.below(6) {
                        0 => 0,
                        1 | 2 => r.range(1, 6),
                        3 | 4 => r.range(6, 40),
                        _ => r.range(40, 160),
                    };
                    // directed shape for value subtrees (multimap u64 -> bytes): PLANT a key whose value subtree is a
                    // branch over exactly two leaves -- several small values (together more than half a page) and one
                    // value of almost a page, first or last in value order -- and, in a LATER transaction, PLUCK the
                    // large value alone: its leaf disappears, the branch collapses, and the untouched, already
                    // committed sibling leaf becomes the subtree root (its stored checksum must be carried over)
                    if restored.is_none() {
                        if let Some(pos) = self.planted.iter().position(|(t, k, v)| {
                            working.tables.get(t).and_then(|st| st.multi.get(k)).is_some_and(|s| s.contains(v))
                        }) {
                            if r.chance(1, 2) {
                                let (t, k, v) = self.planted.remove(pos);
                                let op = Op::MRem(k, v);
                                let c = self.decls[t].combo;
                                apply(&txn, c, &self.decls[t].name, &op).map_err(|e| format!("op {op:?}: {e}"))?;
                                spec_apply(&mut working, t, true, &op);
                                self.stats.op("m_pluck_planted");
                            }
                        } else if r.chance(1, 3) {
                            if let Some(t) = (0..self.decls.len()).find(|t| COMBOS[self.decls[*t].combo].multi && COMBOS[self.decls[*t].combo].v == Ty::Bytes && COMBOS[self.decls[*t].combo].k == Ty::U64) {
                                let c = self.decls[t].combo;
                                let k = Ow::U64(0x5eed_0000 + r.below(1 << 16));
                                let ps = self.page_size;
                                let small_len = 40usize;
                                let n_small = (ps * 3 / 5) / (small_len + 8) + 1;
                                let first = r.chance(1, 2);
                                let mut vals: Vec<Ow> = (0..n_small).map(|i| { let mut v = format!("{:04}", 1000 + i).into_bytes(); v.resize(small_len, b'.'); Ow::Bytes(v) }).collect();
                                let mut big = (if first { "0000" } else { "9999" }).to_string().into_bytes();
                                big.resize(ps - 100, b'#');
                                vals.push(Ow::Bytes(big.clone()));
                                for v in vals {
                                    let op = Op::MIns(k.clone(), v);
                                    apply(&txn, c, &self.decls[t].name, &op).map_err(|e| format!("op {op:?}: {e}"))?;
                                    spec_apply(&mut working, t, true, &op);
                                }
                                working.tables.entry(t).or_default();
                                self.planted.push((t, k, Ow::Bytes(big)));
                                self.stats.op("m_plant");
                            }
                        }
                    }
                    for _ in 0..nops {
                        let t = r.below(self.decls.len() as u64) as usize;
                        let op = self.gen_op(r, t, &working);
                        let c = self.decls[t].combo;
                        apply(&txn, c, &self.decls[t].name, &op).map_err(|e| format!("op {op:?} on {}: {e}", self.decls[t].name))?;
                        spec_apply(&mut working, t, COMBOS[c].multi, &op);
                        // opening a table creates it
                        if !matches!(op, Op::Drop) {
                            working.tables.entry(t).or_default();
                        }
                        *self.stats.combos.entry(c).or_insert(0) += 1;
                        // run removal: the values following the removed one, in value order, go too -- whole leaves of a
                        // value subtree are emptied in one transaction
                        if let Op::MRem(k, v) = &op {
                            if r.chance(1, 3) {
                                let succ: Vec<Ow> = working
                                    .tables
                                    .get(&t)
                                    .and_then(|st| st.multi.get(k))
                                    .map(|s| s.iter().filter(|x| *x > v).take(r.range(2, 14) as usize).cloned().collect())
                                    .unwrap_or_default();
                                for x in succ {
                                    let op2 = Op::MRem(k.clone(), x);
                                    apply(&txn, c, &self.decls[t].name, &op2).map_err(|e| format!("op {op2:?}: {e}"))?;
                                    spec_apply(&mut working, t, true, &op2);
                                }
                                self.stats.op("m_remove_run");
                            }
                        }
                        // burst: many values for one multimap key, so the value set leaves the inline form
                        if let Op::MIns(k, _) = &op {
                            if r.chance(1, 6) {
                                let n = r.range(20, if self.page_size <= 1024 { 120 } else { 400 });
                                for _ in 0..n {
                                    let op2 = Op::MIns(k.clone(), gen_mvalue(r, COMBOS[c].v, &self.cfg));
                                    apply(&txn, c, &self.decls[t].name, &op2).map_err(|e| format!("op {op2:?}: {e}"))?;
                                    spec_apply(&mut working, t, true, &op2);
                                }
                                self.stats.op("m_burst");
                            }
                        }
                    }
                    let abort = restored.is_none() && deleted.is_none() && new_sp.is_none() && r.chance(1, 8) && !avoid("abort");
                    if abort {
                        txn.abort().map_err(|e| e.to_string())?;
                        self.stats.aborts += 1;
                        return Ok(());
                    }
                    txn.commit().map_err(|e| format!("commit: {e}"))?;
                    self.committed = working;
                    if let Some(seq) = restored {
                        // savepoints created after the restored one are invalid now
                        self.sps.retain(|s| s.seq <= seq);
                    }
                    if let Some(seq) = deleted {
                        self.sps.retain(|s| s.seq != seq);
                    }
                    if let Some(mut sp) = new_sp {
                        self.seq += 1;
                        sp.seq = self.seq;
                        self.sps.push(sp);
                    }
                    if durable {
                        self.stats.durable += 1;
                        if quick {
                            self.stats.quick_repair += 1;
                            self.dump("commit-quickrepair");
                        } else if two_phase {
                            self.stats.two_phase += 1;
                            self.dump("commit-2pc");
                        } else {
                            self.dump("commit-1pc");
                        }
                    } else {
                        self.stats.nondurable += 1;
                    }
                    Ok(())
                }

                pub fn run(&mut self, r: &mut Rng, mode_current: bool) -> Result<(), String> {
                    let mut db = self.open(mode_current)?;
                    let steps = r.range(4, 14);
                    // savepoint churn (one history in five): a rolling window of three persistent savepoints is rotated
                    // until their ids pass 256, so that the savepoint table holds keys whose little-endian byte order
                    // differs from their numeric order; only the final state is dumped
                    if self.h % 5 == 2 {
                        let mut window: Vec<u64> = vec![];
                        // stop when the window is {255, 256, 257}: byte order 256 < 257 < 255
                        for _ in 0..600 {
                            if window.last().is_some_and(|id| *id >= 257) {
                                break;
                            }
                            let txn = db.begin_write().map_err(|e| format!("begin_write: {e}"))?;
                            let id = txn.persistent_savepoint().map_err(|e| format!("churn savepoint: {e}"))?;
                            if window.len() >= 3 {
                                let old = window.remove(0);
                                txn.delete_persistent_savepoint(old).map_err(|e| format!("churn delete: {e}"))?;
                                self.sps.retain(|s| s.persistent_id != Some(old));
                            }
                            txn.commit().map_err(|e| format!("churn commit: {e}"))?;
                            window.push(id);
                            self.seq += 1;
                            self.sps.push(Sp { seq: self.seq, persistent_id: Some(id), eph: None, snapshot: self.committed.clone() });
                        }
                        self.stats.op("savepoint_churn_past_256");
                        self.stats.durable += 257;
                        self.dump("commit-1pc");
                    }
                    for _ in 0..steps {
                        match r.below(16) {
                            0 => {
                                // compaction needs: no savepoints at all
                                let no_sp = self.sps.is_empty() && !avoid("compact");
                                if no_sp {
                                    match db.compact() {
                                        Ok(_) => {
                                            self.stats.compactions += 1;
                                            self.dump("compact");
                                        }
                                        // redb 3.0.0 sometimes still sees a finished transaction here; skip
                                        Err($c::CompactionError::TransactionInProgress) if !mode_current => {
                                            self.stats.op("compact_refused");
                                        }
                                        Err(e) => return Err(format!("compact: {e}")),
                                    }
                                }
                            }
                            1 => {
                                // clean close and reopen (ephemeral savepoints die with the handle)
                                self.sps.retain(|s| s.persistent_id.is_some());
                                drop(db);
                                self.stats.closes += 1;
                                self.dump("close");
                                db = self.open(mode_current)?;
                                self.stats.reopens += 1;
                            }
                            2 if self.sps.iter().any(|s| s.eph.is_some()) => {
                                // drop one ephemeral savepoint
                                let i = self.sps.iter().position(|s| s.eph.is_some()).unwrap();
                                self.sps.remove(i);
                            }
                            _ => self.write_txn(r, &db)?,
                        }
                    }
                    self.sps.retain(|s| s.persistent_id.is_some());
                    drop(db);
                    self.stats.closes += 1;
                    self.dump("close");
                    Ok(())
                }
            }
        }
    };
}

per_crate!(cur, redb);
per_crate!(v3, redb3);

impl<'a> cur::Hist<'a> {
    fn configure(&self, b: &mut redb::Builder) {
        b.verif_set_page_size(self.page_size);
        b.verif_set_region_size(self.region_size);
    }
}
impl<'a> v3::Hist<'a> {
    fn configure(&self, _b: &mut redb3::Builder) {}
}

pub fn make_decls(r: &mut Rng, allowed: &dyn Fn(usize) -> bool) -> Vec<TableDecl> {
    let n = r.range(1, 7) as usize;
    let mut decls = vec![];
    for i in 0..n {
        let mut c = r.below(COMBOS.len() as u64) as usize;
        while !allowed(c) {
            c = r.below(COMBOS.len() as u64) as usize;
        }
        let name = if r.chance(1, 3) {
            format!("table_with_a_rather_long_name_to_fill_the_catalog_pages_{i:02}_{c}")
        } else {
            format!("t{i}_{c}")
        };
        decls.push(TableDecl { name, combo: c });
    }
    decls
}

pub fn run_history(h: u64, r: &mut Rng, out: &Path, index: &mut String, stats: &mut Stats, mode: &Mode) {
    run_history_with(h, r, out, index, stats, mode, &|_| true);
}

pub fn run_history_with(
    h: u64,
    r: &mut Rng,
    out: &Path,
    index: &mut String,
    stats: &mut Stats,
    mode: &Mode,
    allowed: &dyn Fn(usize) -> bool,
) {
    stats.histories += 1;
    let (page_size, region_size) = match mode {
        Mode::Current => {
            let ps = *r.pick(&[512usize, 512, 1024, 2048, 4096]);
            let pages = *r.pick(&[64u64, 128, 256, 1024]);
            (ps, ps as u64 * pages)
        }
        Mode::CurrentFor3 => {
            let pages = *r.pick(&[64u64, 128, 256, 1024]);
            (4096usize, 4096 * pages)
        }
        Mode::V3 => (4096usize, 1u64 << 32),
    };
    *stats.page_sizes.entry(page_size as u64).or_insert(0) += 1;
    let decls = make_decls(r, allowed);
    let plen = *r.pick(&[0usize, 8, 40, 150]);
    let prefix: Vec<u8> = (0..plen).map(|i| (i as u8).wrapping_mul(7).wrapping_add(h as u8)).collect();
    let cfg = GenCfg { page_size, prefix };
    let be = RecBackend::new();
    be.0.lock().unwrap().record = false;
    macro_rules! go {
        ($m:ident, $cur:expr) => {{
            let mut hist = $m::Hist {
                h,
                out,
                index,
                stats,
                img: 0,
                page_size,
                region_size,
                decls,
                committed: Spec::default(),
                cfg,
                be,
                sps: vec![],
                seq: 0,
                last_event: String::new(),
                planted: vec![],
            };
            let res = rv_harness::catch(|| hist.run(r, $cur));
            match res {
                Ok(Ok(())) => {}
                Ok(Err(e)) => hist.stats.errors.push(format!("history {h}: {e}")),
                Err(p) => hist.stats.errors.push(format!("history {h}: PANIC {p}")),
            }
        }};
    }
    match mode {
        Mode::Current | Mode::CurrentFor3 => go!(cur, true),
        Mode::V3 => go!(v3, false),
    }
}

// ---------------------------------------------------------------- images written by the Coq model's encoders

macro_rules! model_read {
    ($name:ident, $c:ident, $m:ident, $cfg:expr) => {
        pub fn $name(bytes: Vec<u8>, psz: usize) -> Result<(String, String), String> {
            use $c::{ReadableDatabase, ReadableTable};
            let be = RecBackend::with_data(bytes);
            let mut b = $c::Database::builder();
            let cfg: &dyn Fn(&mut $c::Builder, usize) = &$cfg;
            cfg(&mut b, psz);
            let mut db = b.create_with_backend($m::Be(be.handle())).map_err(|e| format!("open: {e}"))?;
            let mut out = String::new();
            {
                let txn = db.begin_read().map_err(|e| e.to_string())?;
                let def: $c::TableDefinition<u64, u64> = $c::TableDefinition::new("t");
                let t = txn.open_table(def).map_err(|e| e.to_string())?;
                writeln!(out, "table {} normal", hex(b"t")).unwrap();
                for e in t.iter().map_err(|e| e.to_string())? {
                    let (k, v) = e.map_err(|e| e.to_string())?;
                    writeln!(out, "kv {} {}", hex(&k.value().to_le_bytes()), hex(&v.value().to_le_bytes())).unwrap();
                }
                // point lookups route through the branch page by compare only
                for (k, want) in [(1u64, Some(10u64)), (2, Some(20)), (3, Some(30)), (7, Some(70)), (5, None), (0, None), (9, None)] {
                    let got = t.get(k).map_err(|e| e.to_string())?.map(|g| g.value());
                    if got != want {
                        return Err(format!("get({k}) = {got:?}, expected {want:?}"));
                    }
                }
            }
            let integ = match db.check_integrity() {
                Ok(b) => format!("Ok({b})"),
                Err(e) => format!("Err({e})"),
            };
            Ok((out, integ))
        }
    };
}
model_read!(model_read_cur_inner, redb, cur, |b: &mut redb::Builder, psz: usize| {
    b.verif_set_page_size(psz);
});
model_read!(model_read_v3_inner, redb3, v3, |_b: &mut redb3::Builder, _psz: usize| {});
pub fn model_read_cur(bytes: Vec<u8>, psz: usize) -> Result<(String, String), String> {
    model_read_cur_inner(bytes, psz)
}
pub fn model_read_v3(bytes: Vec<u8>) -> Result<(String, String), String> {
    model_read_v3_inner(bytes, 4096)
}
