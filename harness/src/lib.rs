//! Common pieces of the correspondence harness: one PRNG, text encoding helpers, storage backends
//! that record / fail / monitor, and small generators.  Every random choice in every harness binary
//! derives from one `Rng` seeded by `VERIF_SEED`, so a disagreement replays exactly.

pub mod backend;
pub mod conc;
pub mod rng;

use std::fmt::Write as _;

pub use rng::Rng;

pub fn seed_from_env() -> u64 {
    std::env::var("VERIF_SEED")
        .ok()
        .and_then(|s| s.parse::<u64>().ok())
        .unwrap_or(1)
}

pub fn tier_is_thorough() -> bool {
    std::env::var("VERIF_TIER").map(|t| t == "thorough").unwrap_or(false)
}

pub fn hex(b: &[u8]) -> String {
    if b.is_empty() {
        return "-".to_string();
    }
    let mut s = String::with_capacity(b.len() * 2);
    for x in b {
        write!(s, "{x:02x}").unwrap();
    }
    s
}

pub fn unhex(s: &str) -> Vec<u8> {
    if s == "-" {
        return vec![];
    }
    (0..s.len() / 2)
        .map(|i| u8::from_str_radix(&s[2 * i..2 * i + 2], 16).unwrap())
        .collect()
}

/// Run `f`, turning a panic into `Err(message)`. The default panic hook is silenced while it runs.
pub fn catch<T>(f: impl FnOnce() -> T) -> Result<T, String> {
    let r = std::panic::catch_unwind(std::panic::AssertUnwindSafe(f));
    match r {
        Ok(v) => Ok(v),
        Err(e) => {
            let msg = if let Some(s) = e.downcast_ref::<&str>() {
                (*s).to_string()
            } else if let Some(s) = e.downcast_ref::<String>() {
                s.clone()
            } else {
                "panic".to_string()
            };
            Err(msg)
        }
    }
}

pub fn silence_panics() {
    std::panic::set_hook(Box::new(|_| {}));
}
