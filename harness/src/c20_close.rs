//! C20, close clause: WHEN is `StorageBackend::close()` called, by whom, and what follows.
//!
//! The documented promise (src/db.rs, `StorageBackend::close` and "Close semantics" of `Database`):
//! close() is called exactly once -- when the Database is dropped, or, if a WriteTransaction was live at
//! that point, when that transaction completes (or when the open fails); outstanding ReadTransactions
//! are invalidated, they do not postpone the close.  `Drop for CheckedBackend` closes the backend when
//! the last `Arc<TransactionalMemory>` goes away, which hides a missing explicit close as long as no
//! reader-side handle outlives the Database.  So every scenario here is run single-threaded, API step by
//! API step, and after EACH step the number of close() calls the backend has seen is recorded.
//!
//! Per scenario two lines are produced:
//!   H  <id> <step> ...          the abstract events of every API step (coq/Storage/Shutdown.v `sevent`),
//!                               with the storage calls of the step and the backend's answers as inputs;
//!                               impl side: `closes;after;stream` per step, where stream is what the latch
//!                               log (redb::verif_c08) showed: wrapper entries with the latch flags on
//!                               entry, calls that reached the backend, Close, Drop.  The extracted model
//!                               must produce the same (S2).
//!   HT <id> <step>;<closes>;<after> ...   the same events with the OBSERVED counts: input of the verified
//!                               timing oracle `timing_check` (S3).
//! Phase boundaries inside a step come from the H4 pause points (a PauseController that only records).
use crate::util::*;
use redb::verif_c08::{VLatchCall, VLatchEvent, latch_log_backend, latch_log_start, latch_log_take};
use redb::{Database, OwnedAccessGuard, OwnedRange, ReadOnlyTable, ReadTransaction, ReadableDatabase, ReadableTable, WriteTransaction};
use rv_harness::{Rng, catch};
use std::fmt::Write as _;

const MARKS: [&str; 6] = ["X.db_drop", "T.defer_close", "X.db_drop.close", "X.begin_write", "T.start_write", "T.end_write"];
const M_DB_DROP_CLOSE: u8 = 2;
const M_START_WRITE: u8 = 4;
const M_END_WRITE: u8 = 5;

/// records selected pause points into the calling thread's latch log (never blocks)
pub struct Marks;
impl redb::verif::PauseController for Marks {
    fn at(&self, point: &'static str) {
        if let Some(i) = MARKS.iter().position(|m| *m == point) {
            latch_log_backend(100 + i as u8, true);
        }
    }
}

#[derive(Clone, Copy, Debug, PartialEq, Eq)]
enum It {
    Op { best: bool, f: bool, c: bool },
    Close { f: bool, c: bool },
    Drop { f: bool, c: bool },
    Back { ok: bool },
    BackClose { ok: bool },
    Mark(u8),
}

fn items(log: Vec<VLatchEvent>) -> Vec<It> {
    log.into_iter()
        .map(|e| match e {
            VLatchEvent::Enter { call, io_failed, closed } => match call {
                VLatchCall::Close => It::Close { f: io_failed, c: closed },
                VLatchCall::Drop => It::Drop { f: io_failed, c: closed },
                VLatchCall::WriteBestEffort => It::Op { best: true, f: io_failed, c: closed },
                _ => It::Op { best: false, f: io_failed, c: closed },
            },
            VLatchEvent::Backend { op, ok } => {
                if op >= 100 {
                    It::Mark(op - 100)
                } else if op == Kind::Close as u8 {
                    It::BackClose { ok }
                } else {
                    It::Back { ok }
                }
            }
        })
        .collect()
}

fn b01(b: bool) -> char {
    if b { '1' } else { '0' }
}
fn pm(b: bool) -> char {
    if b { '+' } else { '-' }
}

/// the observable stream of a step in the model's notation (markers dropped)
fn stream(its: &[It]) -> String {
    let mut s = String::new();
    for it in its {
        match *it {
            It::Op { best, f, c } => write!(s, "e{}{}{}", if best { 'b' } else { 'o' }, b01(f), b01(c)).unwrap(),
            It::Close { f, c } => write!(s, "C{}{}", b01(f), b01(c)).unwrap(),
            It::Drop { f, c } => write!(s, "D{}{}", b01(f), b01(c)).unwrap(),
            It::Back { ok } => write!(s, "B{}", pm(ok)).unwrap(),
            It::BackClose { ok } => write!(s, "X{}", pm(ok)).unwrap(),
            It::Mark(_) => {}
        }
    }
    if s.is_empty() { "-".into() } else { s }
}

/// the wrapper calls of a slice with the backend's answers: o/x latching call answered Ok/Err (o also
/// when the call was refused: the answer is then never asked for), b/y the same for write_best_effort;
/// `?` for a backend call without a wrapper entry (never seen; the model driver rejects the line)
fn calls(its: &[It]) -> String {
    let mut s = String::new();
    let mut i = 0;
    while i < its.len() {
        match its[i] {
            It::Op { best, .. } => {
                let mut j = i + 1;
                while j < its.len() && matches!(its[j], It::Mark(_)) {
                    j += 1;
                }
                let ok = match its.get(j) {
                    Some(It::Back { ok }) => {
                        i = j;
                        *ok
                    }
                    _ => true,
                };
                s.push(match (best, ok) {
                    (false, true) => 'o',
                    (false, false) => 'x',
                    (true, true) => 'b',
                    (true, false) => 'y',
                });
            }
            It::Back { .. } => s.push('?'),
            _ => {}
        }
        i += 1;
    }
    s
}

/// split the part of a step that follows the hand-off decision into (close-time commit, shutdown header
/// flush, answer of close, rest after the close).  The close-time commit ends at the last T.end_write
/// that follows a T.start_write; the flush ends where CheckedBackend::close is entered.
fn shutdown_phases(its: &[It], fail_close: bool) -> (String, String, bool, Vec<It>) {
    let close_at = its.iter().position(|i| matches!(i, It::Close { .. }));
    let body = &its[..close_at.unwrap_or(its.len())];
    let body_end = body.iter().position(|i| matches!(i, It::Drop { .. })).unwrap_or(body.len());
    let (body, tail0) = body.split_at(body_end);
    let commit_end = match body.iter().position(|i| *i == It::Mark(M_START_WRITE)) {
        Some(sw) => body.iter().rposition(|i| *i == It::Mark(M_END_WRITE)).filter(|e| *e > sw).map_or(body.len(), |e| e + 1),
        None => 0,
    };
    let commit = calls(&body[..commit_end]);
    let flush = calls(&body[commit_end..]);
    let mut cok = !fail_close;
    let mut rest: Vec<It> = tail0.to_vec();
    if let Some(ca) = close_at {
        let mut k = ca + 1;
        if let Some(It::BackClose { ok }) = its.get(k) {
            cok = *ok;
            k += 1;
        }
        rest.extend_from_slice(&its[k..]);
    }
    (commit, flush, cok, rest)
}

pub enum Handle {
    Rt(ReadTransaction),
    Tab(ReadOnlyTable<u64, &'static [u8]>),
    Guard(OwnedAccessGuard<&'static [u8]>),
    Rng(OwnedRange<u64, &'static [u8]>),
}

impl Handle {
    fn kind(&self) -> &'static str {
        match self {
            Handle::Rt(_) => "ReadTransaction",
            Handle::Tab(_) => "ReadOnlyTable",
            Handle::Guard(_) => "OwnedAccessGuard",
            Handle::Rng(_) => "OwnedRange",
        }
    }
    /// does the handle own an Arc<TransactionalMemory>?  (ReadTransaction: field `mem`; ReadOnlyTable and
    /// Range: a Btree / cursor with a PageResolver; an AccessGuard of a read only owns the page bytes).
    /// Checked on every run: the model places `Drop for CheckedBackend` where the last holder goes.
    fn holds_mem(&self) -> bool {
        !matches!(self, Handle::Guard(_))
    }
}

#[derive(Clone, Debug)]
pub enum Act {
    /// begin_write / inserts / commit through &Database: three API steps
    Commit { n: u64, durable: bool },
    BeginRead,
    OpenTable { rt: usize },
    Get { tab: usize, key: u64 },
    RangeOf { tab: usize },
    RangeNext { rng: usize },
    UseTab { tab: usize },
    UseRt { rt: usize },
    DropHandle { h: usize },
    BeginWrite,
    WriteOps { n: u64 },
    EndCommit,
    EndAbort,
    EndDrop,
    DropDb,
}

impl Act {
    pub fn name(&self) -> String {
        match self {
            Act::Commit { n, durable } => format!("commit({n},{})", if *durable { "durable" } else { "nondurable" }),
            Act::BeginRead => "begin_read".into(),
            Act::OpenTable { rt } => format!("open_table(h{rt})"),
            Act::Get { tab, key } => format!("get(h{tab},{key})"),
            Act::RangeOf { tab } => format!("range(h{tab})"),
            Act::RangeNext { rng } => format!("next(h{rng})"),
            Act::UseTab { tab } => format!("use_table(h{tab})"),
            Act::UseRt { rt } => format!("use_txn(h{rt})"),
            Act::DropHandle { h } => format!("drop(h{h})"),
            Act::BeginWrite => "begin_write".into(),
            Act::WriteOps { n } => format!("write_ops({n})"),
            Act::EndCommit => "wtx.commit".into(),
            Act::EndAbort => "wtx.abort".into(),
            Act::EndDrop => "drop(wtx)".into(),
            Act::DropDb => "drop(db)".into(),
        }
    }
}

pub struct Step {
    pub api: String,
    pub act: usize,
    pub evs: Vec<String>,
    pub closes: u32,
    pub after: u32,
    pub stream: String,
    pub res: String,
    /// counted backend calls (len/read/write/set_len/sync) made in this step, failed ones among them
    pub ncalls: u64,
    pub nfailed: u64,
}

enum SK {
    Open { ok: bool },
    DbIo,
    BeginRead { created: bool },
    ReaderNew { created: bool },
    ReaderIo,
    ReaderDrop { holder: bool },
    BeginWrite { ok: bool },
    WriteIo,
    WriteEnd,
    DropDb,
}

pub struct Sess {
    pub be: MonBackend,
    pub cfg: Config,
    db: Option<Database>,
    wtx: Option<WriteTransaction>,
    handles: Vec<Option<Handle>>,
    pub handle_kinds: Vec<String>,
    pub steps: Vec<Step>,
    cur_act: usize,
    ver: u32,
    pub panics: Vec<String>,
}

fn res_str<T, E: std::fmt::Debug>(r: &Result<Result<T, E>, String>) -> String {
    match r {
        Ok(Ok(_)) => "ok".into(),
        Ok(Err(e)) => {
            let mut s = format!("{e:?}").replace('"', "'").replace('\\', "/");
            s.truncate(60);
            format!("err:{s}")
        }
        Err(p) => {
            let mut s = p.replace('"', "'").replace('\\', "/");
            s.truncate(60);
            format!("panic:{s}")
        }
    }
}

impl Sess {
    pub fn new(cfg: Config, fail_close: bool) -> Self {
        let be = MonBackend::new(vec![]);
        {
            let mut g = be.lock();
            g.latch_log = true;
            g.fail_close = fail_close;
        }
        Sess { be, cfg, db: None, wtx: None, handles: vec![], handle_kinds: vec![], steps: vec![], cur_act: 0, ver: 0, panics: vec![] }
    }

    fn begin(&self) -> (u64, usize) {
        latch_log_start();
        let g = self.be.lock();
        (g.calls, g.events.len())
    }

    fn finish(&mut self, api: String, sk: SK, res: String, at: (u64, usize)) {
        let its = items(latch_log_take());
        if res.starts_with("panic:") {
            self.panics.push(format!("{api}: {res}"));
        }
        let (closes, after, ncalls, nfailed, fail_close) = {
            let g = self.be.lock();
            let nf = g.events[at.1..].iter().filter(|e| !e.ok && e.kind != Kind::Close).count() as u64;
            (g.closes, g.calls_after_close, g.calls - at.0, nf, g.fail_close)
        };
        let mut evs: Vec<String> = vec![];
        let io = |tag: char, its: &[It], evs: &mut Vec<String>| {
            let cs = calls(its);
            if !cs.is_empty() {
                evs.push(format!("{tag}{cs}"));
            }
        };
        // answer of a close() made by the Drop net inside `its`, if any
        let net_ok = |its: &[It]| -> bool {
            its.iter().position(|i| matches!(i, It::Drop { .. })).and_then(|d| match its.get(d + 1) {
                Some(It::BackClose { ok }) => Some(*ok),
                _ => None,
            }).unwrap_or(!fail_close)
        };
        match sk {
            SK::Open { ok } => evs.push(format!("O{}:{}:{}", calls(&its), pm(ok), pm(net_ok(&its)))),
            SK::DbIo => io('D', &its, &mut evs),
            SK::BeginRead { created } => {
                io('D', &its, &mut evs);
                if created {
                    evs.push("r+".into());
                }
            }
            SK::ReaderNew { created } => {
                io('R', &its, &mut evs);
                if created {
                    evs.push("r+".into());
                }
            }
            SK::ReaderIo => io('R', &its, &mut evs),
            SK::ReaderDrop { holder } => {
                io('R', &its, &mut evs);
                if holder {
                    evs.push(format!("r-{}", pm(net_ok(&its))));
                }
            }
            SK::BeginWrite { ok } => {
                io('D', &its, &mut evs);
                if ok {
                    evs.push("w+".into());
                }
            }
            SK::WriteIo => io('W', &its, &mut evs),
            SK::WriteEnd => {
                // everything up to the end_write_transaction of the user's guard belongs to the transaction
                match its.iter().position(|i| *i == It::Mark(M_END_WRITE)) {
                    Some(e) => {
                        io('W', &its[..e], &mut evs);
                        let (commit, flush, cok, rest) = shutdown_phases(&its[e + 1..], fail_close);
                        evs.push(format!("w-{commit}:{flush}:{}", pm(cok)));
                        io('R', &rest, &mut evs);
                    }
                    None => io('W', &its, &mut evs),
                }
            }
            SK::DropDb => {
                let split = its.iter().position(|i| *i == It::Mark(M_DB_DROP_CLOSE));
                match split {
                    Some(e) => {
                        io('D', &its[..e], &mut evs);
                        let (commit, flush, cok, rest) = shutdown_phases(&its[e + 1..], fail_close);
                        evs.push(format!("d-{commit}:{flush}:{}", pm(cok)));
                        io('R', &rest, &mut evs);
                    }
                    None => {
                        // deferred (or a Database::drop that no longer reaches close_database)
                        let (commit, flush, cok, rest) = shutdown_phases(&its, fail_close);
                        evs.push(format!("d-{commit}:{flush}:{}", pm(cok)));
                        io('R', &rest, &mut evs);
                    }
                }
            }
        }
        self.steps.push(Step { api, act: self.cur_act, evs, closes, after, stream: stream(&its), res, ncalls, nfailed });
    }

    pub fn open(&mut self) -> bool {
        let at = self.begin();
        let b = Runner::builder(&self.cfg);
        let h = self.be.handle();
        let r = catch(move || b.create_with_backend(h));
        let res = res_str(&r);
        let ok = matches!(r, Ok(Ok(_)));
        if let Ok(Ok(db)) = r {
            self.db = Some(db);
        }
        self.finish("create".into(), SK::Open { ok }, res, at);
        ok
    }

    fn new_handle(&mut self, h: Option<Handle>) {
        self.handle_kinds.push(h.as_ref().map_or("-".to_string(), |h| h.kind().to_string()));
        self.handles.push(h);
    }

    pub fn act(&mut self, idx: usize, a: &Act) {
        self.cur_act = idx;
        let name = a.name();
        match a {
            Act::Commit { n, durable } => {
                self.act_inner(idx, &Act::BeginWrite);
                if self.wtx.is_some() {
                    if !*durable {
                        if let Some(t) = self.wtx.as_mut() {
                            let _ = t.set_durability(redb::Durability::None);
                        }
                    }
                    self.act_inner(idx, &Act::WriteOps { n: *n });
                    self.act_inner(idx, &Act::EndCommit);
                }
            }
            _ => self.act_inner(idx, a),
        }
        let _ = name;
    }

    fn act_inner(&mut self, _idx: usize, a: &Act) {
        let name = a.name();
        match a {
            Act::Commit { .. } => unreachable!(),
            Act::BeginRead => {
                let at = self.begin();
                let r = match self.db.as_ref() {
                    Some(db) => catch(|| db.begin_read()),
                    None => return,
                };
                let res = res_str(&r);
                let h = r.ok().and_then(|x| x.ok()).map(Handle::Rt);
                let created = h.is_some();
                self.new_handle(h);
                self.finish(name, SK::BeginRead { created }, res, at);
            }
            Act::OpenTable { rt } => {
                let at = self.begin();
                let r = match self.handles.get(*rt).and_then(|h| h.as_ref()) {
                    Some(Handle::Rt(t)) => catch(|| t.open_table(tdef(0))),
                    _ => {
                        self.new_handle(None);
                        let _ = latch_log_take();
                        return;
                    }
                };
                let res = res_str(&r);
                let h = r.ok().and_then(|x| x.ok()).map(Handle::Tab);
                let created = h.is_some();
                self.new_handle(h);
                self.finish(name, SK::ReaderNew { created }, res, at);
            }
            Act::Get { tab, key } => {
                let at = self.begin();
                let r = match self.handles.get(*tab).and_then(|h| h.as_ref()) {
                    Some(Handle::Tab(t)) => catch(|| t.get_owned(key)),
                    _ => {
                        self.new_handle(None);
                        let _ = latch_log_take();
                        return;
                    }
                };
                let res = res_str(&r);
                let h = r.ok().and_then(|x| x.ok()).flatten().map(Handle::Guard);
                let created = h.as_ref().is_some_and(|h| h.holds_mem());
                self.new_handle(h);
                self.finish(name, SK::ReaderNew { created }, res, at);
            }
            Act::RangeOf { tab } => {
                let at = self.begin();
                let r = match self.handles.get(*tab).and_then(|h| h.as_ref()) {
                    Some(Handle::Tab(t)) => catch(|| t.range_owned(0u64..)),
                    _ => {
                        self.new_handle(None);
                        let _ = latch_log_take();
                        return;
                    }
                };
                let res = res_str(&r);
                let h = r.ok().and_then(|x| x.ok()).map(Handle::Rng);
                let created = h.is_some();
                self.new_handle(h);
                self.finish(name, SK::ReaderNew { created }, res, at);
            }
            Act::RangeNext { rng } => {
                let at = self.begin();
                let r = match self.handles.get_mut(*rng).and_then(|h| h.as_mut()) {
                    Some(Handle::Rng(it)) => catch(|| match it.next() {
                        Some(Ok(_)) | None => Ok(()),
                        Some(Err(e)) => Err(e),
                    }),
                    _ => {
                        let _ = latch_log_take();
                        return;
                    }
                };
                let res = res_str(&r);
                self.finish(name, SK::ReaderIo, res, at);
            }
            Act::UseTab { tab } => {
                let at = self.begin();
                let r = match self.handles.get(*tab).and_then(|h| h.as_ref()) {
                    Some(Handle::Tab(t)) => catch(|| -> Result<(), redb::StorageError> {
                        for k in [0u64, 3, 11, 17, 29] {
                            let _ = t.get(&k)?;
                        }
                        Ok(())
                    }),
                    _ => {
                        let _ = latch_log_take();
                        return;
                    }
                };
                let res = res_str(&r);
                self.finish(name, SK::ReaderIo, res, at);
            }
            Act::UseRt { rt } => {
                let at = self.begin();
                let r = match self.handles.get(*rt).and_then(|h| h.as_ref()) {
                    Some(Handle::Rt(t)) => catch(|| t.list_tables().map(|i| i.count())),
                    _ => {
                        let _ = latch_log_take();
                        return;
                    }
                };
                let res = res_str(&r);
                self.finish(name, SK::ReaderIo, res, at);
            }
            Act::DropHandle { h } => {
                let Some(hd) = self.handles.get_mut(*h).and_then(|x| x.take()) else { return };
                let at = self.begin();
                let holder = hd.holds_mem();
                let r = catch(move || -> Result<(), ()> {
                    drop(hd);
                    Ok(())
                });
                let res = res_str(&r);
                self.finish(name, SK::ReaderDrop { holder }, res, at);
            }
            Act::BeginWrite => {
                let at = self.begin();
                let r = match self.db.as_ref() {
                    Some(db) => catch(|| db.begin_write()),
                    None => return,
                };
                let res = res_str(&r);
                let ok = matches!(r, Ok(Ok(_)));
                if let Ok(Ok(t)) = r {
                    self.wtx = Some(t);
                }
                self.finish(name, SK::BeginWrite { ok }, res, at);
            }
            Act::WriteOps { n } => {
                let Some(t) = self.wtx.as_ref() else { return };
                let at = self.begin();
                self.ver += 1;
                let ver = self.ver;
                let r = catch(|| -> Result<(), redb::Error> {
                    let mut tab = t.open_table(tdef(0))?;
                    for k in 0..*n {
                        tab.insert(&(k * 3 % 37), value_for(k, ver, 200 + (k as u32 % 5) * 150).as_slice())?;
                    }
                    Ok(())
                });
                let res = res_str(&r);
                self.finish(name, SK::WriteIo, res, at);
            }
            Act::EndCommit | Act::EndAbort | Act::EndDrop => {
                let Some(t) = self.wtx.take() else { return };
                let at = self.begin();
                let r = match a {
                    Act::EndCommit => catch(move || t.commit().map_err(|e| format!("{e:?}"))),
                    Act::EndAbort => catch(move || t.abort().map_err(|e| format!("{e:?}"))),
                    _ => catch(move || -> Result<(), String> {
                        drop(t);
                        Ok(())
                    }),
                };
                let res = res_str(&r);
                self.finish(name, SK::WriteEnd, res, at);
            }
            Act::DropDb => {
                let Some(db) = self.db.take() else { return };
                let at = self.begin();
                let r = catch(move || -> Result<(), ()> {
                    drop(db);
                    Ok(())
                });
                let res = res_str(&r);
                self.finish(name, SK::DropDb, res, at);
            }
        }
    }

    /// drop whatever is left (writer first, then the Database, then reader handles in creation order),
    /// each as an API step of its own
    pub fn wind_down(&mut self, idx: usize) {
        self.cur_act = idx;
        if self.wtx.is_some() {
            self.act_inner(idx, &Act::EndDrop);
        }
        if self.db.is_some() {
            self.act_inner(idx, &Act::DropDb);
        }
        for h in 0..self.handles.len() {
            if self.handles[h].is_some() {
                self.act_inner(idx, &Act::DropHandle { h });
            }
        }
    }

    pub fn h_line(&self, id: &str) -> (String, String) {
        let mut case = format!("H {id}");
        let mut imp = String::new();
        for s in &self.steps {
            if s.evs.is_empty() && s.stream == "-" {
                continue;
            }
            write!(case, " {}", if s.evs.is_empty() { "-".to_string() } else { s.evs.join(",") }).unwrap();
            if !imp.is_empty() {
                imp.push(' ');
            }
            write!(imp, "{};{};{}", s.closes, s.after, s.stream).unwrap();
        }
        (case, imp)
    }

    pub fn ht_line(&self, id: &str) -> (String, String) {
        let mut case = format!("HT {id}");
        for s in &self.steps {
            write!(case, " {};{};{}", if s.evs.is_empty() { "-".to_string() } else { s.evs.join(",") }, s.closes, s.after).unwrap();
        }
        (case, self.own_timing())
    }

    /// the harness' own (unverified) evaluation of the timing oracle, compared with the extracted one
    fn own_timing(&self) -> String {
        let (mut opened, mut failed, mut db, mut writer, mut deferred, mut expect) = (false, false, false, false, false, 0u32);
        for (i, s) in self.steps.iter().enumerate() {
            for e in &s.evs {
                let b = e.as_bytes();
                let malformed = match (b[0], b.get(1).copied()) {
                    (b'O', _) => {
                        if opened || failed {
                            true
                        } else {
                            let ok = e.split(':').nth(1) == Some("+");
                            if ok {
                                opened = true;
                                db = true;
                            } else {
                                failed = true;
                                expect = 1;
                            }
                            false
                        }
                    }
                    (b'w', Some(b'+')) => {
                        if opened && db && !writer {
                            writer = true;
                            false
                        } else {
                            true
                        }
                    }
                    (b'w', Some(b'-')) => {
                        if opened && writer {
                            writer = false;
                            if deferred {
                                deferred = false;
                                expect += 1;
                            }
                            false
                        } else {
                            true
                        }
                    }
                    (b'd', Some(b'-')) => {
                        if opened && db {
                            db = false;
                            if writer {
                                deferred = true;
                            } else {
                                expect += 1;
                            }
                            false
                        } else {
                            true
                        }
                    }
                    _ => !opened,
                };
                if malformed {
                    return format!("malformed {i:x}");
                }
            }
            if s.closes != expect || s.after != 0 {
                return format!("bad {i:x} expected={expect} observed={} after={}", s.closes, s.after);
            }
        }
        "ok".into()
    }

    pub fn describe(&self) -> String {
        let mut s = String::from("[");
        for (i, st) in self.steps.iter().enumerate() {
            if i > 0 {
                s.push(',');
            }
            write!(
                s,
                "{{\"step\":{i},\"api\":\"{}\",\"result\":\"{}\",\"events\":\"{}\",\"close_calls_so_far\":{},\"calls_after_close\":{},\"backend_calls\":{},\"failed\":{}}}",
                st.api,
                st.res,
                st.evs.join(","),
                st.closes,
                st.after,
                st.ncalls,
                st.nfailed
            )
            .unwrap();
        }
        s.push(']');
        s
    }
}

/// a fault: armed right before act `act` (index into the script), `k` counted backend calls later
#[derive(Clone, Copy, Debug)]
pub struct Fault {
    pub act: usize,
    pub k: u64,
    pub permanent: bool,
}

pub fn run_script(cfg: &Config, script: &[Act], fault: Option<Fault>, fail_close: bool) -> Sess {
    let mut s = Sess::new(cfg.clone(), fail_close);
    if !s.open() {
        return s;
    }
    for (i, a) in script.iter().enumerate() {
        if let Some(f) = fault {
            if f.act == i {
                let mut g = s.be.lock();
                let at = g.calls + f.k;
                g.fail = if f.permanent { Fail::From(at) } else { Fail::Once(at) };
            }
        }
        s.act(i, a);
    }
    s.wind_down(script.len());
    s
}

/// reader populations created before the closing event (handle numbers = creation order)
pub fn reader_sets() -> Vec<(&'static str, Vec<Act>)> {
    use Act::*;
    vec![
        ("none", vec![]),
        ("rt", vec![BeginRead]),
        ("rt+table", vec![BeginRead, OpenTable { rt: 0 }]),
        ("table-outlives-rt", vec![BeginRead, OpenTable { rt: 0 }, DropHandle { h: 0 }]),
        ("rt+table+guard", vec![BeginRead, OpenTable { rt: 0 }, Get { tab: 1, key: 3 }]),
        ("guard-only", vec![BeginRead, OpenTable { rt: 0 }, Get { tab: 1, key: 3 }, DropHandle { h: 1 }, DropHandle { h: 0 }]),
        ("rt+table+range", vec![BeginRead, OpenTable { rt: 0 }, RangeOf { tab: 1 }, RangeNext { rng: 2 }]),
        ("range-only", vec![BeginRead, OpenTable { rt: 0 }, RangeOf { tab: 1 }, DropHandle { h: 0 }, DropHandle { h: 1 }]),
        ("two-rt+table+guard+range", vec![BeginRead, BeginRead, OpenTable { rt: 1 }, Get { tab: 2, key: 11 }, RangeOf { tab: 2 }]),
    ]
}

/// how the session ends: (name, acts up to and including the closing event)
pub fn closings() -> Vec<(&'static str, Vec<Act>)> {
    use Act::*;
    vec![
        ("drop-db", vec![DropDb]),
        ("write-done-then-drop-db", vec![BeginWrite, WriteOps { n: 12 }, EndCommit, DropDb]),
        ("drop-db-then-commit", vec![BeginWrite, WriteOps { n: 12 }, DropDb, EndCommit]),
        ("drop-db-then-abort", vec![BeginWrite, WriteOps { n: 12 }, DropDb, EndAbort]),
        ("drop-db-then-drop-wtx", vec![BeginWrite, WriteOps { n: 12 }, DropDb, EndDrop]),
        ("drop-db-then-write-then-commit", vec![BeginWrite, DropDb, WriteOps { n: 20 }, EndCommit]),
    ]
}

/// after the closing event: use every surviving handle, then drop them in the given order
pub fn aftermath(kinds: &[String], order: &[usize]) -> Vec<Act> {
    let mut v = vec![];
    for (h, k) in kinds.iter().enumerate() {
        match k.as_str() {
            "ReadTransaction" => v.push(Act::UseRt { rt: h }),
            "ReadOnlyTable" => v.push(Act::UseTab { tab: h }),
            "OwnedRange" => v.push(Act::RangeNext { rng: h }),
            _ => {}
        }
    }
    for h in order {
        v.push(Act::DropHandle { h: *h });
    }
    v
}

pub struct Family {
    pub name: String,
    pub script: Vec<Act>,
    /// index of the act that is the closing event, and of the earlier commit faults are also aimed at
    pub closing_act: usize,
    pub earlier_commit_act: usize,
    pub writer_ops_act: Option<usize>,
}

pub fn build_family(rng: &mut Rng, readers: &(&'static str, Vec<Act>), closing: &(&'static str, Vec<Act>)) -> Family {
    let mut script = vec![Act::Commit { n: 30, durable: true }, Act::Commit { n: 9, durable: rng.chance(1, 2) }];
    let earlier_commit_act = 1;
    script.extend(readers.1.iter().cloned());
    let base = script.len();
    script.extend(closing.1.iter().cloned());
    let closing_act = script.len() - 1;
    let writer_ops_act = closing.1.iter().position(|a| matches!(a, Act::WriteOps { .. })).map(|i| base + i);
    // handle kinds are known statically from the reader acts
    let mut kinds: Vec<String> = vec![];
    let mut alive: Vec<bool> = vec![];
    for a in &readers.1 {
        match a {
            Act::BeginRead => {
                kinds.push("ReadTransaction".into());
                alive.push(true);
            }
            Act::OpenTable { .. } => {
                kinds.push("ReadOnlyTable".into());
                alive.push(true);
            }
            Act::Get { .. } => {
                kinds.push("OwnedAccessGuard".into());
                alive.push(true);
            }
            Act::RangeOf { .. } => {
                kinds.push("OwnedRange".into());
                alive.push(true);
            }
            Act::DropHandle { h } => alive[*h] = false,
            _ => {}
        }
    }
    let mut order: Vec<usize> = (0..kinds.len()).filter(|h| alive[*h]).collect();
    for i in (1..order.len()).rev() {
        let j = rng.below(i as u64 + 1) as usize;
        order.swap(i, j);
    }
    let live_kinds: Vec<String> = kinds.iter().enumerate().map(|(h, k)| if alive[h] { k.clone() } else { "-".into() }).collect();
    script.extend(aftermath(&live_kinds, &order));
    Family { name: format!("{}/{}", closing.0, readers.0), script, closing_act, earlier_commit_act, writer_ops_act }
}

/// the open path: one SOpen event with the storage calls of the open; an open that fails must have closed
/// the backend exactly once when it returns (by `Drop for CheckedBackend`), a successful one not at all.
/// Returns the (case, impl) pairs of the H and the HT line.
pub fn open_lines(id: &str, log: Vec<VLatchEvent>, ok: bool, closes: u32, after: u32, fail_close: bool) -> [(String, String); 2] {
    let its = items(log);
    let net_ok = its
        .iter()
        .position(|i| matches!(i, It::Drop { .. }))
        .and_then(|d| match its.get(d + 1) {
            Some(It::BackClose { ok }) => Some(*ok),
            _ => None,
        })
        .unwrap_or(!fail_close);
    // An open can fail AFTER it has built the Database value (e.g. an I/O error in the last steps of
    // Database::new): the value is dropped inside the call, and its Drop closes explicitly.  The latch log
    // shows that as an entry of CheckedBackend::close; the step then is "opened, Database dropped".
    let ev = match its.iter().position(|i| matches!(i, It::Close { .. })) {
        Some(ca) if !ok => {
            let (_, _, cok, rest) = shutdown_phases(&its[ca..], fail_close);
            let mut e = format!("O{}:+:+,d-::{}", calls(&its[..ca]), pm(cok));
            let cs = calls(&rest);
            if !cs.is_empty() {
                e.push_str(&format!(",R{cs}"));
            }
            e
        }
        _ => format!("O{}:{}:{}", calls(&its), pm(ok), pm(net_ok)),
    };
    let expect = if ok { 0 } else { 1 };
    [
        (format!("H {id} {ev}"), format!("{closes};{after};{}", stream(&its))),
        (format!("HT {id} {ev};{closes};{after}"), if closes == expect && after == 0 { "ok".into() } else { format!("bad 0 expected={expect} observed={closes} after={after}") }),
    ]
}

/// a random history: API calls and handle drops in any order the types allow (one writer at a time,
/// begin_* need the Database, derived handles need their parent), e.g. reader activity between the drop of
/// the Database and the end of the deferring writer, several write transactions, handles created late
pub fn random_family(rng: &mut Rng, i: usize, len: usize) -> Family {
    use Act::*;
    let mut db = true;
    let mut wtx = false;
    let mut handles: Vec<(&'static str, bool)> = vec![];
    let mut script = vec![Commit { n: 20, durable: true }];
    let mut earlier_commit_act = 0;
    let mut closing_act = 0;
    for step in 0..len {
        let mut opts: Vec<Act> = vec![];
        if db && !wtx {
            opts.push(Commit { n: 1 + rng.below(12), durable: rng.chance(1, 2) });
            opts.push(BeginWrite);
        }
        if db {
            opts.push(BeginRead);
            if step * 3 > len || rng.chance(1, 6) {
                opts.push(DropDb);
            }
        }
        if wtx {
            opts.push(WriteOps { n: 1 + rng.below(15) });
            opts.push(WriteOps { n: 1 + rng.below(15) });
            opts.push(EndCommit);
            opts.push(EndAbort);
            opts.push(EndDrop);
        }
        for (h, (k, alive)) in handles.iter().enumerate() {
            if !*alive {
                continue;
            }
            match *k {
                "rt" => {
                    opts.push(OpenTable { rt: h });
                    opts.push(UseRt { rt: h });
                }
                "tab" => {
                    opts.push(Get { tab: h, key: rng.below(37) });
                    opts.push(RangeOf { tab: h });
                    opts.push(UseTab { tab: h });
                }
                "rng" => opts.push(RangeNext { rng: h }),
                _ => {}
            }
            opts.push(DropHandle { h });
        }
        if opts.is_empty() {
            break;
        }
        let a = opts[rng.below(opts.len() as u64) as usize].clone();
        match &a {
            Commit { .. } => earlier_commit_act = script.len(),
            BeginWrite => wtx = true,
            EndCommit | EndAbort | EndDrop => {
                wtx = false;
                if !db {
                    closing_act = script.len();
                }
            }
            BeginRead => handles.push(("rt", true)),
            OpenTable { .. } => handles.push(("tab", true)),
            Get { .. } => handles.push(("guard", true)),
            RangeOf { .. } => handles.push(("rng", true)),
            DropHandle { h } => handles[*h].1 = false,
            DropDb => {
                db = false;
                if !wtx {
                    closing_act = script.len();
                }
            }
            _ => {}
        }
        script.push(a);
    }
    Family { name: format!("random/{i}"), script, closing_act, earlier_commit_act, writer_ops_act: None }
}
