//! Storage backends for the harness: a shared in-memory store that records the operation stream,
//! can inject failures at the k-th call, and monitors the StorageBackend contract.

use redb::StorageBackend;
use std::io;
use std::sync::{Arc, Mutex};

#[derive(Clone, Debug, PartialEq, Eq)]
pub enum Op {
    Len,
    Read { off: u64, len: usize },
    Write { off: u64, data: Vec<u8> },
    SetLen(u64),
    Sync,
    Close,
}

#[derive(Clone, Copy, Debug, PartialEq, Eq)]
pub enum FailMode {
    Never,
    /// the k-th call (0-based, counting len/read/write/set_len/sync) fails, later calls succeed
    Once(u64),
    /// the k-th call and every later call fail
    From(u64),
}

#[derive(Debug)]
pub struct Shared {
    pub data: Vec<u8>,
    pub ops: Vec<Op>,
    /// (index into ops, Ok?) for each op
    pub results: Vec<bool>,
    pub record: bool,
    pub record_reads: bool,
    pub calls: u64,
    pub fail: FailMode,
    pub closed: u32,
    pub calls_after_close: u32,
    pub out_of_bounds: Vec<String>,
}

#[derive(Clone, Debug)]
pub struct RecBackend(pub Arc<Mutex<Shared>>);

impl RecBackend {
    pub fn new() -> Self {
        Self::with_data(vec![])
    }
    pub fn with_data(data: Vec<u8>) -> Self {
        RecBackend(Arc::new(Mutex::new(Shared {
            data,
            ops: vec![],
            results: vec![],
            record: true,
            record_reads: false,
            calls: 0,
            fail: FailMode::Never,
            closed: 0,
            calls_after_close: 0,
            out_of_bounds: vec![],
        })))
    }
    pub fn handle(&self) -> RecBackend {
        RecBackend(self.0.clone())
    }
    pub fn snapshot(&self) -> Vec<u8> {
        self.0.lock().unwrap().data.clone()
    }
    pub fn take_ops(&self) -> Vec<Op> {
        std::mem::take(&mut self.0.lock().unwrap().ops)
    }
    pub fn set_fail(&self, f: FailMode) {
        let mut g = self.0.lock().unwrap();
        g.fail = f;
    }
    pub fn calls(&self) -> u64 {
        self.0.lock().unwrap().calls
    }
    fn enter(g: &mut Shared, op: Op) -> io::Result<()> {
        if g.closed > 0 {
            g.calls_after_close += 1;
        }
        let k = g.calls;
        g.calls += 1;
        let fail = match g.fail {
            FailMode::Never => false,
            FailMode::Once(i) => k == i,
            FailMode::From(i) => k >= i,
        };
        if g.record && (g.record_reads || !matches!(op, Op::Read { .. } | Op::Len)) {
            g.ops.push(op);
            g.results.push(!fail);
        }
        if fail {
            Err(io::Error::new(io::ErrorKind::Other, "injected failure"))
        } else {
            Ok(())
        }
    }
}

impl Default for RecBackend {
    fn default() -> Self {
        Self::new()
    }
}

impl StorageBackend for RecBackend {
    fn len(&self) -> io::Result<u64> {
        let mut g = self.0.lock().unwrap();
        Self::enter(&mut g, Op::Len)?;
        Ok(g.data.len() as u64)
    }
    fn read(&self, offset: u64, out: &mut [u8]) -> io::Result<()> {
        let mut g = self.0.lock().unwrap();
        Self::enter(&mut g, Op::Read { off: offset, len: out.len() })?;
        let off = offset as usize;
        if off + out.len() > g.data.len() {
            let m = format!("read {}+{} beyond len {}", offset, out.len(), g.data.len());
            g.out_of_bounds.push(m);
            return Err(io::Error::new(io::ErrorKind::InvalidInput, "out of range"));
        }
        out.copy_from_slice(&g.data[off..off + out.len()]);
        Ok(())
    }
    fn set_len(&self, len: u64) -> io::Result<()> {
        let mut g = self.0.lock().unwrap();
        Self::enter(&mut g, Op::SetLen(len))?;
        g.data.resize(len as usize, 0);
        Ok(())
    }
    fn sync_data(&self) -> io::Result<()> {
        let mut g = self.0.lock().unwrap();
        Self::enter(&mut g, Op::Sync)?;
        Ok(())
    }
    fn write(&self, offset: u64, data: &[u8]) -> io::Result<()> {
        let mut g = self.0.lock().unwrap();
        Self::enter(&mut g, Op::Write { off: offset, data: data.to_vec() })?;
        let off = offset as usize;
        if off + data.len() > g.data.len() {
            let m = format!("write {}+{} beyond len {}", offset, data.len(), g.data.len());
            g.out_of_bounds.push(m);
            return Err(io::Error::new(io::ErrorKind::InvalidInput, "out of range"));
        }
        g.data[off..off + data.len()].copy_from_slice(data);
        Ok(())
    }
    fn close(&self) -> io::Result<()> {
        let mut g = self.0.lock().unwrap();
        if g.closed > 0 {
            g.calls_after_close += 1;
        }
        g.closed += 1;
        if g.record {
            g.ops.push(Op::Close);
            g.results.push(true);
        }
        Ok(())
    }
}
