//! Shared helpers of the C07 / C11 / C13 harnesses (included with `#[path = "../rvdb.rs"] mod rvdb;`).
//! * `Cfg` / `open_db`: open or create a `Database` on a `RecBackend` with small pages/regions and a
//!   repair callback that records whether the full-repair path ran;
//! * `Contents`: the logical contents of every data table (normal and multimap), read through the
//!   public API, plus a random mutator that keeps a spec copy in step;
//! * `CrashLog`: splits the recorded storage op stream at `sync_data` boundaries so that crash images
//!   (durable bytes + any subset of the unsynced writes) can be built;
//! * `Hdr`: independent parse of the 320-byte super-header (god byte, slot transaction ids).
#![allow(dead_code)]

use redb::{
    Database, Durability, MultimapTableDefinition, MultimapTableHandle, ReadableDatabase, ReadableMultimapTable, ReadableTable,
    ReadableTableMetadata, TableDefinition, TableError, TableHandle, WriteTransaction,
};
use rv_harness::backend::{Op, RecBackend};
use rv_harness::{Rng, catch};
use std::collections::{BTreeMap, BTreeSet};
use std::sync::Arc;
use std::sync::atomic::{AtomicU32, Ordering};

pub const TA: TableDefinition<u64, &[u8]> = TableDefinition::new("a");
pub const TB: TableDefinition<u64, &[u8]> = TableDefinition::new("b");
pub const TM: MultimapTableDefinition<u64, u64> = MultimapTableDefinition::new("m");

#[derive(Clone, Copy, Debug)]
pub struct Cfg {
    pub page_size: usize,
    pub region_size: Option<u64>,
    pub cache: usize,
}

impl Cfg {
    pub fn small() -> Self {
        Cfg { page_size: 512, region_size: Some(512 * 64), cache: 64 * 1024 }
    }
    pub fn describe(&self) -> String {
        format!("page={} region={:?} cache={}", self.page_size, self.region_size, self.cache)
    }
}

/// Opens (or creates, when the backend is empty) a database. Returns the database and the number
/// of times the repair callback ran (> 0  <=>  the full-repair open path was taken).
pub fn open_db(backend: RecBackend, cfg: Cfg) -> Result<(Database, u32), String> {
    let fired = Arc::new(AtomicU32::new(0));
    let f2 = fired.clone();
    let r = catch(move || {
        let mut b = Database::builder();
        b.verif_set_page_size(cfg.page_size);
        if let Some(rs) = cfg.region_size {
            b.verif_set_region_size(rs);
        }
        b.set_cache_size(cfg.cache);
        b.set_repair_callback(move |_s| {
            f2.fetch_add(1, Ordering::SeqCst);
        });
        b.create_with_backend(backend)
    });
    match r {
        Err(p) => Err(format!("panic:{p}")),
        Ok(Err(e)) => Err(format!("error:{e}")),
        Ok(Ok(db)) => Ok((db, fired.load(Ordering::SeqCst))),
    }
}

// ------------------------------------------------------------------------------------ contents

#[derive(Clone, Debug, PartialEq, Eq, Default, PartialOrd, Ord)]
pub struct Contents {
    /// normal tables that exist: name -> map
    pub normal: BTreeMap<String, BTreeMap<u64, Vec<u8>>>,
    /// multimap tables that exist: name -> key -> set
    pub multi: BTreeMap<String, BTreeMap<u64, BTreeSet<u64>>>,
}

impl Contents {
    pub fn entries(&self) -> usize {
        self.normal.values().map(|m| m.len()).sum::<usize>()
            + self.multi.values().map(|m| m.values().map(|s| s.len()).sum::<usize>()).sum::<usize>()
    }
    /// short stable digest for logs (FNV-1a over a canonical rendering)
    pub fn digest(&self) -> String {
        let mut h: u64 = 0xcbf29ce484222325;
        let mut eat = |b: &[u8]| {
            for x in b {
                h ^= u64::from(*x);
                h = h.wrapping_mul(0x100000001b3);
            }
        };
        for (n, m) in &self.normal {
            eat(b"N");
            eat(n.as_bytes());
            for (k, v) in m {
                eat(&k.to_le_bytes());
                eat(&(v.len() as u64).to_le_bytes());
                eat(v);
            }
        }
        for (n, m) in &self.multi {
            eat(b"M");
            eat(n.as_bytes());
            for (k, s) in m {
                eat(&k.to_le_bytes());
                for v in s {
                    eat(&v.to_le_bytes());
                }
                eat(b";");
            }
        }
        format!("{:016x}/{}", h, self.entries())
    }
    /// first difference, for replay files
    pub fn diff(&self, other: &Contents) -> String {
        for n in self.normal.keys().chain(other.normal.keys()) {
            match (self.normal.get(n), other.normal.get(n)) {
                (Some(_), None) => return format!("table {n}: exists vs missing"),
                (None, Some(_)) => return format!("table {n}: missing vs exists"),
                (Some(a), Some(b)) => {
                    for k in a.keys().chain(b.keys()) {
                        if a.get(k) != b.get(k) {
                            return format!(
                                "table {n} key {k}: {:?} vs {:?}",
                                a.get(k).map(|v| (v.len(), v.first().copied())),
                                b.get(k).map(|v| (v.len(), v.first().copied()))
                            );
                        }
                    }
                }
                _ => {}
            }
        }
        for n in self.multi.keys().chain(other.multi.keys()) {
            match (self.multi.get(n), other.multi.get(n)) {
                (Some(_), None) => return format!("multimap {n}: exists vs missing"),
                (None, Some(_)) => return format!("multimap {n}: missing vs exists"),
                (Some(a), Some(b)) => {
                    for k in a.keys().chain(b.keys()) {
                        if a.get(k) != b.get(k) {
                            return format!("multimap {n} key {k}: {:?} vs {:?}", a.get(k), b.get(k));
                        }
                    }
                }
                _ => {}
            }
        }
        "equal".to_string()
    }
}

fn s<E: std::fmt::Display>(e: E) -> String {
    e.to_string()
}

/// Full dump through a read transaction. Checks iteration order, `len()` and point lookups on the way.
pub fn dump_db(db: &Database) -> Result<Contents, String> {
    match catch(|| dump_db_inner(db)) {
        Ok(r) => r,
        Err(p) => Err(format!("panic:{p}")),
    }
}

fn dump_db_inner(db: &Database) -> Result<Contents, String> {
    let rt = db.begin_read().map_err(s)?;
    let mut c = Contents::default();
    let mut names: Vec<String> = rt.list_tables().map_err(s)?.map(|h| h.name().to_string()).collect();
    names.sort();
    for n in names {
        let def: TableDefinition<u64, &[u8]> = TableDefinition::new(&n);
        let t = rt.open_table(def).map_err(s)?;
        let mut m = BTreeMap::new();
        let mut last: Option<u64> = None;
        for e in t.iter().map_err(s)? {
            let (k, v) = e.map_err(s)?;
            let k = k.value();
            if let Some(l) = last {
                if l >= k {
                    return Err(format!("table {n}: iteration not strictly increasing at {k}"));
                }
            }
            last = Some(k);
            m.insert(k, v.value().to_vec());
        }
        if t.len().map_err(s)? != m.len() as u64 {
            return Err(format!("table {n}: len() {} != iterated {}", t.len().map_err(s)?, m.len()));
        }
        for (k, v) in &m {
            match t.get(k).map_err(s)? {
                Some(g) if g.value() == v.as_slice() => {}
                _ => return Err(format!("table {n}: get({k}) disagrees with iteration")),
            }
        }
        c.normal.insert(n, m);
    }
    let mut names: Vec<String> = rt.list_multimap_tables().map_err(s)?.map(|h| h.name().to_string()).collect();
    names.sort();
    for n in names {
        let def: MultimapTableDefinition<u64, u64> = MultimapTableDefinition::new(&n);
        let t = rt.open_multimap_table(def).map_err(s)?;
        let mut m: BTreeMap<u64, BTreeSet<u64>> = BTreeMap::new();
        for e in t.iter().map_err(s)? {
            let (k, vals) = e.map_err(s)?;
            let k = k.value();
            let mut set = BTreeSet::new();
            let mut last: Option<u64> = None;
            for v in vals {
                let v = v.map_err(s)?.value();
                if let Some(l) = last {
                    if l >= v {
                        return Err(format!("multimap {n} key {k}: values not strictly increasing"));
                    }
                }
                last = Some(v);
                set.insert(v);
            }
            if set.is_empty() {
                return Err(format!("multimap {n}: key {k} with no values"));
            }
            if m.insert(k, set).is_some() {
                return Err(format!("multimap {n}: key {k} listed twice"));
            }
        }
        c.multi.insert(n, m);
    }
    Ok(c)
}

/// Dump as seen by a write transaction (opens every table: marks the transaction dirty).
pub fn dump_txn(txn: &WriteTransaction) -> Result<Contents, String> {
    match catch(|| dump_txn_inner(txn)) {
        Ok(r) => r,
        Err(p) => Err(format!("panic:{p}")),
    }
}

fn dump_txn_inner(txn: &WriteTransaction) -> Result<Contents, String> {
    let mut c = Contents::default();
    let mut names: Vec<String> = txn.list_tables().map_err(s)?.map(|h| h.name().to_string()).collect();
    names.sort();
    for n in names {
        let def: TableDefinition<u64, &[u8]> = TableDefinition::new(&n);
        let t = txn.open_table(def).map_err(s)?;
        let mut m = BTreeMap::new();
        for e in t.iter().map_err(s)? {
            let (k, v) = e.map_err(s)?;
            m.insert(k.value(), v.value().to_vec());
        }
        c.normal.insert(n, m);
    }
    let mut names: Vec<String> = txn.list_multimap_tables().map_err(s)?.map(|h| h.name().to_string()).collect();
    names.sort();
    for n in names {
        let def: MultimapTableDefinition<u64, u64> = MultimapTableDefinition::new(&n);
        let t = txn.open_multimap_table(def).map_err(s)?;
        let mut m: BTreeMap<u64, BTreeSet<u64>> = BTreeMap::new();
        for e in t.iter().map_err(s)? {
            let (k, vals) = e.map_err(s)?;
            let mut set = BTreeSet::new();
            for v in vals {
                set.insert(v.map_err(s)?.value());
            }
            m.insert(k.value(), set);
        }
        c.multi.insert(n, m);
    }
    Ok(c)
}

/// Workload shape for `mutate`.
#[derive(Clone, Copy, Debug)]
pub struct Load {
    pub keys: u64,
    pub ops: u64,
    pub max_val: usize,
    pub big_val_permille: u64,
    pub delete_bias: u64, // out of 10: share of removals among single-key ops
}

impl Load {
    pub fn light() -> Self {
        Load { keys: 60, ops: 12, max_val: 120, big_val_permille: 30, delete_bias: 3 }
    }
}

fn val(r: &mut Rng, l: &Load) -> Vec<u8> {
    let len = if r.below(1000) < l.big_val_permille {
        r.range(600, 2600) as usize
    } else {
        r.below(l.max_val as u64 + 1) as usize
    };
    let b = r.next_u64() as u8;
    (0..len).map(|i| b.wrapping_add(i as u8)).collect()
}

/// Applies a random batch of changes through `txn` and to `spec` alike. Returns a short description.
pub fn mutate(txn: &WriteTransaction, spec: &mut Contents, r: &mut Rng, l: &Load) -> Result<String, String> {
    let mut spec2 = spec.clone();
    let res = catch(|| mutate_inner(txn, &mut spec2, r, l));
    match res {
        Ok(Ok(d)) => {
            *spec = spec2;
            Ok(d)
        }
        Ok(Err(e)) => Err(e),
        Err(p) => Err(format!("panic:{p}")),
    }
}

fn mutate_inner(txn: &WriteTransaction, spec: &mut Contents, r: &mut Rng, l: &Load) -> Result<String, String> {
    let mut desc = String::new();
    let kind = r.below(100);
    if kind < 3 {
        // drop a whole table
        let which = r.below(3);
        match which {
            0 | 1 => {
                let def = if which == 0 { TA } else { TB };
                let existed = txn.delete_table(def).map_err(s)?;
                let had = spec.normal.remove(def.name()).is_some();
                if existed != had {
                    return Err(format!("delete_table({}) returned {existed}, spec had {had}", def.name()));
                }
                desc.push_str(&format!("deltable:{} ", def.name()));
            }
            _ => {
                let existed = txn.delete_multimap_table(TM).map_err(s)?;
                let had = spec.multi.remove("m").is_some();
                if existed != had {
                    return Err(format!("delete_multimap_table(m) returned {existed}, spec had {had}"));
                }
                desc.push_str("deltable:m ");
            }
        }
        return Ok(desc);
    }
    let which = r.below(10);
    if which < 4 || which >= 7 {
        let def = if which < 4 { TA } else { TB };
        let mut t = txn.open_table(def).map_err(s)?;
        let m = spec.normal.entry(def.name().to_string()).or_default();
        let n = r.range(1, l.ops);
        let mut ins = 0;
        let mut del = 0;
        for _ in 0..n {
            let k = r.below(l.keys);
            if r.below(10) < l.delete_bias {
                let old = t.remove(&k).map_err(s)?.map(|g| g.value().to_vec());
                let exp = m.remove(&k);
                if old != exp {
                    return Err(format!("remove({k}) in {} returned a value different from the spec's", def.name()));
                }
                del += 1;
            } else {
                let v = val(r, l);
                let old = t.insert(&k, v.as_slice()).map_err(s)?.map(|g| g.value().to_vec());
                let exp = m.insert(k, v);
                if old != exp {
                    return Err(format!("insert({k}) in {} returned an old value different from the spec's", def.name()));
                }
                ins += 1;
            }
        }
        if r.below(12) == 0 && !m.is_empty() {
            // range removal
            let lo = r.below(l.keys);
            let hi = lo + r.below(l.keys / 3 + 1);
            t.retain_in(lo..hi, |_, _| false).map_err(s)?;
            m.retain(|k, _| !(*k >= lo && *k < hi));
            desc.push_str(&format!("retain_out:{lo}..{hi} "));
        }
        desc.push_str(&format!("{}:+{ins}-{del} ", def.name()));
    } else {
        let mut t = txn.open_multimap_table(TM).map_err(s)?;
        let m = spec.multi.entry("m".to_string()).or_default();
        let n = r.range(1, l.ops * 2);
        for _ in 0..n {
            let k = r.below(6.max(l.keys / 8));
            match r.below(10) {
                0 => {
                    let _ = t.remove_all(&k).map_err(s)?;
                    m.remove(&k);
                }
                1 | 2 => {
                    let v = r.below(200);
                    let was = t.remove(&k, &v).map_err(s)?;
                    let exp = m.get_mut(&k).map(|set| set.remove(&v)).unwrap_or(false);
                    if m.get(&k).map(|set| set.is_empty()).unwrap_or(false) {
                        m.remove(&k);
                    }
                    if was != exp {
                        return Err(format!("multimap remove({k},{v}) returned {was}, spec {exp}"));
                    }
                }
                _ => {
                    // a hot key collects many values so that the inline collection becomes a subtree
                    let k = if r.below(3) == 0 { 1 } else { k };
                    let v = r.below(200);
                    let was = t.insert(&k, &v).map_err(s)?;
                    let exp = !m.entry(k).or_default().insert(v);
                    if was != exp {
                        return Err(format!("multimap insert({k},{v}) returned {was}, spec {exp}"));
                    }
                }
            }
        }
        desc.push_str(&format!("m:{n} "));
    }
    Ok(desc)
}

pub fn table_missing<T>(r: &Result<T, TableError>) -> bool {
    matches!(r, Err(TableError::TableDoesNotExist(_)))
}

pub fn set_durability(txn: &mut WriteTransaction, none: bool) -> Result<(), String> {
    txn.set_durability(if none { Durability::None } else { Durability::Immediate }).map_err(s)
}

// ------------------------------------------------------------------------------------ crash images

/// Follows the recorded op stream of a backend: `durable` holds the bytes as of the last `sync_data`,
/// `pending` the writes / set_len calls issued since then (in issue order).
#[derive(Clone, Debug, Default)]
pub struct CrashLog {
    pub durable: Vec<u8>,
    pub pending: Vec<Op>,
    pub syncs: u64,
    pub writes: u64,
}

fn apply(img: &mut Vec<u8>, op: &Op) {
    match op {
        Op::Write { off, data } => {
            let off = *off as usize;
            if off + data.len() <= img.len() {
                img[off..off + data.len()].copy_from_slice(data);
            }
            // a write beyond the (possibly not yet extended) image is dropped: the set_len that made
            // room for it was not applied in this image
        }
        Op::SetLen(n) => img.resize(*n as usize, 0),
        _ => {}
    }
}

impl CrashLog {
    pub fn new() -> Self {
        Self::default()
    }
    pub fn from_image(img: Vec<u8>) -> Self {
        CrashLog { durable: img, pending: vec![], syncs: 0, writes: 0 }
    }
    /// Consume newly recorded ops from the backend.
    pub fn absorb(&mut self, b: &RecBackend) {
        for op in b.take_ops() {
            self.feed(op);
        }
    }
    pub fn feed(&mut self, op: Op) {
        match op {
            Op::Sync => {
                let p = std::mem::take(&mut self.pending);
                for o in &p {
                    apply(&mut self.durable, o);
                }
                self.syncs += 1;
            }
            Op::Write { .. } => {
                self.writes += 1;
                self.pending.push(op);
            }
            Op::SetLen(_) => self.pending.push(op),
            _ => {}
        }
    }
    /// image with every issued write applied (what the backend holds right now)
    pub fn image_all(&self) -> Vec<u8> {
        let mut img = self.durable.clone();
        for o in &self.pending {
            apply(&mut img, o);
        }
        img
    }
    /// image with none of the unsynced writes
    pub fn image_none(&self) -> Vec<u8> {
        self.durable.clone()
    }
    /// image keeping the pending ops selected by `keep(i, op)`; set_len calls are kept in order when selected
    pub fn image_with(&self, mut keep: impl FnMut(usize, &Op) -> bool) -> Vec<u8> {
        let mut img = self.durable.clone();
        for (i, o) in self.pending.iter().enumerate() {
            if keep(i, o) {
                apply(&mut img, o);
            }
        }
        img
    }
    /// random subset image; `mode` 0 = random half, 1 = only header-page writes (offset < page),
    /// 2 = everything except header-page writes, 3 = a prefix, 4 = everything except one write
    pub fn image_random(&self, r: &mut Rng, page: u64) -> (Vec<u8>, String) {
        let n = self.pending.len();
        let mode = r.below(5);
        let cut = r.below(n as u64 + 1) as usize;
        let skip = r.below(n.max(1) as u64) as usize;
        let mut bits = vec![];
        for _ in 0..n {
            bits.push(r.chance(1, 2));
        }
        let img = self.image_with(|i, o| {
            let hdr = matches!(o, Op::Write { off, .. } if *off < page);
            let setlen = matches!(o, Op::SetLen(_));
            match mode {
                0 => bits[i],
                1 => hdr || setlen,
                2 => !hdr,
                3 => i < cut,
                _ => i != skip,
            }
        });
        let label = match mode {
            0 => "random-half".to_string(),
            1 => "header-only".to_string(),
            2 => "data-only".to_string(),
            3 => format!("prefix-{cut}/{n}"),
            _ => format!("all-but-{skip}/{n}"),
        };
        (img, label)
    }
}

// ------------------------------------------------------------------------------------ header parse

/// Independent parse of the super-header fields the open path decision depends on.
#[derive(Clone, Copy, Debug, PartialEq, Eq)]
pub struct Hdr {
    pub primary: u8,
    pub recovery_required: bool,
    pub two_phase: bool,
    pub txid: [u64; 2],
}

pub const GOD_BYTE_OFFSET: usize = 9;
pub const SLOT_OFFSET: [usize; 2] = [64, 192];
pub const SLOT_TXID_OFFSET: usize = 80;

impl Hdr {
    pub fn parse(img: &[u8]) -> Option<Hdr> {
        if img.len() < 320 || &img[..9] != b"redb\x1A\x0A\xA9\x0D\x0A" {
            return None;
        }
        let g = img[GOD_BYTE_OFFSET];
        let t = |s: usize| {
            let o = SLOT_OFFSET[s] + SLOT_TXID_OFFSET;
            u64::from_le_bytes(img[o..o + 8].try_into().unwrap())
        };
        Some(Hdr { primary: g & 1, recovery_required: g & 2 != 0, two_phase: g & 4 != 0, txid: [t(0), t(1)] })
    }
    pub fn primary_txid(&self) -> u64 {
        self.txid[self.primary as usize]
    }
    pub fn secondary_txid(&self) -> u64 {
        self.txid[1 - self.primary as usize]
    }
}

// ------------------------------------------------------------------------------------ H3: ownership equation

#[derive(Clone, Debug, Default)]
pub struct OwnInfo {
    pub allocated: usize,
    pub reach_data: usize,
    pub reach_system: usize,
    pub data_freed: usize,
    pub system_freed: usize,
    pub unpersisted_freed: usize,
    pub snapshot_txid: Option<u64>,
    pub latest_txid: u64,
    pub durable_txid: u64,
    pub regions: usize,
    pub persistent_ids: Vec<u64>,
    /// the allocated order-0 pages (region, index), ascending
    pub allocated_list: Vec<(u32, u32)>,
}

/// The page-ownership equation at a transaction boundary (no live write transaction), from the H3
/// snapshot and redb's walkers:  allocated (order-0)  ==  reach(data) + reach(system) + DATA_FREED +
/// SYSTEM_FREED + unpersisted.data_freed, as a DISJOINT union.  Err = the equation fails.
pub fn own_check(db: &Database) -> Result<OwnInfo, String> {
    match catch(|| own_check_inner(db)) {
        Ok(r) => r,
        Err(p) => Err(format!("panic while taking the snapshot: {p}")),
    }
}

fn own_check_inner(db: &Database) -> Result<OwnInfo, String> {
    use redb::verif::VPage;
    let snap = db.verif_snapshot();
    if !snap.mem.allocators_loaded {
        return Err("allocator state not loaded".into());
    }
    let latest = snap.mem.latest().clone();
    let reach = db.verif_reach(latest.data_root, latest.system_root).map_err(s)?;
    let allocated: BTreeSet<(u32, u32)> = snap.mem.allocated_order0().into_iter().collect();
    let mut owned: BTreeMap<(u32, u32), &'static str> = BTreeMap::new();
    let mut dup: Option<String> = None;
    let mut add = |pages: &[VPage], what: &'static str, owned: &mut BTreeMap<(u32, u32), &'static str>| {
        let mut n = 0;
        for p in pages {
            for i in p.order0_range() {
                n += 1;
                if let Some(prev) = owned.insert((p.region, i), what) {
                    if dup.is_none() {
                        dup = Some(format!("order-0 page r{}.{} owned twice: {} and {}", p.region, i, prev, what));
                    }
                }
            }
        }
        n
    };
    let mut info = OwnInfo::default();
    info.reach_data = add(&reach.data_pages, "data tree", &mut owned);
    info.reach_system = add(&reach.system_pages, "system tree", &mut owned);
    for l in &reach.data_freed {
        info.data_freed += add(&l.pages, "DATA_FREED", &mut owned);
    }
    for l in &reach.system_freed {
        info.system_freed += add(&l.pages, "SYSTEM_FREED", &mut owned);
    }
    for (_, pages) in &snap.mem.unpersisted.data_freed {
        info.unpersisted_freed += add(pages, "unpersisted data_freed", &mut owned);
    }
    if let Some(d) = dup {
        return Err(d);
    }
    info.allocated = allocated.len();
    info.allocated_list = allocated.iter().copied().collect();
    info.snapshot_txid = reach.allocator_state_transaction_id;
    info.latest_txid = latest.transaction_id;
    info.durable_txid = snap.mem.durable().transaction_id;
    info.regions = snap.mem.regions.len();
    info.persistent_ids = reach.persistent_savepoints.iter().map(|r| r.id).collect();
    let owned_set: BTreeSet<(u32, u32)> = owned.keys().copied().collect();
    if owned_set != allocated {
        let leaked: Vec<_> = allocated.difference(&owned_set).take(5).collect();
        let missing: Vec<_> = owned_set.difference(&allocated).take(5).map(|k| (k, owned[k])).collect();
        return Err(format!(
            "allocated != required: {} allocated, {} required; allocated but not required (leak) e.g. {:?}; required but not allocated e.g. {:?}",
            allocated.len(),
            owned_set.len(),
            leaked,
            missing
        ));
    }
    Ok(info)
}

/// tracker view for the C07 correspondence: "v=<id><p|e>,... n=<next_savepoint_id>"
pub fn tracker_line(db: &Database) -> String {
    let t = db.verif_snapshot().tracker;
    let pers: BTreeSet<u64> = t.persistent_savepoints.iter().copied().collect();
    let mut v: Vec<String> = t
        .valid_savepoints
        .iter()
        .map(|(id, _)| format!("{}{}", id, if pers.contains(id) { "p" } else { "e" }))
        .collect();
    if v.is_empty() {
        v.push("-".into());
    }
    let extra: Vec<u64> = pers.iter().copied().filter(|p| !t.valid_savepoints.iter().any(|(i, _)| i == p)).collect();
    let refs: u64 = t.live_read_transactions.iter().map(|(_, c)| *c).sum();
    let pend = t.pending_non_durable_commits.len() as u64;
    format!(
        "snap v={} n={}{} userrefs={}",
        v.join(","),
        t.next_savepoint_id,
        if extra.is_empty() { String::new() } else { format!(" persistent-not-valid={extra:?}") },
        refs - pend
    )
}

// ------------------------------------------------------------------------------------ process isolation

/// Result of one history, as produced in a child process and shipped to the parent.
#[derive(Clone, Debug, Default)]
pub struct Block {
    pub texts: BTreeMap<String, String>,
    pub nums: BTreeMap<String, u64>,
}

impl Block {
    pub fn text(&self, k: &str) -> &str {
        self.texts.get(k).map(|s| s.as_str()).unwrap_or("")
    }
    pub fn num(&self, k: &str) -> u64 {
        self.nums.get(k).copied().unwrap_or(0)
    }
    fn encode(&self) -> Vec<u8> {
        let mut o = Vec::new();
        for (k, v) in &self.texts {
            o.extend(format!("T {} {}\n", k, v.len()).as_bytes());
            o.extend(v.as_bytes());
            o.push(b'\n');
        }
        for (k, v) in &self.nums {
            o.extend(format!("N {k} {v}\n").as_bytes());
        }
        o
    }
    fn decode(mut b: &[u8]) -> Block {
        let mut r = Block::default();
        while !b.is_empty() {
            let nl = b.iter().position(|c| *c == b'\n').unwrap_or(b.len());
            let head = String::from_utf8_lossy(&b[..nl]).to_string();
            b = &b[(nl + 1).min(b.len())..];
            let parts: Vec<&str> = head.split(' ').collect();
            match parts.as_slice() {
                ["T", k, n] => {
                    let n: usize = n.parse().unwrap_or(0);
                    r.texts.insert(k.to_string(), String::from_utf8_lossy(&b[..n.min(b.len())]).to_string());
                    b = &b[(n + 1).min(b.len())..];
                }
                ["N", k, v] => {
                    r.nums.insert(k.to_string(), v.parse().unwrap_or(0));
                }
                _ => {}
            }
        }
        r
    }
}

/// Runs `work(i)` for every `i` in `todo`, spread over child processes (re-executions of the current
/// binary with the same arguments), so that a history that aborts the process (a panic while
/// unwinding, a stack overflow) is reported for exactly that history and the others still run.
/// Results come back in index order; `Err` carries how the child died.
pub fn run_isolated(tag: &str, todo: &[u64], work: &dyn Fn(u64) -> Block) -> Vec<(u64, Result<Block, String>)> {
    use std::io::Write;
    if let Ok(spec) = std::env::var("RV_CHILD") {
        // child: "<t>/<k>/<outfile>/<resume_after or ->"
        let p: Vec<&str> = spec.split('|').collect();
        let (t, k): (usize, usize) = (p[0].parse().unwrap(), p[1].parse().unwrap());
        let resume: Option<u64> = p[3].parse().ok();
        let mut out = std::fs::OpenOptions::new().create(true).append(true).open(p[2]).unwrap();
        let mut started = resume.is_none();
        for (pos, i) in todo.iter().enumerate() {
            if pos % k != t {
                continue;
            }
            if !started {
                if Some(*i) == resume {
                    started = true;
                }
                continue;
            }
            writeln!(out, "START {i}").unwrap();
            out.flush().unwrap();
            let b = work(*i).encode();
            writeln!(out, "BLOCK {} {}", i, b.len()).unwrap();
            out.write_all(&b).unwrap();
            out.write_all(b"\n").unwrap();
            out.flush().unwrap();
        }
        std::process::exit(0);
    }
    let k = std::thread::available_parallelism().map(|x| x.get()).unwrap_or(4).min(todo.len().max(1));
    let exe = std::env::current_exe().unwrap();
    let args: Vec<String> = std::env::args().skip(1).collect();
    let mut results: BTreeMap<u64, Result<Block, String>> = BTreeMap::new();
    let files: Vec<String> = (0..k).map(|t| format!("iso-{tag}-{t}.bin")).collect();
    for f in &files {
        let _ = std::fs::remove_file(f);
    }
    let mut resume: Vec<String> = vec!["-".to_string(); k];
    let mut pending: Vec<usize> = (0..k).collect();
    let mut rounds = 0;
    while !pending.is_empty() && rounds < 64 {
        rounds += 1;
        let mut children = vec![];
        for t in &pending {
            let c = std::process::Command::new(&exe)
                .args(&args)
                .env("RV_CHILD", format!("{}|{}|{}|{}", t, k, files[*t], resume[*t]))
                .stdout(std::process::Stdio::null())
                .stderr(std::process::Stdio::null())
                .spawn()
                .unwrap();
            children.push((*t, c));
        }
        let mut again = vec![];
        for (t, mut c) in children {
            let st = c.wait().unwrap();
            if !st.success() {
                // which history was running?
                let data = std::fs::read(&files[t]).unwrap_or_default();
                let text = String::from_utf8_lossy(&data);
                let mut last_start: Option<u64> = None;
                for l in text.lines() {
                    if let Some(r) = l.strip_prefix("START ") {
                        if let Ok(i) = r.trim().parse::<u64>() {
                            last_start = Some(i);
                        }
                    }
                }
                if let Some(h) = last_start {
                    results.insert(h, Err(format!("the process running this history died: {st}")));
                    resume[t] = h.to_string();
                    again.push(t);
                }
            }
        }
        pending = again;
    }
    for f in &files {
        let data = std::fs::read(f).unwrap_or_default();
        let mut b: &[u8] = &data;
        while !b.is_empty() {
            let nl = b.iter().position(|c| *c == b'\n').unwrap_or(b.len());
            let head = String::from_utf8_lossy(&b[..nl]).to_string();
            b = &b[(nl + 1).min(b.len())..];
            if let Some(r) = head.strip_prefix("BLOCK ") {
                let p: Vec<&str> = r.split(' ').collect();
                let (i, n): (u64, usize) = (p[0].parse().unwrap(), p[1].parse().unwrap());
                if n <= b.len() {
                    results.entry(i).or_insert_with(|| Ok(Block::decode(&b[..n])));
                    b = &b[(n + 1).min(b.len())..];
                } else {
                    break;
                }
            }
        }
        let _ = std::fs::remove_file(f);
    }
    todo.iter()
        .map(|i| (*i, results.remove(i).unwrap_or_else(|| Err("no result produced".to_string()))))
        .collect()
}
