//! C12: history generator, byte-level model of the contents (the "spec"), canonical dumps.
//!
//! Everything is kept at the level of *encoded* keys/values (`Value::as_bytes`), typed only at the
//! API boundary, so one generic function serves every table type.
use redb::{
    Database, Durability, Key, MultimapTableDefinition, ReadableDatabase, ReadableMultimapTable,
    ReadableTable, ReadableTableMetadata, StorageBackend, TableDefinition, TableHandle,
    MultimapTableHandle, Value, WriteTransaction,
};
use rv_harness::{Rng, hex};
use std::collections::BTreeMap;
use std::fmt::Write as _;
use std::io;
use std::sync::{Arc, Mutex};

pub const PAGE_SIZE: usize = 512;

/// Plain shared in-memory file.
#[derive(Clone, Debug)]
pub struct MemBackend(pub Arc<Mutex<Vec<u8>>>);

impl MemBackend {
    pub fn new(data: Vec<u8>) -> Self {
        MemBackend(Arc::new(Mutex::new(data)))
    }
    pub fn snapshot(&self) -> Vec<u8> {
        self.0.lock().unwrap_or_else(|e| e.into_inner()).clone()
    }
}

impl StorageBackend for MemBackend {
    fn len(&self) -> io::Result<u64> {
        Ok(self.0.lock().unwrap_or_else(|e| e.into_inner()).len() as u64)
    }
    fn read(&self, offset: u64, out: &mut [u8]) -> io::Result<()> {
        let g = self.0.lock().unwrap_or_else(|e| e.into_inner());
        let off = offset as usize;
        if off.checked_add(out.len()).map(|e| e > g.len()).unwrap_or(true) {
            return Err(io::Error::new(io::ErrorKind::UnexpectedEof, "read out of range"));
        }
        out.copy_from_slice(&g[off..off + out.len()]);
        Ok(())
    }
    fn set_len(&self, len: u64) -> io::Result<()> {
        if len > (1 << 28) {
            return Err(io::Error::new(io::ErrorKind::Other, "harness: refusing to grow beyond 256 MiB"));
        }
        self.0.lock().unwrap_or_else(|e| e.into_inner()).resize(len as usize, 0);
        Ok(())
    }
    fn sync_data(&self) -> io::Result<()> {
        Ok(())
    }
    fn write(&self, offset: u64, data: &[u8]) -> io::Result<()> {
        let mut g = self.0.lock().unwrap_or_else(|e| e.into_inner());
        let off = offset as usize;
        if off.checked_add(data.len()).map(|e| e > g.len()).unwrap_or(true) {
            return Err(io::Error::new(io::ErrorKind::UnexpectedEof, "write out of range"));
        }
        g[off..off + data.len()].copy_from_slice(data);
        Ok(())
    }
}

pub fn builder(region_size: u64) -> redb::Builder {
    let mut b = Database::builder();
    b.verif_set_page_size(PAGE_SIZE);
    b.verif_set_region_size(region_size);
    b.set_cache_size(1 << 20);
    b
}

// ------------------------------------------------------------------ schema

/// (kind id, is multimap).  The kind is encoded in the first character of the table name.
pub const N_KINDS: u8 = 8;
pub fn kind_is_multimap(kind: u8) -> bool {
    kind >= 5
}
pub fn kind_of_name(name: &str) -> Option<u8> {
    let c = name.as_bytes().first()?;
    if (b'a'..b'a' + N_KINDS).contains(c) { Some(c - b'a') } else { None }
}
pub fn kind_desc(kind: u8) -> &'static str {
    match kind {
        0 => "table<u64,&[u8]>",
        1 => "table<&str,u64>",
        2 => "table<&[u8],&str>",
        3 => "table<(u32,&str),u16>",
        4 => "table<i32,[u8;6]>",
        5 => "multimap<&str,u64>",
        6 => "multimap<u64,&[u8]>",
        7 => "multimap<u32,u32>",
        _ => "?",
    }
}

macro_rules! dispatch_normal {
    ($kind:expr, $f:ident ( $($args:expr),* )) => {
        match $kind {
            0 => $f::<u64, &'static [u8]>($($args),*),
            1 => $f::<&'static str, u64>($($args),*),
            2 => $f::<&'static [u8], &'static str>($($args),*),
            3 => $f::<(u32, &'static str), u16>($($args),*),
            4 => $f::<i32, [u8; 6]>($($args),*),
            _ => unreachable!("not a normal kind"),
        }
    };
}
macro_rules! dispatch_multi {
    ($kind:expr, $f:ident ( $($args:expr),* )) => {
        match $kind {
            5 => $f::<&'static str, u64>($($args),*),
            6 => $f::<u64, &'static [u8]>($($args),*),
            7 => $f::<u32, u32>($($args),*),
            _ => unreachable!("not a multimap kind"),
        }
    };
}

fn cmp_key(kind: u8, a: &[u8], b: &[u8]) -> std::cmp::Ordering {
    match kind {
        0 | 6 => <u64 as Key>::compare(a, b),
        1 | 5 => <&str as Key>::compare(a, b),
        2 => <&[u8] as Key>::compare(a, b),
        3 => <(u32, &str) as Key>::compare(a, b),
        4 => <i32 as Key>::compare(a, b),
        7 => <u32 as Key>::compare(a, b),
        _ => unreachable!(),
    }
}
fn cmp_mval(kind: u8, a: &[u8], b: &[u8]) -> std::cmp::Ordering {
    match kind {
        5 => <u64 as Key>::compare(a, b),
        6 => <&[u8] as Key>::compare(a, b),
        7 => <u32 as Key>::compare(a, b),
        _ => unreachable!(),
    }
}

fn small_str(r: &mut Rng, maxlen: u64) -> String {
    let n = r.range(1, maxlen);
    (0..n).map(|_| (b'a' + r.below(6) as u8) as char).collect()
}

/// encoded key of a table of `kind`, drawn from a small domain (so that removes/overwrites hit)
fn gen_key(kind: u8, r: &mut Rng) -> Vec<u8> {
    match kind {
        0 | 6 => {
            let v: u64 = if r.chance(1, 8) { r.next_u64() } else { r.below(60) * 7919 };
            v.to_le_bytes().to_vec()
        }
        1 | 5 => format!("k{:03}{}", r.below(50), if r.chance(1, 4) { small_str(r, 12) } else { String::new() })
            .into_bytes(),
        2 => {
            let n = r.range(0, 20) as usize;
            let mut v = format!("{:02}", r.below(40)).into_bytes();
            v.extend(r.bytes(n));
            v
        }
        3 => {
            let a = r.below(6) as u32;
            let s = format!("s{}", r.below(12));
            let t: (u32, &str) = (a, s.as_str());
            let enc = <(u32, &str) as Value>::as_bytes(&t);
            AsRef::<[u8]>::as_ref(&enc).to_vec()
        }
        4 => ((r.below(80) as i32) - 40).to_le_bytes().to_vec(),
        7 => (r.below(12) as u32).to_le_bytes().to_vec(),
        _ => unreachable!(),
    }
}
fn gen_val(kind: u8, r: &mut Rng) -> Vec<u8> {
    match kind {
        0 => {
            let n = *r.pick(&[0usize, 1, 5, 17, 40, 90, 200, 700]);
            r.bytes(n)
        }
        1 => r.next_u64().to_le_bytes().to_vec(),
        2 => small_str(r, 30).into_bytes(),
        3 => (r.next_u64() as u16).to_le_bytes().to_vec(),
        4 => r.bytes(6),
        5 => r.below(400).to_le_bytes().to_vec(),
        6 => {
            let n = *r.pick(&[1usize, 3, 9, 30, 60]);
            let mut v = vec![b'v'];
            v.extend(r.bytes(n));
            v
        }
        7 => (r.below(300) as u32).to_le_bytes().to_vec(),
        _ => unreachable!(),
    }
}

// ------------------------------------------------------------------ model (spec)

#[derive(Clone, Debug, PartialEq, Eq)]
pub enum TableModel {
    Normal(Vec<(Vec<u8>, Vec<u8>)>),        // kept sorted by the key type's order
    Multi(Vec<(Vec<u8>, Vec<Vec<u8>>)>),    // keys sorted, each value set sorted by the value type's order
}

#[derive(Clone, Debug, PartialEq, Eq, Default)]
pub struct Contents {
    pub tables: BTreeMap<String, TableModel>, // BTreeMap<String>: byte order == <&str as Key>::compare
}

#[derive(Clone, Debug, Default)]
pub struct Model {
    pub cur: Contents,
    pub savepoints: BTreeMap<u64, Contents>,
}

impl Contents {
    fn normal_mut(&mut self, name: &str) -> &mut Vec<(Vec<u8>, Vec<u8>)> {
        match self.tables.entry(name.to_string()).or_insert_with(|| TableModel::Normal(vec![])) {
            TableModel::Normal(v) => v,
            _ => unreachable!(),
        }
    }
    fn multi_mut(&mut self, name: &str) -> &mut Vec<(Vec<u8>, Vec<Vec<u8>>)> {
        match self.tables.entry(name.to_string()).or_insert_with(|| TableModel::Multi(vec![])) {
            TableModel::Multi(v) => v,
            _ => unreachable!(),
        }
    }
}

/// Canonical text of the contents: tables by name, entries in served order, then savepoint ids.
pub fn dump_model(c: &Contents, savepoints: &[u64]) -> String {
    let mut s = String::new();
    for (name, t) in &c.tables {
        match t {
            TableModel::Normal(es) => {
                writeln!(s, "T {} n={}", name, es.len()).unwrap();
                for (k, v) in es {
                    writeln!(s, " {} {}", hex(k), hex(v)).unwrap();
                }
            }
            TableModel::Multi(es) => {
                let total: usize = es.iter().map(|(_, vs)| vs.len()).sum();
                writeln!(s, "M {} n={}", name, total).unwrap();
                for (k, vs) in es {
                    write!(s, " {} :", hex(k)).unwrap();
                    for v in vs {
                        write!(s, " {}", hex(v)).unwrap();
                    }
                    s.push('\n');
                }
            }
        }
    }
    write!(s, "S").unwrap();
    for id in savepoints {
        write!(s, " {id}").unwrap();
    }
    s.push('\n');
    s
}

// ------------------------------------------------------------------ typed access at the boundary

type R<T> = Result<T, redb::Error>;

fn n_insert<K: Key + 'static, V: Value + 'static>(tx: &WriteTransaction, name: &str, k: &[u8], v: &[u8]) -> R<()> {
    let def: TableDefinition<K, V> = TableDefinition::new(name);
    let mut t = tx.open_table(def)?;
    t.insert(K::from_bytes(k), V::from_bytes(v))?;
    Ok(())
}
fn n_remove<K: Key + 'static, V: Value + 'static>(tx: &WriteTransaction, name: &str, k: &[u8]) -> R<bool> {
    let def: TableDefinition<K, V> = TableDefinition::new(name);
    let mut t = tx.open_table(def)?;
    let r = t.remove(K::from_bytes(k))?.is_some();
    Ok(r)
}
fn n_delete<K: Key + 'static, V: Value + 'static>(tx: &WriteTransaction, name: &str) -> R<bool> {
    let def: TableDefinition<K, V> = TableDefinition::new(name);
    Ok(tx.delete_table(def)?)
}
fn m_insert<K: Key + 'static, V: Key + 'static>(tx: &WriteTransaction, name: &str, k: &[u8], v: &[u8]) -> R<()> {
    let def: MultimapTableDefinition<K, V> = MultimapTableDefinition::new(name);
    let mut t = tx.open_multimap_table(def)?;
    t.insert(K::from_bytes(k), V::from_bytes(v))?;
    Ok(())
}
fn m_remove<K: Key + 'static, V: Key + 'static>(tx: &WriteTransaction, name: &str, k: &[u8], v: &[u8]) -> R<bool> {
    let def: MultimapTableDefinition<K, V> = MultimapTableDefinition::new(name);
    let mut t = tx.open_multimap_table(def)?;
    Ok(t.remove(K::from_bytes(k), V::from_bytes(v))?)
}
fn m_remove_all<K: Key + 'static, V: Key + 'static>(tx: &WriteTransaction, name: &str, k: &[u8]) -> R<()> {
    let def: MultimapTableDefinition<K, V> = MultimapTableDefinition::new(name);
    let mut t = tx.open_multimap_table(def)?;
    let it = t.remove_all(K::from_bytes(k))?;
    for x in it {
        x?;
    }
    Ok(())
}
fn m_delete<K: Key + 'static, V: Key + 'static>(tx: &WriteTransaction, name: &str) -> R<bool> {
    let def: MultimapTableDefinition<K, V> = MultimapTableDefinition::new(name);
    Ok(tx.delete_multimap_table(def)?)
}

fn n_dump<K: Key + 'static, V: Value + 'static>(rt: &redb::ReadTransaction, name: &str, s: &mut String) -> R<()> {
    let def: TableDefinition<K, V> = TableDefinition::new(name);
    let t = rt.open_table(def)?;
    writeln!(s, "T {} n={}", name, t.len()?).unwrap();
    let mut keys: Vec<(Vec<u8>, Vec<u8>)> = vec![];
    for e in t.iter()? {
        let (k, v) = e?;
        let kb = K::as_bytes(&k.value()).as_ref().to_vec();
        let vb = V::as_bytes(&v.value()).as_ref().to_vec();
        writeln!(s, " {} {}", hex(&kb), hex(&vb)).unwrap();
        keys.push((kb, vb));
    }
    // point lookups must agree with the scan (a reader is served by both)
    for (kb, vb) in &keys {
        match t.get(K::from_bytes(kb))? {
            Some(g) => {
                let got = V::as_bytes(&g.value()).as_ref().to_vec();
                if &got != vb {
                    writeln!(s, " !get {} -> {}", hex(kb), hex(&got)).unwrap();
                }
            }
            None => writeln!(s, " !get {} -> missing", hex(kb)).unwrap(),
        }
    }
    Ok(())
}
fn m_dump<K: Key + 'static, V: Key + 'static>(rt: &redb::ReadTransaction, name: &str, s: &mut String) -> R<()> {
    let def: MultimapTableDefinition<K, V> = MultimapTableDefinition::new(name);
    let t = rt.open_multimap_table(def)?;
    writeln!(s, "M {} n={}", name, t.len()?).unwrap();
    let mut all: Vec<(Vec<u8>, Vec<Vec<u8>>)> = vec![];
    for e in t.iter()? {
        let (k, vs) = e?;
        let kb = K::as_bytes(&k.value()).as_ref().to_vec();
        write!(s, " {} :", hex(&kb)).unwrap();
        let mut vv = vec![];
        for v in vs {
            let v = v?;
            let vb = V::as_bytes(&v.value()).as_ref().to_vec();
            write!(s, " {}", hex(&vb)).unwrap();
            vv.push(vb);
        }
        s.push('\n');
        all.push((kb, vv));
    }
    for (kb, vv) in &all {
        let mut got = vec![];
        for v in t.get(K::from_bytes(kb))? {
            let v = v?;
            got.push(V::as_bytes(&v.value()).as_ref().to_vec());
        }
        if &got != vv {
            writeln!(s, " !get {} -> {} values", hex(kb), got.len()).unwrap();
        }
    }
    Ok(())
}

/// Full dump of what the database serves: every table (typed by its name), then the persistent
/// savepoint ids.  Any error is returned (the caller decides what that means).
pub fn dump_db(db: &Database) -> R<String> {
    let mut s = String::new();
    {
        let rt = db.begin_read()?;
        let mut names: Vec<(String, bool)> = vec![];
        for h in rt.list_tables()? {
            names.push((h.name().to_string(), false));
        }
        for h in rt.list_multimap_tables()? {
            names.push((h.name().to_string(), true));
        }
        names.sort();
        for (name, multi) in names {
            match kind_of_name(&name) {
                Some(kind) if kind_is_multimap(kind) == multi => {
                    if multi {
                        dispatch_multi!(kind, m_dump(&rt, &name, &mut s))?;
                    } else {
                        dispatch_normal!(kind, n_dump(&rt, &name, &mut s))?;
                    }
                }
                _ => writeln!(s, "? unknown table {:?} multimap={}", name, multi).unwrap(),
            }
        }
    }
    let wt = db.begin_write()?;
    let mut ids: Vec<u64> = wt.list_persistent_savepoints()?.collect();
    ids.sort();
    wt.abort()?;
    write!(s, "S").unwrap();
    for id in ids {
        write!(s, " {id}").unwrap();
    }
    s.push('\n');
    Ok(s)
}

/// What restoring persistent savepoint `id` would serve (restore, dump inside the write
/// transaction is not possible with typed read API, so: restore + commit on a scratch copy is done
/// by the caller; this helper only restores and commits).
pub fn restore_savepoint_and_commit(db: &Database, id: u64) -> R<()> {
    let mut wt = db.begin_write()?;
    let sp = wt.get_persistent_savepoint(id)?;
    wt.restore_savepoint(&sp)?;
    wt.commit()?;
    Ok(())
}

// ------------------------------------------------------------------ history

#[derive(Clone, Debug)]
pub struct CommitPoint {
    pub idx: usize,
    pub dump: String,
    pub durable: bool,
    pub two_phase: bool,
    pub quick_repair: bool,
    pub what: String,
}

#[derive(Clone, Debug)]
pub struct Image {
    pub tag: String,        // "clean" | "crash@<commit idx>"
    pub bytes: Vec<u8>,
    /// index (into History::commits) of the newest commit point the image can serve
    pub upto: usize,
    /// savepoint id -> canonical dump of the state it captured (for the images where it exists)
    pub savepoints: BTreeMap<u64, String>,
}

pub struct History {
    pub seed: u64,
    pub region_size: u64,
    pub commits: Vec<CommitPoint>,
    pub images: Vec<Image>,
    pub ops: Vec<String>,
    pub stats: BTreeMap<String, u64>,
}

fn model_insert(c: &mut Contents, kind: u8, name: &str, k: &[u8], v: &[u8]) {
    if kind_is_multimap(kind) {
        let es = c.multi_mut(name);
        match es.binary_search_by(|(kk, _)| cmp_key(kind, kk, k)) {
            Ok(i) => {
                let vs = &mut es[i].1;
                if let Err(j) = vs.binary_search_by(|x| cmp_mval(kind, x, v)) {
                    vs.insert(j, v.to_vec());
                }
            }
            Err(i) => es.insert(i, (k.to_vec(), vec![v.to_vec()])),
        }
    } else {
        let es = c.normal_mut(name);
        match es.binary_search_by(|(kk, _)| cmp_key(kind, kk, k)) {
            Ok(i) => es[i].1 = v.to_vec(),
            Err(i) => es.insert(i, (k.to_vec(), v.to_vec())),
        }
    }
}

/// Run one generated history on a fresh in-memory file. `profile` selects the size/shape.
pub fn run_history(seed: u64, profile: u32) -> Result<History, String> {
    let mut r = Rng::new(seed ^ 0xC12C_12C1_2000 ^ ((profile as u64) << 48));
    let region_size: u64 = *r.pick(&[8192u64, 16384, 16384, 32768]);
    let backend = MemBackend::new(vec![]);
    let db = builder(region_size)
        .create_with_backend(backend.clone())
        .map_err(|e| format!("create: {e}"))?;
    let mut model = Model::default();
    let mut h = History { seed, region_size, commits: vec![], images: vec![], ops: vec![], stats: BTreeMap::new() };
    let n_txn = match profile {
        0 => r.range(3, 6),
        1 => r.range(6, 12),
        _ => r.range(10, 20),
    };
    let ops_per_txn = match profile {
        0 => 6,
        1 => 14,
        _ => 30,
    };
    // table names: one or two per kind
    let mut names: Vec<String> = vec![];
    for kind in 0..N_KINDS {
        names.push(format!("{}_{}", (b'a' + kind) as char, "t0"));
        if profile >= 1 && r.chance(1, 3) {
            names.push(format!("{}_{}", (b'a' + kind) as char, "t1"));
        }
    }
    let mut crash_at: Vec<u64> = vec![];
    // take "crash" snapshots (file as it is right after a durable commit returned, database not closed)
    // after the last durable commit and after one random earlier one
    let snap_mid = r.below(n_txn);
    let mut sp_snapshots: BTreeMap<u64, String> = BTreeMap::new();
    let stat = |h: &mut History, k: &str| *h.stats.entry(k.to_string()).or_insert(0) += 1;

    // Settle: a fresh file has ~1 MiB of free regions and every commit gives back at most one trailing
    // region; tick-only commits until the length stops shrinking, so that the images stay small.
    let mut tick_no = 0u64;
    {
        let mut stable = 0;
        let mut last_len = backend.snapshot().len();
        for _ in 0..400 {
            let wt = db.begin_write().map_err(|e| format!("begin_write: {e}"))?;
            let k = 0u64.to_le_bytes();
            let v = format!("settle-{tick_no}").into_bytes();
            tick_no += 1;
            dispatch_normal!(0u8, n_insert(&wt, "a_tick", &k, &v)).map_err(|e| format!("tick: {e}"))?;
            model_insert(&mut model.cur, 0, "a_tick", &k, &v);
            wt.commit().map_err(|e| format!("commit: {e}"))?;
            let idx = h.commits.len();
            h.commits.push(CommitPoint { idx, dump: dump_model(&model.cur, &[]), durable: true, two_phase: false, quick_repair: false, what: format!("settle {idx}") });
            let len = backend.snapshot().len();
            if len == last_len {
                stable += 1;
                if stable >= 3 {
                    break;
                }
            } else {
                stable = 0;
                last_len = len;
            }
        }
        *h.stats.entry("commit.settle".to_string()).or_insert(0) += h.commits.len() as u64;
    }
    for t in 0..n_txn {
        let mut wt = db.begin_write().map_err(|e| format!("begin_write: {e}"))?;
        let mut cur = model.cur.clone();
        let mut sps = model.savepoints.clone();
        let mut desc = String::new();
        let mut must_be_immediate = false;
        // savepoint operations come first (a savepoint needs a clean transaction)
        let sp_roll = r.below(10);
        if sp_roll == 0 && sps.len() < 3 {
            let id = wt.persistent_savepoint().map_err(|e| format!("persistent_savepoint: {e}"))?;
            sps.insert(id, cur.clone());
            write!(desc, "sp+{id} ").unwrap();
            must_be_immediate = true;
            stat(&mut h, "op.savepoint_create");
        } else if sp_roll == 1 && !sps.is_empty() {
            let ids: Vec<u64> = sps.keys().copied().collect();
            let id = *r.pick(&ids);
            let sp = wt.get_persistent_savepoint(id).map_err(|e| format!("get sp: {e}"))?;
            wt.restore_savepoint(&sp).map_err(|e| format!("restore sp: {e}"))?;
            cur = sps[&id].clone();
            sps.retain(|k, _| *k <= id);
            write!(desc, "sp<{id} ").unwrap();
            must_be_immediate = true;
            stat(&mut h, "op.savepoint_restore");
        } else if sp_roll == 2 && !sps.is_empty() {
            let ids: Vec<u64> = sps.keys().copied().collect();
            let id = *r.pick(&ids);
            wt.delete_persistent_savepoint(id).map_err(|e| format!("delete sp: {e}"))?;
            sps.remove(&id);
            write!(desc, "sp-{id} ").unwrap();
            must_be_immediate = true;
            stat(&mut h, "op.savepoint_delete");
        }
        // every transaction writes its number into the ticker table, so all commit points differ
        {
            let name = "a_tick";
            let k = 0u64.to_le_bytes();
            let v = format!("commit-{t}").into_bytes();
            dispatch_normal!(0u8, n_insert(&wt, name, &k, &v)).map_err(|e| format!("tick: {e}"))?;
            model_insert(&mut cur, 0, name, &k, &v);
        }
        let n_ops = r.range(1, ops_per_txn);
        for _ in 0..n_ops {
            let name = r.pick(&names).clone();
            let kind = kind_of_name(&name).unwrap();
            let roll = r.below(100);
            if kind_is_multimap(kind) {
                if roll < 70 {
                    // several values under one key, so that value sets outgrow the inline form
                    let k = gen_key(kind, &mut r);
                    let nv = if r.chance(1, 3) { r.range(8, 60) } else { r.range(1, 4) };
                    for _ in 0..nv {
                        let v = gen_val(kind, &mut r);
                        dispatch_multi!(kind, m_insert(&wt, &name, &k, &v)).map_err(|e| format!("m_insert: {e}"))?;
                        model_insert(&mut cur, kind, &name, &k, &v);
                    }
                    stat(&mut h, "op.multimap_insert");
                } else if !cur.tables.contains_key(&name) {
                    // nothing to remove from
                } else if roll < 85 {
                    let es = cur.multi_mut(&name);
                    if !es.is_empty() {
                        let i = r.below(es.len() as u64) as usize;
                        let k = es[i].0.clone();
                        let j = r.below(es[i].1.len() as u64) as usize;
                        let v = es[i].1[j].clone();
                        let was = dispatch_multi!(kind, m_remove(&wt, &name, &k, &v)).map_err(|e| format!("m_remove: {e}"))?;
                        if !was {
                            return Err("multimap remove of present value returned false".into());
                        }
                        es[i].1.remove(j);
                        if es[i].1.is_empty() {
                            es.remove(i);
                        }
                        stat(&mut h, "op.multimap_remove");
                    }
                } else if roll < 95 {
                    let es = cur.multi_mut(&name);
                    if !es.is_empty() {
                        let i = r.below(es.len() as u64) as usize;
                        let k = es[i].0.clone();
                        dispatch_multi!(kind, m_remove_all(&wt, &name, &k)).map_err(|e| format!("m_remove_all: {e}"))?;
                        es.remove(i);
                        stat(&mut h, "op.multimap_remove_all");
                    }
                } else if cur.tables.contains_key(&name) {
                    dispatch_multi!(kind, m_delete(&wt, &name)).map_err(|e| format!("m_delete: {e}"))?;
                    cur.tables.remove(&name);
                    stat(&mut h, "op.delete_multimap_table");
                }
            } else if roll < 75 {
                let k = gen_key(kind, &mut r);
                let v = gen_val(kind, &mut r);
                dispatch_normal!(kind, n_insert(&wt, &name, &k, &v)).map_err(|e| format!("insert: {e}"))?;
                model_insert(&mut cur, kind, &name, &k, &v);
                stat(&mut h, "op.insert");
            } else if !cur.tables.contains_key(&name) {
                // nothing to remove from
            } else if roll < 95 {
                let es = cur.normal_mut(&name);
                if !es.is_empty() {
                    let i = r.below(es.len() as u64) as usize;
                    let k = es[i].0.clone();
                    let was = dispatch_normal!(kind, n_remove(&wt, &name, &k)).map_err(|e| format!("remove: {e}"))?;
                    if !was {
                        return Err("remove of present key returned None".into());
                    }
                    es.remove(i);
                    stat(&mut h, "op.remove");
                }
            } else if cur.tables.contains_key(&name) {
                dispatch_normal!(kind, n_delete(&wt, &name)).map_err(|e| format!("delete: {e}"))?;
                cur.tables.remove(&name);
                stat(&mut h, "op.delete_table");
            }
        }
        if r.chance(1, 12) {
            wt.abort().map_err(|e| format!("abort: {e}"))?;
            h.ops.push(format!("txn {t}: {desc}{n_ops} ops, ABORT"));
            stat(&mut h, "txn.abort");
            continue;
        }
        let last = t + 1 == n_txn;
        let mode = r.below(10);
        let (durable, two_phase, quick) = if !must_be_immediate && !last && mode < 2 {
            wt.set_durability(Durability::None).map_err(|e| format!("set_durability: {e}"))?;
            (false, false, false)
        } else if mode < 5 {
            wt.set_two_phase_commit(true);
            (true, true, false)
        } else if mode < 7 {
            wt.set_quick_repair(true);
            (true, true, true)
        } else {
            (true, false, false)
        };
        wt.commit().map_err(|e| format!("commit: {e}"))?;
        model.cur = cur;
        model.savepoints = sps;
        let ids: Vec<u64> = model.savepoints.keys().copied().collect();
        let dump = dump_model(&model.cur, &ids);
        // the spec and the database must agree at the commit point itself
        let real = dump_db(&db).map_err(|e| format!("dump after commit {t}: {e}"))?;
        if real != dump {
            return Err(format!("spec and database disagree right after commit {t} (seed {seed}):\n--- spec\n{dump}\n--- db\n{real}"));
        }
        let idx = h.commits.len();
        h.commits.push(CommitPoint {
            idx,
            dump,
            durable,
            two_phase,
            quick_repair: quick,
            what: format!("txn {t}: {desc}{n_ops} ops durable={durable} 2pc={two_phase} quick_repair={quick}"),
        });
        h.ops.push(h.commits[idx].what.clone());
        stat(&mut h, if !durable { "commit.nondurable" } else if quick { "commit.quick_repair" } else if two_phase { "commit.2pc" } else { "commit.1pc" });
        for (id, c) in &model.savepoints {
            sp_snapshots.insert(*id, dump_model(c, &[]));
        }
        if durable && (last || t == snap_mid) {
            crash_at.push(t);
            h.images.push(Image {
                tag: format!("crash@{idx}"),
                bytes: backend.snapshot(),
                upto: idx,
                savepoints: model.savepoints.iter().map(|(id, c)| (*id, dump_model(c, &[]))).collect(),
            });
        }
    }
    if h.commits.is_empty() {
        return Err("history without commit".into());
    }
    let upto = h.commits.len() - 1;
    drop(db);
    h.images.push(Image {
        tag: "clean".into(),
        bytes: backend.snapshot(),
        upto,
        savepoints: model.savepoints.iter().map(|(id, c)| (*id, dump_model(c, &[]))).collect(),
    });
    Ok(h)
}
