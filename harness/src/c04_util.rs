//! Shared by the C04 and C18 harness binaries: program representation, text log format,
//! canonical printer, storage configurations and the program generator.
#![allow(dead_code)]
use rv_harness::{Rng, hex};
use std::fmt::Write as _;

/// pattern value used by the generators: byte i = (seed + 7*i) mod 256
pub fn pattern(len: usize, seed: u8) -> Vec<u8> {
    (0..len).map(|i| seed.wrapping_add((i as u8).wrapping_mul(7))).collect()
}

/// text token of a byte string: hex, or the compact form z<len>:<seed> for long pattern values
pub fn tok(v: &[u8]) -> String {
    if v.len() > 40 && v.iter().enumerate().all(|(i, b)| *b == v[0].wrapping_add((i as u8).wrapping_mul(7))) {
        format!("z{}:{}", v.len(), v[0])
    } else {
        hex(v)
    }
}

pub fn untok(s: &str) -> Vec<u8> {
    if let Some(x) = s.strip_prefix('z') {
        let (l, sd) = x.split_once(':').unwrap();
        pattern(l.parse().unwrap(), sd.parse::<u8>().unwrap())
    } else {
        rv_harness::unhex(s)
    }
}

#[derive(Clone, Copy, Debug, PartialEq, Eq)]
pub enum KType { Bytes, U64, Str }
#[derive(Clone, Copy, Debug, PartialEq, Eq)]
pub enum VType { Bytes, U64 }

#[derive(Clone, Debug)]
pub enum BoundS { U, I(Vec<u8>), E(Vec<u8>) }

impl BoundS {
    pub fn text(&self) -> String {
        match self {
            BoundS::U => "u".into(),
            BoundS::I(k) => format!("i{}", hex(k)),
            BoundS::E(k) => format!("e{}", hex(k)),
        }
    }
}

#[derive(Clone, Debug)]
pub enum Op {
    Insert(Vec<u8>, Vec<u8>),
    Reserve(Vec<u8>, Vec<u8>),
    Get(Vec<u8>),
    GetMut(Vec<u8>, Option<Vec<u8>>, Option<Vec<u8>>),
    EntryOrInsert(Vec<u8>, Vec<u8>),
    EntryModify(Vec<u8>, Vec<u8>, Vec<u8>),
    EntryInsert(Vec<u8>, Vec<u8>),
    EntryRemove(Vec<u8>),
    EntryRemoveEntry(Vec<u8>),
    EntryGet(Vec<u8>),
    Remove(Vec<u8>),
    PopFirst,
    PopLast,
    First,
    Last,
    Len,
    Range(BoundS, BoundS, String),
    Retain(u64, u64),
    RetainIn(BoundS, BoundS, u64, u64),
    /// lo, hi, m, r, script (f/b..., optional trailing c = close()), true = extract_if (no bounds)
    Extract(BoundS, BoundS, u64, u64, String, bool),
}

impl Op {
    pub fn text(&self) -> String {
        let o = |x: &Option<Vec<u8>>| x.as_ref().map(|v| tok(v)).unwrap_or("_".into());
        match self {
            Op::Insert(k, v) => format!("I {} {}", tok(k), tok(v)),
            Op::Reserve(k, v) => format!("R {} {}", tok(k), tok(v)),
            Op::Get(k) => format!("G {}", tok(k)),
            Op::GetMut(k, a, b) => format!("M {} {} {}", tok(k), o(a), o(b)),
            Op::EntryOrInsert(k, v) => format!("EO {} {}", tok(k), tok(v)),
            Op::EntryModify(k, a, b) => format!("EM {} {} {}", tok(k), tok(a), tok(b)),
            Op::EntryInsert(k, v) => format!("EI {} {}", tok(k), tok(v)),
            Op::EntryRemove(k) => format!("ER {}", tok(k)),
            Op::EntryRemoveEntry(k) => format!("EE {}", tok(k)),
            Op::EntryGet(k) => format!("EG {}", tok(k)),
            Op::Remove(k) => format!("D {}", tok(k)),
            Op::PopFirst => "PF".into(),
            Op::PopLast => "PL".into(),
            Op::First => "F".into(),
            Op::Last => "L".into(),
            Op::Len => "N".into(),
            Op::Range(lo, hi, s) => format!("Q {} {} {}", lo.text(), hi.text(), s),
            Op::Retain(m, r) => format!("T {m} {r}"),
            Op::RetainIn(lo, hi, m, r) => format!("U {} {} {m} {r}", lo.text(), hi.text()),
            Op::Extract(lo, hi, m, r, s, _) => format!("X {} {} {m} {r} {}", lo.text(), hi.text(), if s.is_empty() { "x" } else { s }),
        }
    }
    pub fn kind(&self) -> &'static str {
        match self {
            Op::Insert(..) => "insert",
            Op::Reserve(..) => "insert_reserve",
            Op::Get(..) => "get",
            Op::GetMut(..) => "get_mut",
            Op::EntryOrInsert(..) | Op::EntryModify(..) | Op::EntryInsert(..) | Op::EntryRemove(..)
            | Op::EntryRemoveEntry(..) | Op::EntryGet(..) => "entry",
            Op::Remove(..) => "remove",
            Op::PopFirst => "pop_first",
            Op::PopLast => "pop_last",
            Op::First => "first",
            Op::Last => "last",
            Op::Len => "len",
            Op::Range(..) => "range",
            Op::Retain(..) => "retain",
            Op::RetainIn(..) => "retain_in",
            Op::Extract(_, _, _, _, _, true) => "extract_if",
            Op::Extract(..) => "extract_from_if",
        }
    }
    pub fn mutates(&self) -> bool {
        !matches!(self, Op::Get(..) | Op::First | Op::Last | Op::Len | Op::Range(..) | Op::EntryGet(..))
    }
    pub fn value_class(&self, base: usize) -> Option<&'static str> {
        let v = match self {
            Op::Insert(_, v) | Op::Reserve(_, v) | Op::EntryOrInsert(_, v) | Op::EntryInsert(_, v) => v,
            Op::GetMut(_, Some(v), _) => v,
            Op::EntryModify(_, v, _) => v,
            _ => return None,
        };
        let n = v.len();
        Some(if n == 0 { "0" }
             else if n < base / 4 { "<page/4" }
             else if n < base / 2 - 8 { "~page/3" }
             else if n < base - 16 { "~page/2" }
             else if n < 2 * base { "~page" }
             else { ">=2pages" })
    }
}

#[derive(Clone, Copy, Debug, PartialEq, Eq)]
pub enum End { Commit, Abort }

#[derive(Clone, Debug)]
pub struct Txn { pub ops: Vec<Op>, pub end: End, pub reopen: bool }

#[derive(Clone, Debug)]
pub struct Program {
    pub id: u64,
    pub kt: KType,
    pub vt: VType,
    /// the page size the value/key lengths of this program were scaled to
    pub base: usize,
    pub shape: &'static str,
    pub txns: Vec<Txn>,
    /// shape programs (S2) run under exactly this page size; 0 = not a shape program
    pub page: usize,
}

impl Program {
    pub fn to_text(&self) -> String {
        let mut s = String::new();
        let kt = match self.kt { KType::Bytes => "bytes", KType::U64 => "u64", KType::Str => "str" };
        let vt = match self.vt { VType::Bytes => "bytes", VType::U64 => "u64" };
        if self.page != 0 {
            writeln!(s, "C {} {} {} {}", self.id, kt, vt, self.page).unwrap();
        } else {
            writeln!(s, "C {} {} {}", self.id, kt, vt).unwrap();
        }
        for t in &self.txns {
            writeln!(s, "B").unwrap();
            for op in &t.ops { writeln!(s, "{}", op.text()).unwrap(); }
            writeln!(s, "{}", if t.end == End::Commit { "K" } else { "A" }).unwrap();
            if t.reopen { writeln!(s, "O").unwrap(); }
        }
        s
    }
}

/// canonical printer shared with ocaml/c04_driver.ml: short strings in hex, long ones as #len:fnv1a64
pub fn canon(b: &[u8]) -> String {
    if b.len() <= 24 { return hex(b); }
    let mut h: u64 = 0xcbf29ce484222325;
    for x in b { h = (h ^ (*x as u64)).wrapping_mul(0x100000001b3); }
    format!("#{}:{:016x}", b.len(), h)
}

pub fn plist(l: &[String]) -> String {
    if l.is_empty() { "-".into() } else { l.join(",") }
}

#[derive(Clone, Debug)]
pub struct Config {
    pub name: &'static str,
    pub page_size: usize,
    pub region_size: Option<u64>,
    pub cache_size: Option<usize>,
}

pub fn configs() -> Vec<Config> {
    vec![
        Config { name: "p512", page_size: 512, region_size: None, cache_size: None },
        Config { name: "p512-r64k-c0", page_size: 512, region_size: Some(1 << 16), cache_size: Some(0) },
        Config { name: "p1024-r128k", page_size: 1024, region_size: Some(1 << 17), cache_size: None },
        Config { name: "p2048-c0", page_size: 2048, region_size: None, cache_size: Some(0) },
        Config { name: "p4096", page_size: 4096, region_size: None, cache_size: None },
        Config { name: "p4096-r1m-c64k", page_size: 4096, region_size: Some(1 << 20), cache_size: Some(1 << 16) },
        Config { name: "p16384-c0", page_size: 16384, region_size: None, cache_size: Some(0) },
    ]
}

// ------------------------------------------------------------------------------------------------ generation

const STR_ATOMS: [&str; 18] = ["a", "b", "z", "A", "0", "é", "ß", "日", "本", "語", "😀", "\u{7f}", "\u{80}", "\u{7ff}", "\u{800}", "\u{ffff}", "\u{10000}", "\u{10ffff}"];

fn gen_key_pool(r: &mut Rng, kt: KType, base: usize, n: usize) -> Vec<Vec<u8>> {
    let mut pool: Vec<Vec<u8>> = vec![];
    match kt {
        KType::U64 => {
            let special: [u64; 16] = [0, 1, 2, 3, 255, 256, 257, 65535, 65536, (1 << 32) - 1, 1 << 32, (1 << 56) + 1, 1 << 63, u64::MAX - 1, u64::MAX, 0x0102030405060708];
            let start = r.next_u64() >> r.below(60);
            while pool.len() < n {
                let v = match r.below(4) {
                    0 => *r.pick(&special),
                    1 => start.wrapping_add(pool.len() as u64),
                    2 => r.below(2000),
                    _ => r.next_u64() >> r.below(64),
                };
                let b = v.to_le_bytes().to_vec();
                if !pool.contains(&b) { pool.push(b); }
            }
        }
        KType::Bytes => {
            let shared: Vec<u8> = vec![0x70; 3 + r.below(40) as usize];
            let alphabet: [u8; 8] = [0, 1, 0x61, 0x62, 0x7f, 0x80, 0xfe, 0xff];
            pool.push(vec![]);
            let mut guard = 0;
            while pool.len() < n && guard < 10 * n + 100 {
                guard += 1;
                let k: Vec<u8> = match r.below(8) {
                    0 => (0..r.below(4)).map(|_| *r.pick(&alphabet)).collect(),
                    1 | 2 => { let mut k = shared.clone(); for _ in 0..r.below(4) { k.push(*r.pick(&alphabet)); } k }
                    3 => { let p = r.pick(&pool).clone(); let mut k = p; k.push(*r.pick(&alphabet)); k }
                    4 => { let p = r.pick(&pool).clone(); let l = r.below(p.len() as u64 + 1) as usize; p[..l].to_vec() }
                    5 if r.chance(1, 3) => {
                        // a long key: around a third of a page, half a page, or more than a page
                        let l = *r.pick(&[base / 3, base / 2 - 20, base + 9]);
                        let mut k = vec![0x6b; l]; k.push(r.next_u64() as u8); k
                    }
                    _ => { let l = 1 + r.below(12) as usize; r.bytes(l) }
                };
                if !pool.contains(&k) { pool.push(k); }
            }
        }
        KType::Str => {
            let shared: String = "prefix/".repeat(1 + r.below(5) as usize);
            pool.push(vec![]);
            let mut guard = 0;
            while pool.len() < n && guard < 10 * n + 100 {
                guard += 1;
                let mut s = String::new();
                match r.below(6) {
                    0 => { for _ in 0..r.below(4) { s.push_str(*r.pick(&STR_ATOMS)); } }
                    1 | 2 => { s.push_str(&shared); for _ in 0..r.below(4) { s.push_str(*r.pick(&STR_ATOMS)); } }
                    3 => { s = String::from_utf8(r.pick(&pool).clone()).unwrap(); s.push_str(*r.pick(&STR_ATOMS)); }
                    4 if r.chance(1, 4) => { let l = *r.pick(&[base / 3, base / 2 - 20, base + 9]); s = "k".repeat(l); s.push_str(*r.pick(&STR_ATOMS)); }
                    _ => { for _ in 0..(1 + r.below(10)) { s.push((b'a' + r.below(26) as u8) as char); } }
                }
                let k = s.into_bytes();
                if !pool.contains(&k) { pool.push(k); }
            }
        }
    }
    pool
}

fn gen_value(r: &mut Rng, vt: VType, base: usize, big: bool) -> Vec<u8> {
    match vt {
        VType::U64 => (match r.below(4) { 0 => 0u64, 1 => u64::MAX, 2 => r.below(1000), _ => r.next_u64() }).to_le_bytes().to_vec(),
        VType::Bytes => {
            let classes: &[usize] = if big {
                &[0, 1, 8, 30, base / 3 - 4, base / 3 + 4, base / 2 - 4, base / 2 + 4, base - 8, base + 8, 3 * base]
            } else {
                &[0, 1, 3, 8, 8, 20, 30, 30, 60, 100, base / 4, base / 3 - 4, base / 3 + 4, base / 2 - 4]
            };
            let mut l = *r.pick(classes);
            if r.chance(1, 3) { l = (l + r.below(9) as usize).saturating_sub(4); }
            let seed = r.next_u64() as u8;
            pattern(l, seed)
        }
    }
}

fn gen_bound(r: &mut Rng, pool: &[Vec<u8>]) -> BoundS {
    match r.below(5) {
        0 => BoundS::U,
        1 | 2 => BoundS::I(r.pick(pool).clone()),
        _ => BoundS::E(r.pick(pool).clone()),
    }
}

fn gen_script(r: &mut Rng, tail: &[char]) -> String {
    let mut s = String::new();
    for _ in 0..r.below(7) { s.push(if r.chance(1, 2) { 'f' } else { 'b' }); }
    s.push(*r.pick(tail));
    s
}

fn sorted_pool(kt: KType, pool: &[Vec<u8>]) -> Vec<Vec<u8>> {
    let mut p = pool.to_vec();
    match kt {
        KType::U64 => p.sort_by_key(|k| u64::from_le_bytes(k.as_slice().try_into().unwrap())),
        _ => p.sort(),
    }
    p
}

pub fn gen_program(r: &mut Rng, id: u64, thorough: bool) -> Program {
    let (kt, vt) = match r.below(10) {
        0..=3 => (KType::Bytes, VType::Bytes),
        4..=6 => (KType::U64, VType::Bytes),
        7..=8 => (KType::Str, VType::U64),
        _ => *r.pick(&[(KType::Str, VType::Bytes), (KType::Bytes, VType::U64), (KType::U64, VType::U64)]),
    };
    let base = *r.pick(&[512usize, 512, 512, 1024, 1024, 4096]);
    let big = vt == VType::Bytes && r.chance(1, 3);
    let shape = *r.pick(&["random", "random", "ascending-load", "descending-load", "load-then-delete", "load-then-pop", "large-values",
                          "extract-sweep", "range-sweep"]);
    // the sweeps need trees of height >= 2 / 3 at small pages: bounds and consumption counts are then drawn around the leaf edges
    let base = if shape.ends_with("-sweep") { 512 } else { base };
    let pool_n = match (vt, shape) {
        (_, "extract-sweep") | (_, "range-sweep") => 60 + r.below(if thorough { 240 } else { 180 }) as usize,
        (VType::U64, _) => 40 + r.below(if thorough { 600 } else { 260 }) as usize,
        (_, "random") => 6 + r.below(50) as usize,
        _ => 20 + r.below(if thorough { 300 } else { 120 }) as usize,
    };
    let pool = gen_key_pool(r, kt, base, pool_n);
    let sp = sorted_pool(kt, &pool);
    let mut txns: Vec<Txn> = vec![];
    let val = |r: &mut Rng| gen_value(r, vt, base, big || shape == "large-values");
    // optional directed prefix
    let mut pre: Vec<Op> = vec![];
    match shape {
        "extract-sweep" | "range-sweep" => {
            if r.chance(1, 2) { for k in &sp { pre.push(Op::Insert(k.clone(), val(r))); } }
            else { for k in &shuffled(r, &pool) { pre.push(Op::Insert(k.clone(), val(r))); } }
        }
        "ascending-load" => { for k in &sp { pre.push(Op::Insert(k.clone(), val(r))); } }
        "descending-load" => { for k in sp.iter().rev() { pre.push(Op::Insert(k.clone(), val(r))); } }
        "load-then-delete" | "load-then-pop" | "large-values" => {
            let mut ks = pool.clone();
            for i in (1..ks.len()).rev() { let j = r.below(i as u64 + 1) as usize; ks.swap(i, j); }
            for k in &ks { pre.push(Op::Insert(k.clone(), val(r))); }
        }
        _ => {}
    }
    if !pre.is_empty() {
        // split the load over one or several transactions
        let parts = 1 + r.below(3) as usize;
        let chunk = pre.len().div_ceil(parts);
        for c in pre.chunks(chunk.max(1)) {
            txns.push(Txn { ops: c.to_vec(), end: End::Commit, reopen: r.chance(1, 6) });
        }
    }
    let mut post: Vec<Op> = vec![];
    match shape {
        "load-then-delete" => {
            let mut ks = pool.clone();
            for i in (1..ks.len()).rev() { let j = r.below(i as u64 + 1) as usize; ks.swap(i, j); }
            let keep = r.below(4) as usize;
            for k in ks.iter().skip(keep) { post.push(Op::Remove(k.clone())); if r.chance(1, 12) { post.push(Op::Len); } }
        }
        "load-then-pop" => {
            for _ in 0..(pool.len() + 2) {
                post.push(if r.chance(1, 2) { Op::PopFirst } else { Op::PopLast });
            }
        }
        _ => {}
    }
    if !post.is_empty() {
        let parts = 1 + r.below(4) as usize;
        let chunk = post.len().div_ceil(parts);
        for c in post.chunks(chunk.max(1)) {
            let mut ops = c.to_vec();
            ops.push(Op::Range(BoundS::U, BoundS::U, "d".into()));
            txns.push(Txn { ops, end: if r.chance(1, 8) { End::Abort } else { End::Commit }, reopen: r.chance(1, 6) });
        }
    }
    // structured sweeps over a committed tree: every transaction tries one bound pair / consumption pattern and is
    // aborted, so that all of them see the same tree.  Bounds are PRESENT keys (Included / Excluded / Unbounded), the
    // consumption is forward, backward, alternating, or k steps from one end followed by a drain from the other end
    // (k swept over 1.., so that one end is parked exactly at a leaf edge for some k).
    if shape == "extract-sweep" || shape == "range-sweep" {
        let pick_bound = |r: &mut Rng, lo_side: bool| -> BoundS {
            // mostly near the ends so that windows are long; sometimes anywhere
            let n = sp.len();
            let i = if r.chance(2, 3) { if lo_side { r.below((n / 4).max(1) as u64) as usize } else { n - 1 - r.below((n / 4).max(1) as u64) as usize } }
                    else { r.below(n as u64) as usize };
            match r.below(5) { 0 => BoundS::U, 1 | 2 => BoundS::I(sp[i].clone()), _ => BoundS::E(sp[i].clone()) }
        };
        let nsweeps = if thorough { 36 } else { 28 };
        let kmax = 3 + r.below(40) as usize;
        let from_front = r.chance(1, 2);
        let (lo, hi) = (pick_bound(r, true), pick_bound(r, false));
        for j in 0..nsweeps {
            let k = 1 + (j % kmax);
            let (lo, hi) = if j % 4 == 3 { (pick_bound(r, true), pick_bound(r, false)) } else { (lo.clone(), hi.clone()) };
            let script: String = match j % 7 {
                5 => "fb".repeat(k) + if r.chance(1, 2) { "d" } else { "D" },
                6 => if r.chance(1, 2) { "d".into() } else { "D".into() },
                _ => if from_front ^ (j % 3 == 2) { "f".repeat(k) + "D" } else { "b".repeat(k) + "d" },
            };
            let mut ops: Vec<Op> = vec![];
            if shape == "extract-sweep" {
                // m = r: every entry of the window matches; otherwise most do
                let m = *r.pick(&[2u64, 3, 5]);
                let rr = if r.chance(2, 3) { m } else { r.below(m + 1) };
                let full = matches!((&lo, &hi), (BoundS::U, BoundS::U));
                ops.push(Op::Extract(lo.clone(), hi.clone(), m, rr, script + if r.chance(1, 2) { "c" } else { "x" }, full));
                if r.chance(1, 3) { let m = *r.pick(&[2u64, 3]); ops.push(Op::RetainIn(pick_bound(r, true), pick_bound(r, false), m, r.below(m + 1))); }
            } else {
                ops.push(Op::Range(lo.clone(), hi.clone(), script));
                ops.push(Op::Range(pick_bound(r, true), pick_bound(r, false), if r.chance(1, 2) { "D".into() } else { "bbbfD".into() }));
            }
            // (the contents after the transaction are compared by the dump that follows every commit / abort)
            ops.push(Op::Len);
            txns.push(Txn { ops, end: if r.chance(1, 6) { End::Commit } else { End::Abort }, reopen: false });
        }
    }
    // random transactions
    let ntx = 1 + r.below(5) as usize;
    for _ in 0..ntx {
        let nops = 1 + r.below(40) as usize;
        let mut ops = vec![];
        for _ in 0..nops {
            let k = r.pick(&pool).clone();
            let op = match r.below(100) {
                0..=31 => Op::Insert(k, val(r)),
                32..=45 => Op::Remove(k),
                46..=52 => Op::Get(k),
                53..=60 => Op::Range(gen_bound(r, &pool), gen_bound(r, &pool), gen_script(r, &['d', 'D', 'x', 'd'])),
                61..=62 => Op::PopFirst,
                63..=64 => Op::PopLast,
                65 => Op::First,
                66 => Op::Last,
                67..=68 => Op::Len,
                69..=73 => {
                    let a = if r.chance(3, 4) { Some(val(r)) } else { None };
                    let b = if a.is_some() && r.chance(1, 3) { Some(val(r)) } else { None };
                    Op::GetMut(k, a, b)
                }
                74..=79 => match r.below(6) {
                    0 => Op::EntryOrInsert(k, val(r)),
                    1 => Op::EntryModify(k, val(r), val(r)),
                    2 => Op::EntryInsert(k, val(r)),
                    3 => Op::EntryRemove(k),
                    4 => Op::EntryRemoveEntry(k),
                    _ => Op::EntryGet(k),
                },
                80..=83 => if vt == VType::Bytes { Op::Reserve(k, val(r)) } else { Op::Insert(k, val(r)) },
                84..=86 => { let m = *r.pick(&[2u64, 3, 5, 7]); Op::Retain(m, r.below(m + 1)) }
                87..=90 => { let m = *r.pick(&[2u64, 3, 5, 7]); Op::RetainIn(gen_bound(r, &pool), gen_bound(r, &pool), m, r.below(m + 1)) }
                91..=93 => { let m = *r.pick(&[2u64, 3, 5]); Op::Extract(BoundS::U, BoundS::U, m, r.below(m + 1), gen_script(r, &['x', 'c']), true) }
                _ => { let m = *r.pick(&[2u64, 3, 5]); Op::Extract(gen_bound(r, &pool), gen_bound(r, &pool), m, r.below(m + 1), gen_script(r, &['x', 'c']), false) }
            };
            ops.push(op);
        }
        ops.push(Op::Len);
        ops.push(Op::Range(BoundS::U, BoundS::U, if r.chance(1, 2) { "d".into() } else { "D".into() }));
        txns.push(Txn { ops, end: if r.chance(1, 4) { End::Abort } else { End::Commit }, reopen: r.chance(1, 5) });
    }
    Program { id, kt, vt, base, shape, txns, page: 0 }
}

// ------------------------------------------------------------------------------------------------ parsing (replay / shrinking)

fn unhex_tok(s: &str) -> Vec<u8> { untok(s) }

fn parse_bound(s: &str) -> BoundS {
    if s == "u" { BoundS::U }
    else if let Some(x) = s.strip_prefix('i') { BoundS::I(unhex_tok(x)) }
    else if let Some(x) = s.strip_prefix('e') { BoundS::E(unhex_tok(x)) }
    else { panic!("bad bound {s}") }
}

pub fn parse_op(line: &str) -> Option<Op> {
    let t: Vec<&str> = line.split(' ').collect();
    let o = |s: &str| if s == "_" { None } else { Some(unhex_tok(s)) };
    Some(match t[0] {
        "I" => Op::Insert(unhex_tok(t[1]), unhex_tok(t[2])),
        "R" => Op::Reserve(unhex_tok(t[1]), unhex_tok(t[2])),
        "G" => Op::Get(unhex_tok(t[1])),
        "M" => Op::GetMut(unhex_tok(t[1]), o(t[2]), o(t[3])),
        "EO" => Op::EntryOrInsert(unhex_tok(t[1]), unhex_tok(t[2])),
        "EM" => Op::EntryModify(unhex_tok(t[1]), unhex_tok(t[2]), unhex_tok(t[3])),
        "EI" => Op::EntryInsert(unhex_tok(t[1]), unhex_tok(t[2])),
        "ER" => Op::EntryRemove(unhex_tok(t[1])),
        "EE" => Op::EntryRemoveEntry(unhex_tok(t[1])),
        "EG" => Op::EntryGet(unhex_tok(t[1])),
        "D" => Op::Remove(unhex_tok(t[1])),
        "PF" => Op::PopFirst,
        "PL" => Op::PopLast,
        "F" => Op::First,
        "L" => Op::Last,
        "N" => Op::Len,
        "Q" => Op::Range(parse_bound(t[1]), parse_bound(t[2]), t[3].to_string()),
        "T" => Op::Retain(t[1].parse().unwrap(), t[2].parse().unwrap()),
        "U" => Op::RetainIn(parse_bound(t[1]), parse_bound(t[2]), t[3].parse().unwrap(), t[4].parse().unwrap()),
        "X" => {
            let (lo, hi) = (parse_bound(t[1]), parse_bound(t[2]));
            let full = matches!((&lo, &hi), (BoundS::U, BoundS::U));
            Op::Extract(lo, hi, t[3].parse().unwrap(), t[4].parse().unwrap(), t[5].to_string(), full)
        }
        _ => return None,
    })
}

pub fn parse_programs(text: &str) -> Vec<Program> {
    let mut out: Vec<Program> = vec![];
    let mut cur: Option<Txn> = None;
    for line in text.lines() {
        let line = line.trim_end();
        if line.is_empty() { continue; }
        let t: Vec<&str> = line.split(' ').collect();
        match t[0] {
            "C" => {
                let kt = match t[2] { "u64" => KType::U64, "str" => KType::Str, _ => KType::Bytes };
                let vt = match t[3] { "u64" => VType::U64, _ => VType::Bytes };
                let page = t.get(4).map(|x| x.parse().unwrap()).unwrap_or(0);
                out.push(Program { id: t[1].parse().unwrap(), kt, vt, base: 512, shape: "file", txns: vec![], page });
            }
            "B" => cur = Some(Txn { ops: vec![], end: End::Commit, reopen: false }),
            "K" | "A" => {
                let mut x = cur.take().expect("K/A without B");
                x.end = if t[0] == "K" { End::Commit } else { End::Abort };
                out.last_mut().unwrap().txns.push(x);
            }
            "O" => out.last_mut().unwrap().txns.last_mut().unwrap().reopen = true,
            _ => cur.as_mut().expect("op outside a transaction").ops.push(parse_op(line).expect("bad op line")),
        }
    }
    out
}

// ------------------------------------------------------------------------------------------------ shape programs (S2)
// Programs whose tree the check compares NODE BY NODE with the shape model (coq/Btree/Shape.v) after
// every operation.  `level` selects the operation kinds: 1 = the operations of Mutator.v (insert,
// remove, pop_first, pop_last), 2 = additionally the writers modelled in Guard.v / Retain.v / Extract.v.

/// canonical text of a tree shape, shared with ocaml/c04_driver.ml (print_shape):
///   S <length> <node> <node> ...       nodes in pre-order, `S 0 -` for the empty tree
///   leaf   L<depth><d|c><allocated>/<used>:<key>=<value length>,...
///   branch B<depth><d|c><allocated>/<used>:<separator>,...
/// d = uncommitted (dirty) page, c = committed page; keys through `canon`.
pub fn shape_line(s: &redb::verif::VShape) -> String {
    if s.nodes.is_empty() {
        return format!("S {} -", s.length);
    }
    let mut out = format!("S {}", s.length);
    for n in &s.nodes {
        let items: Vec<String> = if n.leaf {
            n.keys.iter().zip(n.value_lens.iter()).map(|(k, l)| format!("{}={}", canon(k), l)).collect()
        } else {
            n.keys.iter().map(|k| canon(k)).collect()
        };
        write!(out, " {}{}{}{}/{}:{}", if n.leaf { 'L' } else { 'B' }, n.depth, if n.uncommitted { 'd' } else { 'c' },
               n.allocated_len, n.used_len, items.join(",")).unwrap();
    }
    out
}

fn shape_value(r: &mut Rng, vt: VType, page: usize, big: bool) -> Vec<u8> {
    match vt {
        VType::U64 => gen_value(r, vt, page, false),
        VType::Bytes => {
            // lengths around every threshold of the mutator: a third / half / a whole page, several pages
            let classes: &[usize] = if big {
                &[0, 1, 8, 30, page / 6, page / 4, page / 3 - 12, page / 3 - 4, page / 3 + 4, page / 2 - 12, page / 2 - 4, page / 2 + 4,
                  page - 40, page - 24, page - 12, page - 4, page + 8, 2 * page - 20, 2 * page + 8, 3 * page + 5]
            } else {
                &[0, 1, 3, 8, 8, 20, 30, 30, 60, 100, page / 8, page / 6, page / 4, page / 3 - 12, page / 3 - 4, page / 3 + 4, page / 2 - 12]
            };
            let mut l = *r.pick(classes);
            if r.chance(1, 3) { l = (l + r.below(17) as usize).saturating_sub(8); }
            let seed = r.next_u64() as u8;
            pattern(l, seed)
        }
    }
}

fn shuffled(r: &mut Rng, v: &[Vec<u8>]) -> Vec<Vec<u8>> {
    let mut ks = v.to_vec();
    for i in (1..ks.len()).rev() { let j = r.below(i as u64 + 1) as usize; ks.swap(i, j); }
    ks
}

pub fn gen_shape_program(r: &mut Rng, id: u64, thorough: bool, level: u32) -> Program {
    let (kt, vt) = match r.below(20) {
        0..=6 => (KType::Bytes, VType::Bytes),
        7..=12 => (KType::U64, VType::Bytes),
        13..=14 => (KType::Str, VType::U64),
        15..=16 => (KType::Str, VType::Bytes),
        17 => (KType::Bytes, VType::U64),
        _ => (KType::U64, VType::U64),
    };
    let page = *r.pick(&[512usize, 512, 512, 512, 512, 512, 1024, 1024, 2048, 4096]);
    let shape = *r.pick(&["random", "random", "ascending-load", "ascending-load", "descending-load", "load-then-delete",
                          "load-then-delete", "load-then-pop", "large-values", "fill-drain"]);
    let big = vt == VType::Bytes && (shape == "large-values" || r.chance(1, 3));
    let scale = page / 512;
    let pool_n = match (vt, shape) {
        (VType::U64, "random") => 10 + r.below(60) as usize,
        (VType::U64, _) => (60 + r.below(if thorough { 400 } else { 200 }) as usize) * scale.min(2),
        (_, "random") => 6 + r.below(40) as usize,
        _ => (16 + r.below(if thorough { 160 } else { 90 }) as usize) * scale.min(2),
    };
    let pool = gen_key_pool(r, kt, page, pool_n);
    let sp = sorted_pool(kt, &pool);
    let val = |r: &mut Rng| shape_value(r, vt, page, big);
    let mut ops: Vec<Op> = vec![];
    match shape {
        "ascending-load" => { for k in &sp { ops.push(Op::Insert(k.clone(), val(r))); } }
        "descending-load" => { for k in sp.iter().rev() { ops.push(Op::Insert(k.clone(), val(r))); } }
        "load-then-delete" | "load-then-pop" | "large-values" => { for k in &shuffled(r, &pool) { ops.push(Op::Insert(k.clone(), val(r))); } }
        "fill-drain" => {
            for k in &sp { ops.push(Op::Insert(k.clone(), val(r))); }
            match r.below(3) {
                0 => { for k in &sp { ops.push(Op::Remove(k.clone())); } }
                1 => { for k in sp.iter().rev() { ops.push(Op::Remove(k.clone())); } }
                _ => { for k in &shuffled(r, &pool) { ops.push(Op::Remove(k.clone())); } }
            }
        }
        _ => {}
    }
    match shape {
        "load-then-delete" => {
            let keep = r.below(4) as usize;
            for k in shuffled(r, &pool).iter().skip(keep) { ops.push(Op::Remove(k.clone())); }
        }
        "load-then-pop" => {
            let first_heavy = r.below(3);
            for _ in 0..(pool.len() + 2) {
                ops.push(match first_heavy { 0 => Op::PopFirst, 1 => Op::PopLast, _ => if r.chance(1, 2) { Op::PopFirst } else { Op::PopLast } });
            }
        }
        _ => {}
    }
    // random tail
    let ntail = if shape == "random" { 20 + r.below(if thorough { 200 } else { 90 }) } else { r.below(40) } as usize;
    for _ in 0..ntail {
        let k = r.pick(&pool).clone();
        let op = if level >= 2 {
            let top = match level { 2 => 85, 3 => 95, _ => 100 };
            match r.below(top) {
                0..=34 => Op::Insert(k, val(r)),
                35..=52 => Op::Remove(k),
                53..=56 => Op::PopFirst,
                57..=60 => Op::PopLast,
                61..=72 => {
                    let a = if r.chance(4, 5) { Some(val(r)) } else { None };
                    let b = if a.is_some() && r.chance(1, 3) { Some(val(r)) } else { None };
                    Op::GetMut(k, a, b)
                }
                73..=78 => if vt == VType::Bytes { Op::Reserve(k, val(r)) } else { Op::Insert(k, val(r)) },
                79..=84 => match r.below(6) {
                    0 => Op::EntryOrInsert(k, val(r)),
                    1 => Op::EntryModify(k, val(r), val(r)),
                    2 => Op::EntryInsert(k, val(r)),
                    3 => Op::EntryRemove(k),
                    4 => Op::EntryRemoveEntry(k),
                    _ => Op::EntryGet(k),
                },
                85..=89 => { let m = *r.pick(&[2u64, 3, 5, 7]); Op::Retain(m, r.below(m + 1)) }
                90..=94 => { let m = *r.pick(&[2u64, 3, 5, 7]); Op::RetainIn(gen_bound(r, &pool), gen_bound(r, &pool), m, r.below(m + 1)) }
                95..=96 => { let m = *r.pick(&[2u64, 3, 5]); Op::Extract(BoundS::U, BoundS::U, m, r.below(m + 1), gen_script(r, &['x', 'c']), true) }
                _ => { let m = *r.pick(&[2u64, 3, 5]); Op::Extract(gen_bound(r, &pool), gen_bound(r, &pool), m, r.below(m + 1), gen_script(r, &['x', 'c']), false) }
            }
        } else {
            match r.below(100) {
                0..=54 => Op::Insert(k, val(r)),
                55..=84 => Op::Remove(k),
                85..=91 => Op::PopFirst,
                _ => Op::PopLast,
            }
        };
        ops.push(op);
    }
    // transaction boundaries: short and long transactions, so that both clean (copy on write) and dirty
    // (in place) pages are operated on; some aborted
    let mut txns: Vec<Txn> = vec![];
    let mut i = 0;
    let style = r.below(4);
    while i < ops.len() {
        let n = match style { 0 => 1 + r.below(3), 1 => 1 + r.below(12), 2 => 5 + r.below(40), _ => 1 + r.below(80) } as usize;
        let j = (i + n).min(ops.len());
        txns.push(Txn { ops: ops[i..j].to_vec(), end: if r.chance(1, 9) { End::Abort } else { End::Commit }, reopen: false });
        i = j;
    }
    // a final empty transaction: its opening shape shows what the last commit / abort left
    txns.push(Txn { ops: vec![], end: End::Abort, reopen: false });
    Program { id, kt, vt, base: page, shape, txns, page }
}

/// S2 sweep programs (added for the extract refinement theorems): a committed tree of height >= 2 at a 512-byte page,
/// then one extract_if / extract_from_if per transaction with the consumption patterns of the S3 "extract-sweep"
/// family -- k x next() or k x next_back() only (the two one-ended theorems), a full drain from one end, k steps from
/// one end followed by a drain from the other, strict alternation -- over PRESENT bounds; most transactions are
/// aborted so that every sweep sees the same tree.  The check replays them through the extracted RangeMut machine
/// (shape store and logical store) and compares the real tree after every operation.
pub fn gen_shape_sweep_program(r: &mut Rng, id: u64, thorough: bool) -> Program {
    let (kt, vt) = match r.below(10) {
        0..=3 => (KType::U64, VType::Bytes),
        4..=6 => (KType::Bytes, VType::Bytes),
        7 => (KType::Str, VType::U64),
        8 => (KType::Str, VType::Bytes),
        _ => (KType::U64, VType::U64),
    };
    let page = 512usize;
    let pool_n = match vt {
        VType::U64 => 150 + r.below(if thorough { 300 } else { 150 }) as usize,
        _ => 40 + r.below(if thorough { 140 } else { 80 }) as usize,
    };
    let pool = gen_key_pool(r, kt, page, pool_n);
    let sp = sorted_pool(kt, &pool);
    let mut txns: Vec<Txn> = vec![];
    let mut load: Vec<Op> = vec![];
    if r.chance(1, 2) { for k in &sp { load.push(Op::Insert(k.clone(), shape_value(r, vt, page, false))); } }
    else { for k in &shuffled(r, &pool) { load.push(Op::Insert(k.clone(), shape_value(r, vt, page, false))); } }
    let parts = 1 + r.below(2) as usize;
    let chunk = load.len().div_ceil(parts).max(1);
    for c in load.chunks(chunk) { txns.push(Txn { ops: c.to_vec(), end: End::Commit, reopen: false }); }
    let n = sp.len();
    let pick_bound = |r: &mut Rng, lo_side: bool| -> BoundS {
        let i = if r.chance(2, 3) { if lo_side { r.below((n / 4).max(1) as u64) as usize } else { n - 1 - r.below((n / 4).max(1) as u64) as usize } }
                else { r.below(n as u64) as usize };
        match r.below(5) { 0 => BoundS::U, 1 | 2 => BoundS::I(sp[i].clone()), _ => BoundS::E(sp[i].clone()) }
    };
    let nsweeps = if thorough { 18 } else { 11 };
    let kmax = 3 + r.below(30) as usize;
    let (lo, hi) = (pick_bound(r, true), pick_bound(r, false));
    for j in 0..nsweeps {
        let k = 1 + (j * 3 + r.below(3) as usize) % kmax;
        let (lo, hi) = if j % 4 == 3 { (pick_bound(r, true), pick_bound(r, false)) } else { (lo.clone(), hi.clone()) };
        let script: String = match j % 8 {
            0 => "b".repeat(k),
            1 => "f".repeat(k),
            2 => "D".into(),
            3 => "d".into(),
            4 => "b".repeat(k) + "d",
            5 => "f".repeat(k) + "D",
            6 => "fb".repeat(k) + if r.chance(1, 2) { "d" } else { "D" },
            _ => "bf".repeat(k),
        };
        let m = *r.pick(&[2u64, 3, 5]);
        let rr = if r.chance(1, 2) { m } else { r.below(m + 1) };
        let full = matches!((&lo, &hi), (BoundS::U, BoundS::U));
        let ops = vec![Op::Extract(lo.clone(), hi.clone(), m, rr, script + if r.chance(1, 2) { "c" } else { "x" }, full)];
        txns.push(Txn { ops, end: if r.chance(1, 5) { End::Commit } else { End::Abort }, reopen: false });
    }
    txns.push(Txn { ops: vec![], end: End::Abort, reopen: false });
    Program { id, kt, vt, base: page, shape: "extract-sweep", txns, page }
}
