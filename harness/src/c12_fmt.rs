//! C12: an independent reader of the redb file format (v3), written from the format description in
//! header.rs / btree_base.rs / table_tree_base.rs / multimap_btree.rs / savepoint.rs.  It shares no
//! code with the crate except the hash (`redb::verif::xxh3_128`).  Used for
//!   * classifying byte offsets (header field / slot field / page kind / region inside the page /
//!     covered by a checksum or beyond the page's used length),
//!   * the covered set `cov` of the served slot (S2),
//!   * exporting the checksummed forest in the vocabulary of coq/Integrity/Merkle.v.
//! Every access is bounds checked: undecodable input gives `Err`, never a panic.
#![allow(dead_code)]

use std::collections::BTreeMap;

pub const LEAF: u8 = 1;
pub const BRANCH: u8 = 2;
pub const SLOT0: usize = 64;
pub const SLOT1: usize = 192;
pub const SLOT_SIZE: usize = 128;
pub const SLOT_SUM: usize = 112;
pub const MAX_DEPTH: usize = 128;
pub const MAX_ORDER: u8 = 20;

type R<T> = Result<T, String>;

fn sl(b: &[u8], off: usize, len: usize) -> R<&[u8]> {
    off.checked_add(len).and_then(|e| b.get(off..e)).ok_or_else(|| format!("range {off}+{len} outside {}", b.len()))
}
fn u16le(b: &[u8], off: usize) -> R<usize> {
    Ok(u16::from_le_bytes(sl(b, off, 2)?.try_into().unwrap()) as usize)
}
fn u32le(b: &[u8], off: usize) -> R<usize> {
    Ok(u32::from_le_bytes(sl(b, off, 4)?.try_into().unwrap()) as usize)
}
fn u64le(b: &[u8], off: usize) -> R<u64> {
    Ok(u64::from_le_bytes(sl(b, off, 8)?.try_into().unwrap()))
}
fn u128le(b: &[u8], off: usize) -> R<u128> {
    Ok(u128::from_le_bytes(sl(b, off, 16)?.try_into().unwrap()))
}

#[derive(Clone, Copy, Debug, PartialEq, Eq, PartialOrd, Ord)]
pub struct Pn {
    pub region: u32,
    pub index: u32,
    pub order: u8,
}

impl Pn {
    pub fn from_le(b: &[u8]) -> Pn {
        let t = u64::from_le_bytes(b[..8].try_into().unwrap());
        let order = (t >> 59) as u8;
        let index = (t & (0x000F_FFFFu64 >> order)) as u32;
        let region = ((t >> 20) & 0x000F_FFFF) as u32;
        Pn { region, index, order }
    }
    pub fn id(&self) -> String {
        format!("{}.{}.{}", self.region, self.index, self.order)
    }
    /// the pointer as the model sees it: the on-disk u64, in hex
    pub fn num(&self) -> String {
        format!("{:x}", (u64::from(self.order) << 59) | (u64::from(self.region) << 20) | u64::from(self.index))
    }
}

#[derive(Clone, Copy, Debug, PartialEq, Eq)]
pub struct Root {
    pub pn: Pn,
    pub sum: u128,
    pub len: u64,
}

fn root_at(b: &[u8], off: usize) -> R<Root> {
    let x = sl(b, off, 32)?;
    Ok(Root { pn: Pn::from_le(&x[0..8]), sum: u128le(x, 8)?, len: u64le(x, 24)? })
}

#[derive(Clone, Debug)]
pub struct Slot {
    pub base: usize,
    pub version: u8,
    pub user: Option<Root>,
    pub system: Option<Root>,
    pub txid: u64,
    pub sum_ok: bool,
}

#[derive(Clone, Debug)]
pub struct Geometry {
    pub page_size: usize,
    pub region_header_pages: usize,
    pub region_max_pages: usize,
    pub full_regions: usize,
    pub trailing_pages: usize,
}

impl Geometry {
    pub fn region_len(&self) -> usize {
        (self.region_header_pages + self.region_max_pages) * self.page_size
    }
    pub fn num_regions(&self) -> usize {
        self.full_regions + usize::from(self.trailing_pages > 0)
    }
    /// byte range of a page, None if it does not lie inside the layout
    pub fn range(&self, pn: Pn, file_len: usize) -> Option<(usize, usize)> {
        if pn.order > MAX_ORDER || (pn.region as usize) >= self.num_regions() {
            return None;
        }
        let psz = self.page_size << pn.order;
        let pages_in_region = if (pn.region as usize) < self.full_regions { self.region_max_pages } else { self.trailing_pages };
        if ((pn.index as usize + 1) << pn.order) > pages_in_region {
            return None;
        }
        let start = self.page_size + pn.region as usize * self.region_len() + self.region_header_pages * self.page_size + pn.index as usize * psz;
        if start + psz > file_len {
            return None;
        }
        Some((start, psz))
    }
}

#[derive(Clone, Debug)]
pub struct PageInfo {
    pub pn: Pn,
    pub offset: usize,
    pub len: usize,
    /// covered prefix `[0, used)`: what the page's checksum is computed over
    pub used: usize,
    pub kind: String,
    /// (child page, stored child checksum) pairs found inside the covered prefix
    pub links: Vec<(Pn, u128)>,
    /// the pointer as the model sees it (page number + the context the page is read in) and the
    /// links in the same vocabulary
    pub mptr: String,
    pub mlinks: Vec<(String, u128)>,
    pub parent_sum: u128,
    pub sum_ok: bool,
    pub savepoint_only: bool,
}

pub struct Decoded {
    pub page_size: usize,
    pub file_len: usize,
    pub geo: Geometry,
    pub god: u8,
    pub slots: [Slot; 2],
    pub served: usize,
    pub pages: Vec<PageInfo>,
    pub class_names: Vec<String>,
    class_idx: BTreeMap<String, u16>,
    pub class: Vec<u16>,
    pub covered: Vec<bool>,
    pub all_sums_ok: bool,
    pub tables: Vec<String>,
    /// the TransactionId entry of the allocator-state table found under the walked slot's system tree
    pub alloc_txid: Option<u64>,
}

/// Model pointer: the on-disk page number followed by the context that determines how the page is
/// decoded (fixed key width, fixed value width, kind of values).  In an intact file every page is reached
/// in one context only; in a damaged file the same page may be reached in two, and its covered prefix
/// differs between them, so the contexts must be distinct pointers of the (single-valued) model image.
fn mptr(pn: Pn, fk: Option<usize>, fv: Option<usize>, vk: ValKind) -> String {
    format!("{}{}", pn.num(), ctx_tag(fk, fv, vk))
}

/// 13 bytes (26 hex digits) naming a decode context; also prefixed to the payload handed to the model, so that
/// the links found in a payload are a function of the (tagged) payload alone
fn ctx_tag(fk: Option<usize>, fv: Option<usize>, vk: ValKind) -> String {
    let w = |x: Option<usize>| x.map(|v| (v as u64 + 1) & 0xffff_ffff).unwrap_or(0);
    let (code, extra) = match vk {
        ValKind::Defs => (1, 0),
        ValKind::Dyn(vw) => (2, w(vw)),
        ValKind::Savepoints => (3, 0),
        ValKind::Plain => (4, 0),
    };
    format!("{:08x}{:08x}{:02x}{:08x}", w(fk), w(fv), code, extra)
}

#[derive(Clone, Copy)]
enum ValKind {
    /// values are table definitions (master tables)
    Defs,
    /// values are multimap dynamic collections whose values have this fixed width
    Dyn(Option<usize>),
    /// savepoint records
    Savepoints,
    Plain,
}

struct Walk<'a> {
    lenient: bool,
    b: &'a [u8],
    d: &'a mut Decoded,
    savepoint_only: bool,
    errors: Vec<String>,
    savepoint_roots: Vec<Root>,
}

impl Decoded {
    fn cls(&mut self, name: &str) -> u16 {
        if let Some(i) = self.class_idx.get(name) {
            return *i;
        }
        let i = self.class_names.len() as u16;
        self.class_names.push(name.to_string());
        self.class_idx.insert(name.to_string(), i);
        i
    }
    fn mark(&mut self, off: usize, len: usize, name: &str, covered: bool) {
        if self.class.is_empty() {
            return;
        }
        let c = self.cls(name);
        let end = (off + len).min(self.class.len());
        for o in off.min(end)..end {
            self.class[o] = c;
            self.covered[o] = covered;
        }
    }
    pub fn class_of(&self, off: usize) -> &str {
        &self.class_names[self.class[off] as usize]
    }
    pub fn is_covered(&self, off: usize) -> bool {
        self.covered.get(off).copied().unwrap_or(false)
    }
    pub fn covered_count(&self) -> usize {
        self.covered.iter().filter(|x| **x).count()
    }
    /// class of an alteration = class of its first changed byte; multi-site alterations join the distinct classes
    pub fn classify_writes(&self, writes: &[(usize, Vec<u8>)]) -> String {
        let mut names: Vec<String> = vec![];
        for (o, b) in writes {
            let mut last = String::new();
            for j in 0..b.len() {
                if o + j < self.class.len() {
                    let c = self.class_of(o + j);
                    if c != last {
                        last = c.to_string();
                        if !names.contains(&last) {
                            names.push(last.clone());
                        }
                    }
                }
            }
        }
        if names.len() > 3 {
            let n = names.len();
            names.truncate(3);
            names.push(format!("+{} more", n - 3));
        }
        if names.is_empty() { "none".into() } else { names.join(" & ") }
    }
}

pub fn coarse_class(off: usize, page_size: usize) -> String {
    if off < 64 {
        "hdr".into()
    } else if off < 320 {
        "slot".into()
    } else if off < page_size {
        "superheader-rest".into()
    } else {
        "page".into()
    }
}

fn parse_slot(b: &[u8], base: usize) -> R<Slot> {
    let s = sl(b, base, SLOT_SIZE)?;
    let sum = u128le(s, SLOT_SUM)?;
    Ok(Slot {
        base,
        version: s[0],
        user: if s[1] != 0 { Some(root_at(s, 8)?) } else { None },
        system: if s[2] != 0 { Some(root_at(s, 40)?) } else { None },
        txid: u64le(s, 104)?,
        sum_ok: sum == redb::verif::xxh3_128(&s[..SLOT_SUM]),
    })
}

struct Leaf {
    n: usize,
    used: usize,
    keys: Vec<(usize, usize)>,
    vals: Vec<(usize, usize)>,
    offsets_end: usize,
}

fn parse_leaf(p: &[u8], fk: Option<usize>, fv: Option<usize>) -> R<Leaf> {
    let n = u16le(p, 2)?;
    if n == 0 {
        return Err("leaf with zero pairs".into());
    }
    let mut off = 4;
    let mut key_ends = vec![];
    let mut val_ends = vec![];
    if fk.is_none() {
        for i in 0..n {
            key_ends.push(u32le(p, off + 4 * i)?);
        }
        off += 4 * n;
    }
    if fv.is_none() {
        for i in 0..n {
            val_ends.push(u32le(p, off + 4 * i)?);
        }
        off += 4 * n;
    }
    let offsets_end = off;
    let mut keys = vec![];
    let mut cur = off;
    for i in 0..n {
        let e = match fk {
            Some(w) => off + w * (i + 1),
            None => key_ends[i],
        };
        if e < cur || e > p.len() {
            return Err(format!("leaf key {i} range {cur}..{e}"));
        }
        keys.push((cur, e));
        cur = e;
    }
    let key_end = cur;
    let mut vals = vec![];
    for i in 0..n {
        let e = match fv {
            Some(w) => key_end + w * (i + 1),
            None => val_ends[i],
        };
        if e < cur || e > p.len() {
            return Err(format!("leaf value {i} range {cur}..{e}"));
        }
        vals.push((cur, e));
        cur = e;
    }
    Ok(Leaf { n, used: cur, keys, vals, offsets_end })
}

struct Branch {
    nkeys: usize,
    used: usize,
    children: Vec<(Pn, u128)>,
    sums_at: usize,
    ptrs_at: usize,
    keyoffs_at: usize,
    keys_at: usize,
}

fn parse_branch(p: &[u8], fk: Option<usize>) -> R<Branch> {
    let nkeys = u16le(p, 2)?;
    if nkeys == 0 {
        return Err("branch with zero keys".into());
    }
    let nch = nkeys + 1;
    let sums_at = 8;
    let ptrs_at = 8 + 16 * nch;
    let keyoffs_at = ptrs_at + 8 * nch;
    let mut children = vec![];
    for i in 0..nch {
        let sum = u128le(p, sums_at + 16 * i)?;
        let pn = Pn::from_le(sl(p, ptrs_at + 8 * i, 8)?);
        children.push((pn, sum));
    }
    let (keys_at, used) = match fk {
        Some(w) => (keyoffs_at, keyoffs_at + w * nkeys),
        None => {
            let keys_at = keyoffs_at + 4 * nkeys;
            (keys_at, u32le(p, keyoffs_at + 4 * (nkeys - 1))?)
        }
    };
    if used > p.len() || used < keys_at {
        return Err(format!("branch end {used} outside page"));
    }
    Ok(Branch { nkeys, used, children, sums_at, ptrs_at, keyoffs_at, keys_at })
}

struct Def {
    multimap: bool,
    root: Option<Root>,
    fk: Option<usize>,
    fv: Option<usize>,
}

fn parse_def(v: &[u8]) -> R<Def> {
    let ty = *v.first().ok_or("empty table definition")?;
    let multimap = match ty {
        3 => false,
        4 => true,
        x => return Err(format!("table type byte {x}")),
    };
    let nonnull = *sl(v, 9, 1)?.first().unwrap() != 0;
    let root = if nonnull { Some(root_at(v, 10)?) } else { None };
    let fk = if sl(v, 42, 1)?[0] != 0 { Some(u32le(v, 43)?) } else { None };
    let fv = if sl(v, 47, 1)?[0] != 0 { Some(u32le(v, 48)?) } else { None };
    let _ = sl(v, 52, 12)?;
    Ok(Def { multimap, root, fk, fv })
}

impl Walk<'_> {
    /// walk one btree; returns false if anything was undecodable
    fn tree(&mut self, root: Root, fk: Option<usize>, fv: Option<usize>, vk: ValKind, label: &str) {
        self.node(root.pn, root.sum, fk, fv, vk, label, 0);
    }

    fn node(&mut self, pn: Pn, sum: u128, fk: Option<usize>, fv: Option<usize>, vk: ValKind, label: &str, depth: usize) {
        if depth >= MAX_DEPTH {
            self.errors.push(format!("{label}: depth limit"));
            return;
        }
        let Some((off, len)) = self.d.geo.range(pn, self.b.len()) else {
            self.errors.push(format!("{label}: page {} outside layout", pn.id()));
            return;
        };
        let me = mptr(pn, fk, fv, vk);
        let seen = if self.lenient { self.d.pages.iter().any(|p| p.mptr == me) } else { self.d.pages.iter().any(|p| p.pn == pn) };
        if seen {
            if !self.savepoint_only && !self.lenient {
                self.errors.push(format!("{label}: page {} referenced twice", pn.id()));
            }
            return;
        }
        let p = &self.b[off..off + len];
        let sp = if self.savepoint_only { "savepoint-only:" } else { "" };
        match p[0] {
            LEAF => {
                let leaf = match parse_leaf(p, fk, fv) {
                    Ok(l) => l,
                    Err(e) => {
                        self.errors.push(format!("{label}: leaf {}: {e}", pn.id()));
                        return;
                    }
                };
                let kind = format!("{sp}{label}-leaf");
                let cov = !self.savepoint_only;
                self.d.mark(off, 4, &format!("{kind}/hdr"), cov);
                self.d.mark(off + 4, leaf.offsets_end - 4, &format!("{kind}/offsets"), cov);
                for (s, e) in &leaf.keys {
                    self.d.mark(off + s, e - s, &format!("{kind}/key"), cov);
                }
                let mut links = vec![];
                let mut mlinks: Vec<(String, u128)> = vec![];
                let mut subs: Vec<(Root, Option<usize>, Option<usize>, ValKind, String)> = vec![];
                for (i, (s, e)) in leaf.vals.iter().enumerate() {
                    let v = &p[*s..*e];
                    match vk {
                        ValKind::Plain => {
                            self.d.mark(off + s, e - s, &format!("{kind}/value"), cov);
                            // AllocatorStateKey::TransactionId = tag 5; value = u64 le
                            if label == "sys:allocator_state" && !self.savepoint_only && v.len() == 8 && p.get(leaf.keys[i].0) == Some(&5) {
                                self.d.alloc_txid = Some(u64::from_le_bytes(v.try_into().unwrap()));
                            }
                        }
                        ValKind::Defs => {
                            let name = String::from_utf8_lossy(&p[leaf.keys[i].0..leaf.keys[i].1]).to_string();
                            self.d.mark(off + s, e - s, &format!("{kind}/def.typenames"), cov);
                            if e - s >= 64 {
                                self.d.mark(off + s, 1, &format!("{kind}/def.type"), cov);
                                self.d.mark(off + s + 1, 8, &format!("{kind}/def.length"), cov);
                                self.d.mark(off + s + 9, 1, &format!("{kind}/def.root-nonnull"), cov);
                                self.d.mark(off + s + 10, 8, &format!("{kind}/def.root-ptr"), cov);
                                self.d.mark(off + s + 18, 16, &format!("{kind}/def.root-sum"), cov);
                                self.d.mark(off + s + 34, 8, &format!("{kind}/def.root-len"), cov);
                                self.d.mark(off + s + 42, 10, &format!("{kind}/def.fixed-sizes"), cov);
                                self.d.mark(off + s + 52, 8, &format!("{kind}/def.alignment"), cov);
                                self.d.mark(off + s + 60, 4, &format!("{kind}/def.keytype-len"), cov);
                            }
                            match parse_def(v) {
                                Ok(def) => {
                                    if !self.savepoint_only {
                                        self.d.tables.push(format!("{label}:{name}{}", if def.multimap { " (multimap)" } else { "" }));
                                    }
                                    if let Some(r) = def.root {
                                        links.push((r.pn, r.sum));
                                        let is_sys = label.starts_with("sys");
                                        let (l2, vk2, fv2) = if def.multimap {
                                            ("multimap".to_string(), ValKind::Dyn(def.fv), None)
                                        } else if is_sys && name == "persistent_savepoints" {
                                            (format!("sys:{name}"), ValKind::Savepoints, def.fv)
                                        } else if is_sys {
                                            (format!("sys:{name}"), ValKind::Plain, def.fv)
                                        } else {
                                            ("table".to_string(), ValKind::Plain, def.fv)
                                        };
                                        mlinks.push((mptr(r.pn, def.fk, fv2, vk2), r.sum));
                                        subs.push((r, def.fk, fv2, vk2, l2));
                                    }
                                }
                                Err(e) => self.errors.push(format!("{label}: table definition {name:?}: {e}")),
                            }
                        }
                        ValKind::Dyn(vw) => match v.first() {
                            Some(1) => {
                                self.d.mark(off + s, 1, &format!("{kind}/dc.type"), cov);
                                self.d.mark(off + s + 1, e - s - 1, &format!("{kind}/dc.inline"), cov);
                            }
                            Some(3) if v.len() >= 33 => {
                                self.d.mark(off + s, 1, &format!("{kind}/dc.type"), cov);
                                self.d.mark(off + s + 1, 8, &format!("{kind}/dc.subtree-ptr"), cov);
                                self.d.mark(off + s + 9, 16, &format!("{kind}/dc.subtree-sum"), cov);
                                self.d.mark(off + s + 25, e - s - 25, &format!("{kind}/dc.subtree-len"), cov);
                                let r = root_at(v, 1).unwrap();
                                links.push((r.pn, r.sum));
                                mlinks.push((mptr(r.pn, vw, Some(0), ValKind::Plain), r.sum));
                                subs.push((r, vw, Some(0), ValKind::Plain, "subtree".to_string()));
                            }
                            _ => self.errors.push(format!("{label}: dynamic collection type {:?}", v.first())),
                        },
                        ValKind::Savepoints => {
                            self.d.mark(off + s, e - s, &format!("{kind}/value"), cov);
                            if v.len() == 50 && v[17] == 1 {
                                self.savepoint_roots.push(root_at(v, 18).unwrap());
                            }
                        }
                    }
                }
                self.d.mark(off + leaf.used, len - leaf.used, &format!("{kind}/beyond-used"), false);
                let sum_ok = redb::verif::xxh3_128(&p[..leaf.used]) == sum;
                self.d.pages.push(PageInfo { pn, offset: off, len, used: leaf.used, kind, links, mptr: me, mlinks, parent_sum: sum, sum_ok, savepoint_only: self.savepoint_only });
                for (r, k, v, vk2, l2) in subs {
                    self.tree(r, k, v, vk2, &l2);
                }
            }
            BRANCH => {
                let br = match parse_branch(p, fk) {
                    Ok(b) => b,
                    Err(e) => {
                        self.errors.push(format!("{label}: branch {}: {e}", pn.id()));
                        return;
                    }
                };
                let kind = format!("{sp}{label}-branch");
                let cov = !self.savepoint_only;
                self.d.mark(off, 8, &format!("{kind}/hdr"), cov);
                self.d.mark(off + br.sums_at, br.ptrs_at - br.sums_at, &format!("{kind}/child-sum"), cov);
                self.d.mark(off + br.ptrs_at, br.keyoffs_at - br.ptrs_at, &format!("{kind}/child-ptr"), cov);
                self.d.mark(off + br.keyoffs_at, br.keys_at - br.keyoffs_at, &format!("{kind}/key-offsets"), cov);
                self.d.mark(off + br.keys_at, br.used - br.keys_at, &format!("{kind}/key"), cov);
                self.d.mark(off + br.used, len - br.used, &format!("{kind}/beyond-used"), false);
                let sum_ok = redb::verif::xxh3_128(&p[..br.used]) == sum;
                let mlinks = br.children.iter().map(|(c, s)| (mptr(*c, fk, fv, vk), *s)).collect();
                self.d.pages.push(PageInfo { pn, offset: off, len, used: br.used, kind, links: br.children.clone(), mptr: me, mlinks, parent_sum: sum, sum_ok, savepoint_only: self.savepoint_only });
                for (c, s) in br.children {
                    self.node(c, s, fk, fv, vk, label, depth + 1);
                }
            }
            x => self.errors.push(format!("{label}: page {} has type byte {x}", pn.id())),
        }
    }
}

/// Which slot the open path serves (mirrors `select_primary_slot`; `None` = open fails)
pub fn select_slot(god: u8, slots: &[Slot; 2]) -> Option<usize> {
    let prim = (god & 1) as usize;
    let sec = prim ^ 1;
    if god & 4 != 0 {
        return if slots[prim].sum_ok { Some(prim) } else { None };
    }
    if !slots[prim].sum_ok {
        return if slots[sec].sum_ok { Some(sec) } else { None };
    }
    if slots[sec].txid > slots[prim].txid && slots[sec].sum_ok {
        return Some(sec);
    }
    Some(prim)
}

pub fn decode(b: &[u8], page_size: usize) -> R<Decoded> {
    decode_with(b, page_size, None, false, true)
}

/// `slot`: walk from this slot instead of the selected one; `lenient`: keep whatever decodes
/// (undecodable pages are simply absent) instead of failing.
pub fn decode_with(b: &[u8], page_size: usize, slot: Option<usize>, lenient: bool, classify: bool) -> R<Decoded> {
    if b.len() < page_size || b[..9] != [b'r', b'e', b'd', b'b', 0x1A, 0x0A, 0xA9, 0x0D, 0x0A] {
        return Err("no magic number".into());
    }
    let geo = Geometry {
        page_size: u32le(b, 12)?,
        region_header_pages: u32le(b, 16)?,
        region_max_pages: u32le(b, 20)?,
        full_regions: u32le(b, 24)?,
        trailing_pages: u32le(b, 28)?,
    };
    if geo.page_size != page_size {
        return Err(format!("page size {}", geo.page_size));
    }
    if geo.region_max_pages == 0 || geo.region_max_pages > (1 << 20) || geo.region_header_pages > (1 << 20) {
        return Err("region geometry".into());
    }
    // like header.rs: the stored region counts are used only when no recovery is required and they
    // describe the file length; otherwise the layout is recomputed from the length
    let mut geo = geo;
    let stored_len = if geo.num_regions() == 0 { 0 } else {
        let last = geo.num_regions() - 1;
        let last_pages = if last < geo.full_regions { geo.region_max_pages } else { geo.trailing_pages };
        geo.page_size + last * geo.region_len() + (geo.region_header_pages + last_pages) * geo.page_size
    };
    if b[9] & 2 != 0 || stored_len != b.len() {
        let mut remaining = b.len() - page_size;
        let full = remaining / geo.region_len();
        remaining -= full * geo.region_len();
        let trailing = if remaining >= (geo.region_header_pages + 1) * page_size {
            (remaining - geo.region_header_pages * page_size) / page_size
        } else {
            0
        };
        geo.full_regions = full;
        geo.trailing_pages = trailing;
    }
    let slots = [parse_slot(b, SLOT0)?, parse_slot(b, SLOT1)?];
    let god = b[9];
    let served = match slot {
        Some(i) => i,
        None => select_slot(god, &slots).ok_or("no valid slot")?,
    };
    let mut d = Decoded {
        page_size,
        file_len: b.len(),
        geo,
        god,
        slots: slots.clone(),
        served,
        pages: vec![],
        class_names: vec![],
        class_idx: BTreeMap::new(),
        class: if classify { vec![0; b.len()] } else { vec![] },
        covered: if classify { vec![false; b.len()] } else { vec![] },
        all_sums_ok: true,
        tables: vec![],
        alloc_txid: None,
    };
    d.mark(0, b.len(), "unreachable-or-free-page", false);
    d.mark(0, 9, "hdr.magic", true);
    d.mark(9, 1, "hdr.god-byte", true);
    d.mark(10, 2, "hdr.padding", false);
    d.mark(12, 4, "hdr.page-size", true);
    d.mark(16, 4, "hdr.region-header-pages", true);
    d.mark(20, 4, "hdr.region-max-data-pages", true);
    d.mark(24, 4, "hdr.full-regions", false);
    d.mark(28, 4, "hdr.trailing-region-pages", false);
    d.mark(32, 32, "hdr.unused", false);
    d.mark(320, page_size - 320, "superheader.rest", false);
    for (i, s) in slots.iter().enumerate() {
        let w = if i == served { "served-slot" } else { "other-slot" };
        let cov = i == served;
        for (o, l, n) in [
            (0, 1, "version"), (1, 1, "user-root-nonnull"), (2, 1, "system-root-nonnull"), (3, 5, "padding"),
            (8, 8, "user-root-ptr"), (16, 16, "user-root-sum"), (32, 8, "user-root-len"),
            (40, 8, "system-root-ptr"), (48, 16, "system-root-sum"), (64, 8, "system-root-len"),
            (72, 32, "unused"), (104, 8, "txid"), (112, 16, "slot-sum"),
        ] {
            d.mark(s.base + o, l, &format!("{w}.{n}"), cov);
        }
    }
    let sv = slots[served].clone();
    let mut w = Walk { lenient, b, d: &mut d, savepoint_only: false, errors: vec![], savepoint_roots: vec![] };
    if let Some(r) = sv.user {
        w.tree(r, None, None, ValKind::Defs, "data-master");
    }
    if let Some(r) = sv.system {
        w.tree(r, None, None, ValKind::Defs, "sys-master");
    }
    // pages that only a persistent savepoint still references (not walked by any checksum verification)
    let sroots = std::mem::take(&mut w.savepoint_roots);
    w.savepoint_only = true;
    for r in sroots {
        w.tree(r, None, None, ValKind::Defs, "data-master");
    }
    let errors = std::mem::take(&mut w.errors);
    if !errors.is_empty() && !lenient {
        return Err(errors.join("; "));
    }
    d.all_sums_ok = d.pages.iter().filter(|p| !p.savepoint_only).all(|p| p.sum_ok) && sv.sum_ok;
    Ok(d)
}

/// The forest in the vocabulary of coq/Integrity/Merkle.v (input format of ocaml/c12_driver.ml):
///   G <two_phase 0|1> <primary 0|1>
///   S <slot index> <payload hex (112 bytes)> <stored sum hex> <H(payload) hex> <txid hex> <links ptr=sum,...|->
///   P <ptr hex> <payload hex = covered prefix> <H(payload) hex> <links|->
/// Both slots are walked (leniently: a page that does not decode is absent, i.e. `img p = None`).
pub fn export_forest(b: &[u8], page_size: usize) -> R<String> {
    use std::fmt::Write as _;
    let fline = export_file_line(b, page_size);
    let hexs = |x: &[u8]| -> String { if x.is_empty() { "-".to_string() } else { x.iter().map(|c| format!("{c:02x}")).collect() } };
    let sumhex = |s: u128| -> String { hexs(&s.to_le_bytes()) };
    let d0 = decode_with(b, page_size, Some(0), true, false)?;
    let d1 = decode_with(b, page_size, Some(1), true, false)?;
    let mut s = String::new();
    s.push_str(&fline);
    writeln!(s, "G {} {}", u8::from(d0.god & 4 != 0), d0.god & 1).unwrap();
    for (i, sl_) in d0.slots.iter().enumerate() {
        let raw = &b[sl_.base..sl_.base + SLOT_SIZE];
        let mut links = vec![];
        if let Some(r) = sl_.user {
            links.push(format!("{}={}", mptr(r.pn, None, None, ValKind::Defs), sumhex(r.sum)));
        }
        if let Some(r) = sl_.system {
            links.push(format!("{}={}", mptr(r.pn, None, None, ValKind::Defs), sumhex(r.sum)));
        }
        writeln!(
            s, "S {} {} {} {} {:x} {}", i, hexs(&raw[..SLOT_SUM]), hexs(&raw[SLOT_SUM..]),
            sumhex(redb::verif::xxh3_128(&raw[..SLOT_SUM])), sl_.txid,
            if links.is_empty() { "-".to_string() } else { links.join(",") }
        ).unwrap();
    }
    let mut seen: Vec<String> = vec![];
    // A pointer's covered prefix depends on the context it is reached in; where the two walks disagree
    // (only possible in a damaged file) the view of the slot that recovery selects first wins.
    let first_is_1 = select_slot(d0.god, &d0.slots) == Some(1);
    let (da, db) = if first_is_1 { (&d1, &d0) } else { (&d0, &d1) };
    for p in da.pages.iter().chain(db.pages.iter()).filter(|p| !p.savepoint_only) {
        if seen.contains(&p.mptr) {
            continue;
        }
        seen.push(p.mptr.clone());
        let payload = &b[p.offset..p.offset + p.used];
        let links: Vec<String> = p.mlinks.iter().map(|(q, sum)| format!("{}={}", q, sumhex(*sum))).collect();
        // model payload = context tag ++ covered prefix; H(model payload) := XXH3 of the covered prefix
        let tag = &p.mptr[p.mptr.len() - 26..];
        let body = if payload.is_empty() { String::new() } else { hexs(payload) };
        writeln!(
            s, "P {} {}{} {} {}", p.mptr, tag, body, sumhex(redb::verif::xxh3_128(payload)),
            if links.is_empty() { "-".to_string() } else { links.join(",") }
        ).unwrap();
    }
    Ok(s)
}

/// The facts of coq/Integrity/Verdict.v's `file` record that do not need the forest, read from the raw
/// bytes (works for any length):
///   F <len hex> <magic 0|1> <rr 0|1> <page size hex> <region header pages hex> <region max pages hex>
///     <full regions hex> <trailing pages hex> <both slot versions = 3: 0|1> <forest 0|1>
///     <loaded 0|1> <counted slot0 0|1> <counted slot1 0|1>
/// loaded = the TWO_PHASE_COMMIT flag is set and the primary slot's system tree holds an allocator-state
/// table whose TransactionId entry is the primary slot's transaction id (`get_allocator_state_table`);
/// counted i = the table lengths stored in slot i's roots equal the number of table definitions the
/// reader finds in its master trees (what `rebuild_allocator_state` recounts).
pub fn export_file_line(b: &[u8], page_size: usize) -> String {
    let g = |off: usize| -> u64 { if b.len() >= off + 4 { u32::from_le_bytes(b[off..off + 4].try_into().unwrap()) as u64 } else { 0 } };
    let magic = b.len() >= 9 && b[..9] == [b'r', b'e', b'd', b'b', 0x1A, 0x0A, 0xA9, 0x0D, 0x0A];
    let god = if b.len() > 9 { b[9] } else { 0 };
    let vers = b.len() >= SLOT1 + 1 && b[SLOT0] == 3 && b[SLOT1] == 3;
    let mut forest = false;
    let mut loaded = false;
    let mut counted = [false, false];
    let ds = [decode_with(b, page_size, Some(0), true, false), decode_with(b, page_size, Some(1), true, false)];
    if let [Ok(d0), Ok(d1)] = &ds {
        forest = true;
        let prim = (god & 1) as usize;
        let dp = if prim == 0 { d0 } else { d1 };
        loaded = god & 4 != 0 && dp.alloc_txid == Some(dp.slots[prim].txid);
        for (i, d) in [d0, d1].into_iter().enumerate() {
            let n_user = d.tables.iter().filter(|t| t.starts_with("data-master:")).count() as u64;
            let n_sys = d.tables.iter().filter(|t| t.starts_with("sys-master:")).count() as u64;
            let s = &d.slots[i];
            counted[i] = s.user.map(|r| r.len).unwrap_or(0) == n_user && s.system.map(|r| r.len).unwrap_or(0) == n_sys;
        }
    }
    format!(
        "F {:x} {} {} {:x} {:x} {:x} {:x} {:x} {} {} {} {} {}\n",
        b.len(), u8::from(magic), u8::from(god & 2 != 0), g(12), g(16), g(20), g(24), g(28), u8::from(vers),
        u8::from(forest), u8::from(loaded), u8::from(counted[0]), u8::from(counted[1])
    )
}
