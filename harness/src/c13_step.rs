//! C13: `Database::compact()` run on a worker thread under the forced-schedule controller
//! (`rv_harness::conc::Controller`, H4 pause points), so that the harness decides at which of compact()'s steps
//! anything else happens and can look at the database between compact()'s own transactions.
//! Included with `#[path = "../c13_step.rs"] mod step;`.
//!
//! compact() takes `&mut Database`: the database is MOVED into the job and handed back when the call returns.
//! While the call is in flight the main thread has no `Database` (exactly what the borrow rules give any user);
//! it keeps what a user could keep: a `WriteTransaction` begun earlier, `Savepoint`s, `ReadTransaction`s, and
//! (hook `Database::verif_observer`) a read-only observer.
#![allow(dead_code)]

use redb::{CompactionError, Database};
use rv_harness::catch;
use rv_harness::conc::{Controller, Event};
use std::sync::{Arc, Mutex};

/// stops of the guard phase: 1st/2nd `T.any_savepoint` = before the savepoint check of the up-front /
/// in-transaction guards, `X.begin_write` = after the up-front guards, `X.begin_write.slot` = write slot taken
pub const GUARD_ALPHABET: &[&str] = &["T.any_savepoint", "X.begin_write", "X.begin_write.slot"];
/// stops of the run phase: every transaction compact() begins and how it ends
pub const RUN_ALPHABET: &[&str] = &["X.begin_write", "X.commit", "X.abort"];

pub fn compact_result(r: Result<Result<bool, CompactionError>, String>) -> String {
    match r {
        Ok(Ok(b)) => format!("none {b}"),
        Ok(Err(CompactionError::PersistentSavepointExists)) => "err persistent".into(),
        Ok(Err(CompactionError::EphemeralSavepointExists)) => "err ephemeral".into(),
        Ok(Err(CompactionError::TransactionInProgress)) => "err inprogress".into(),
        Ok(Err(e)) => format!("other {e}"),
        Err(p) => format!("other panic {p}"),
    }
}

pub struct Stepped {
    pub ctl: Arc<Controller>,
    back: Arc<Mutex<Option<Database>>>,
    workers: Vec<std::thread::JoinHandle<()>>,
    pub begun: bool,
}

impl Stepped {
    /// submit `db.compact()`; nothing runs before the first `step()`
    pub fn start(db: Database, blocking: &[&str]) -> Stepped {
        let ctl = Controller::new(1, blocking);
        ctl.install();
        let workers = ctl.spawn_workers();
        let back: Arc<Mutex<Option<Database>>> = Arc::new(Mutex::new(None));
        let b2 = back.clone();
        ctl.submit(
            0,
            Box::new(move || {
                let mut db = db;
                let r = compact_result(catch(|| db.compact()));
                *b2.lock().unwrap() = Some(db);
                r
            }),
        );
        Stepped { ctl, back, workers, begun: false }
    }

    /// let compact() run to its next stop. `Blocked` (asleep waiting for the write slot) is returned once;
    /// call `wait()` after the slot was released.
    pub fn step(&mut self) -> Event {
        self.begun = true;
        self.ctl.step(0)
    }

    /// after `Blocked`: the next stop once redb woke the thread up (spurious wake-ups are swallowed)
    pub fn wait(&self) -> Event {
        loop {
            match self.ctl.await_event(0) {
                Event::Blocked => continue,
                e => return e,
            }
        }
    }

    pub fn trace(&self) -> Vec<String> {
        self.ctl.trace(0)
    }

    /// the call returned: get the database back
    pub fn finish(self) -> Option<Database> {
        Controller::uninstall();
        self.ctl.shutdown();
        for w in self.workers {
            let _ = w.join();
        }
        self.back.lock().unwrap().take()
    }

    /// the call did not return (hung, or abandoned at a stop): the worker thread and the database are leaked
    pub fn abandon(self) {
        Controller::uninstall();
        std::mem::forget(self.workers);
    }
}
