//! Shared by the C06 and C05 harnesses: a "world" (database + live write transaction + pins held by the
//! harness), observation of the page-ownership state through hook H3 in the abstract form of
//! coq/Txn/Own.v, and the text trace consumed by ocaml/c06_driver.ml.
//!
//! Trace lines:
//!   H <history> <config>            new history (model state is re-synchronised)
//!   O <op> <args..>                 model step(s) corresponding to the API call just made
//!   X <label>                       opaque API call (no model step; re-synchronise)
//!   S <label> k=v ...               observed abstract state after the API call
//! Page ids are `region * 2^20 + order-0 index + 1`; lists are comma separated, `-` when empty.

use rv_harness::backend::RecBackend;
use redb::verif::{VDbSnapshot, VPage, VPageList, VReach, VRoot, VTxnSnapshot};
use redb::{Database, ReadTransaction, Savepoint, WriteTransaction};
use std::collections::{BTreeMap, BTreeSet};
use std::fmt::Write as _;

pub fn pid(region: u32, idx: u32) -> u64 {
    ((region as u64) << 20) + idx as u64 + 1
}

pub fn expand(pages: &[VPage]) -> Vec<u64> {
    let mut out = vec![];
    for p in pages {
        for i in p.order0_range() {
            out.push(pid(p.region, i));
        }
    }
    out
}

pub fn fmt_list(l: &[u64]) -> String {
    if l.is_empty() {
        return "-".into();
    }
    let mut s = String::new();
    for (i, x) in l.iter().enumerate() {
        if i > 0 {
            s.push(',');
        }
        write!(s, "{x}").unwrap();
    }
    s
}

/// table keyed by transaction id (pagination merged)
pub fn group(lists: &[VPageList]) -> BTreeMap<u64, Vec<u64>> {
    let mut m: BTreeMap<u64, Vec<u64>> = BTreeMap::new();
    for l in lists {
        m.entry(l.transaction_id).or_default().extend(expand(&l.pages));
    }
    m.retain(|_, v| !v.is_empty());
    m
}

pub fn fmt_tab(m: &BTreeMap<u64, Vec<u64>>) -> String {
    if m.is_empty() {
        return "-".into();
    }
    let mut s = String::new();
    for (i, (k, v)) in m.iter().enumerate() {
        if i > 0 {
            s.push(';');
        }
        write!(s, "{k}:{}", fmt_list(v)).unwrap();
    }
    s
}

pub enum PinKind {
    Reader(ReadTransaction),
    Eph(Savepoint),
    /// persistent savepoint id
    Pers(u64),
}

pub struct Pin {
    pub handle: u64,
    pub kind: PinKind,
    pub txn: u64,
    pub root: Option<VRoot>,
    /// abstract page ids of the pinned data version
    pub pages: Vec<u64>,
    /// (page, xxh3 of its bytes) when the pin was taken: a pinned page must never be rewritten
    pub content: Vec<(VPage, u128)>,
    /// savepoints only: still expected to be restorable
    pub valid: bool,
}

impl Pin {
    pub fn persistent(&self) -> bool {
        matches!(self.kind, PinKind::Pers(_))
    }
}

pub const SP_HANDLE_BASE: u64 = 1_000_000;

/// The observed abstract state (Own.v `st`), every list an unordered set
#[derive(Clone, Debug, Default, PartialEq, Eq)]
pub struct Abs {
    pub alloc: Vec<u64>,
    pub lastid: u64,
    pub dur: (u64, Vec<u64>, Vec<u64>),
    pub lat: (u64, Vec<u64>, Vec<u64>),
    pub dfreed: BTreeMap<u64, Vec<u64>>,
    pub sfreed: BTreeMap<u64, Vec<u64>>,
    pub ufreed: BTreeMap<u64, Vec<u64>>,
    pub unpers: Vec<u64>,
    pub pca: Vec<u64>,
    /// handle, txn, persistent, pages
    pub pins: Vec<(u64, u64, bool, Vec<u64>)>,
    pub pend: Vec<(u64, u64)>,
    pub inw: bool,
    pub wdata: Vec<u64>,
    pub wsys: Vec<u64>,
    pub wasc: Vec<u64>,
    pub wdfr: Vec<u64>,
    pub wsfr: Vec<u64>,
    pub wdfreed: BTreeMap<u64, Vec<u64>>,
    pub wrest: Option<u64>,
    pub wcreated: Vec<u64>,
    pub wdeleted: Vec<u64>,
}

impl Abs {
    pub fn line(&self, label: &str) -> String {
        let mut s = String::new();
        write!(s, "S {label} alloc={} lastid={}", fmt_list(&self.alloc), self.lastid).unwrap();
        write!(s, " dur={}|{}|{}", self.dur.0, fmt_list(&self.dur.1), fmt_list(&self.dur.2)).unwrap();
        write!(s, " lat={}|{}|{}", self.lat.0, fmt_list(&self.lat.1), fmt_list(&self.lat.2)).unwrap();
        write!(s, " dfreed={} sfreed={} ufreed={}", fmt_tab(&self.dfreed), fmt_tab(&self.sfreed), fmt_tab(&self.ufreed)).unwrap();
        write!(s, " unpers={} pca={}", fmt_list(&self.unpers), fmt_list(&self.pca)).unwrap();
        s.push_str(" pins=");
        if self.pins.is_empty() {
            s.push('-');
        }
        for (i, (h, t, p, pages)) in self.pins.iter().enumerate() {
            if i > 0 {
                s.push(';');
            }
            write!(s, "{h}:{t}:{}:{}", u8::from(*p), fmt_list(pages)).unwrap();
        }
        s.push_str(" pend=");
        if self.pend.is_empty() {
            s.push('-');
        }
        for (i, (a, b)) in self.pend.iter().enumerate() {
            if i > 0 {
                s.push(';');
            }
            write!(s, "{a}:{b}").unwrap();
        }
        write!(s, " inw={}", u8::from(self.inw)).unwrap();
        write!(s, " wdata={} wsys={} wasc={} wdfr={} wsfr={}", fmt_list(&self.wdata), fmt_list(&self.wsys),
            fmt_list(&self.wasc), fmt_list(&self.wdfr), fmt_list(&self.wsfr)).unwrap();
        write!(s, " wdfreed={}", fmt_tab(&self.wdfreed)).unwrap();
        match self.wrest {
            Some(r) => write!(s, " wrest={r}").unwrap(),
            None => s.push_str(" wrest=-"),
        }
        write!(s, " wcreated={} wdeleted={}", fmt_list(&self.wcreated), fmt_list(&self.wdeleted)).unwrap();
        s
    }
}

pub struct Observed {
    pub abs: Abs,
    pub db: VDbSnapshot,
    pub txn: Option<VTxnSnapshot>,
    pub lat_reach: VReach,
    pub dur_reach: VReach,
    pub cur_reach: Option<VReach>,
}

pub struct World {
    pub backend: RecBackend,
    pub page_size: usize,
    pub region_pages: u64,
    pub db: Option<Database>,
    pub wtx: Option<WriteTransaction>,
    pub pins: Vec<Pin>,
    pub next_handle: u64,
    /// durable version's pages with content hashes, re-recorded whenever the durable id changes
    pub dur_content: (u64, Vec<(VPage, u128)>),
    /// violations found by the Rust-side direct checks (tracker refcounts, pinned content)
    pub rust_violations: Vec<String>,
}

fn content_of(db: &Database, wtx: Option<&WriteTransaction>, pages: &[VPage]) -> Result<Vec<(VPage, u128)>, String> {
    let mut out = vec![];
    for p in pages {
        let bytes = match wtx {
            Some(w) => w.verif_read_page(*p),
            None => db.verif_read_page(*p),
        }
        .map_err(|e| format!("read_page {p:?}: {e}"))?;
        out.push((*p, redb::verif::xxh3_128(&bytes)));
    }
    Ok(out)
}

impl World {
    pub fn create(page_size: usize, region_pages: u64) -> World {
        let backend = RecBackend::new();
        backend.0.lock().unwrap().record = false;
        let mut w = World {
            backend,
            page_size,
            region_pages,
            db: None,
            wtx: None,
            pins: vec![],
            next_handle: 1,
            dur_content: (u64::MAX, vec![]),
            rust_violations: vec![],
        };
        w.open();
        w
    }

    pub fn open(&mut self) {
        let mut b = Database::builder();
        b.verif_set_page_size(self.page_size);
        if self.region_pages > 0 {
            b.verif_set_region_size(self.region_pages * self.page_size as u64);
        }
        b.set_cache_size(4 * 1024 * 1024);
        let db = b.create_with_backend(self.backend.handle()).expect("open");
        self.db = Some(db);
    }

    pub fn db(&self) -> &Database {
        self.db.as_ref().unwrap()
    }

    pub fn reach(&self, data: Option<VRoot>, system: Option<VRoot>) -> Result<VReach, String> {
        let r = rv_harness::catch(|| match &self.wtx {
            Some(w) => w.verif_reach(data, system),
            None => self.db().verif_reach(data, system),
        });
        match r {
            Ok(Ok(v)) => Ok(v),
            Ok(Err(e)) => Err(format!("walk error: {e}")),
            Err(p) => Err(format!("walk panicked: {p}")),
        }
    }

    pub fn handle_of_savepoint(id: u64) -> u64 {
        SP_HANDLE_BASE + id
    }

    /// page set + content of the data version under `root`
    pub fn pin_pages(&self, root: Option<VRoot>) -> Result<(Vec<u64>, Vec<(VPage, u128)>), String> {
        let r = self.reach(root, None)?;
        let content = content_of(self.db(), self.wtx.as_ref(), &r.data_pages)?;
        Ok((expand(&r.data_pages), content))
    }

    /// Observe the abstract state. `Err` = the engine's own walkers failed on a root that must be intact.
    pub fn observe(&mut self) -> Result<Observed, String> {
        let (db, txn) = match &self.wtx {
            Some(w) => {
                let t = w.verif_snapshot();
                (t.db.clone(), Some(t))
            }
            None => (self.db().verif_snapshot(), None),
        };
        let lat = db.mem.latest().clone();
        let dur = db.mem.durable().clone();
        let lat_reach = self.reach(lat.data_root, lat.system_root).map_err(|e| format!("latest roots: {e}"))?;
        let dur_reach = if db.mem.read_from_secondary {
            self.reach(dur.data_root, dur.system_root).map_err(|e| format!("durable roots: {e}"))?
        } else {
            lat_reach.clone()
        };
        let cur_reach = match &self.wtx {
            Some(w) => {
                let r = rv_harness::catch(|| w.verif_reach_current());
                match r {
                    Ok(Ok(v)) => Some(v),
                    Ok(Err(e)) => return Err(format!("current roots: walk error: {e}")),
                    Err(p) => return Err(format!("current roots: walk panicked: {p}")),
                }
            }
            None => None,
        };
        let mut a = Abs::default();
        a.alloc = db.mem.allocated_order0().iter().map(|(r, i)| pid(*r, *i)).collect();
        a.lastid = db.tracker.next_transaction_id;
        a.dur = (dur.transaction_id, expand(&dur_reach.data_pages), expand(&dur_reach.system_pages));
        a.lat = (lat.transaction_id, expand(&lat_reach.data_pages), expand(&lat_reach.system_pages));
        a.dfreed = group(&lat_reach.data_freed);
        a.sfreed = group(&lat_reach.system_freed);
        for (t, pages) in &db.mem.unpersisted.data_freed {
            let v = expand(pages);
            if !v.is_empty() {
                a.ufreed.insert(*t, v);
            }
        }
        a.unpers = expand(&db.mem.unpersisted.pages);
        a.pca = expand(&db.mem.unpersisted.post_commit_allocations);
        for p in &self.pins {
            a.pins.push((p.handle, p.txn, p.persistent(), p.pages.clone()));
        }
        a.pend = db.tracker.pending_non_durable_commits.clone();
        if let (Some(t), Some(c)) = (&txn, &cur_reach) {
            a.inw = true;
            a.wdata = expand(&c.data_pages);
            a.wsys = expand(&c.system_pages);
            a.wasc = expand(&t.allocated_since_commit);
            a.wdfr = expand(&t.data_freed_pages);
            a.wsfr = expand(&t.system_freed_pages);
            a.wdfreed = group(&c.data_freed);
            a.wrest = t.restored_transaction;
            a.wcreated = t.savepoint_state.created_persistent.iter().map(|(id, _)| Self::handle_of_savepoint(*id)).collect();
            a.wdeleted = t.savepoint_state.deleted_persistent.iter().map(|(id, _)| Self::handle_of_savepoint(*id)).collect();
            // the working SYSTEM_FREED table is not touched before commit
            if group(&c.system_freed) != a.sfreed {
                self.rust_violations.push("working SYSTEM_FREED differs from the committed one inside a write transaction".into());
            }
        } else {
            a.wdata = a.lat.1.clone();
            a.wsys = a.lat.2.clone();
            a.wdfreed = a.dfreed.clone();
        }
        self.direct_checks(&db, &dur_reach);
        Ok(Observed { abs: a, db, txn, lat_reach, dur_reach, cur_reach })
    }

    /// Rust-side direct checks: tracker reference counts (O6) and "a pinned page is never rewritten"
    fn direct_checks(&mut self, db: &VDbSnapshot, dur_reach: &VReach) {
        // O6: live_read_transactions == pins held by the harness + durable ancestors of pending commits
        let mut want: BTreeMap<u64, u64> = BTreeMap::new();
        for p in &self.pins {
            *want.entry(p.txn).or_default() += 1;
        }
        for (_, anc) in &db.tracker.pending_non_durable_commits {
            *want.entry(*anc).or_default() += 1;
        }
        let got: BTreeMap<u64, u64> = db.tracker.live_read_transactions.iter().copied().collect();
        if want != got {
            self.rust_violations.push(format!("tracker live_read_transactions {got:?} != pins+pending {want:?}"));
        }
        // O4 (direct): every unpersisted page is allocated; post-commit allocations are unpersisted
        {
            let alloc: BTreeSet<(u32, u32)> = db.mem.allocated_order0().into_iter().collect();
            for p in &db.mem.unpersisted.pages {
                if p.order0_range().any(|i| !alloc.contains(&(p.region, i))) {
                    self.rust_violations.push(format!("unpersisted page {p:?} is free in the allocator"));
                    break;
                }
            }
        }
        // savepoint validity as the tracker sees it
        let valid: BTreeSet<u64> = db.tracker.valid_savepoints.iter().map(|(id, _)| *id).collect();
        for p in &self.pins {
            let id = match &p.kind {
                PinKind::Eph(s) => s.verif_record().id,
                PinKind::Pers(id) => *id,
                PinKind::Reader(_) => continue,
            };
            if p.valid && !valid.contains(&id) {
                self.rust_violations.push(format!("savepoint {id} expected valid but is not in the tracker"));
            }
        }
        // pinned pages keep their bytes
        let allocated: BTreeSet<(u32, u32)> = db.mem.allocated_order0().into_iter().collect();
        let mut bad = vec![];
        let mut check = |what: &str, content: &[(VPage, u128)], this: &World| {
            for (p, h) in content {
                for i in p.order0_range() {
                    if !allocated.contains(&(p.region, i)) {
                        bad.push(format!("{what}: pinned page {p:?} is free in the allocator"));
                    }
                }
                let bytes = match &this.wtx {
                    Some(w) => w.verif_read_page(*p),
                    None => this.db().verif_read_page(*p),
                };
                match bytes {
                    Ok(b) => {
                        if redb::verif::xxh3_128(&b) != *h {
                            bad.push(format!("{what}: pinned page {p:?} was rewritten"));
                        }
                    }
                    Err(e) => bad.push(format!("{what}: pinned page {p:?} unreadable: {e}")),
                }
            }
        };
        for p in &self.pins {
            check(&format!("pin {} (txn {})", p.handle, p.txn), &p.content, self);
        }
        if self.dur_content.0 == db.mem.durable().transaction_id {
            check("durable version", &self.dur_content.1.clone(), self);
        }
        drop(check);
        self.rust_violations.extend(bad);
        if self.dur_content.0 != db.mem.durable().transaction_id {
            let mut pages = dur_reach.data_pages.clone();
            pages.extend(dur_reach.system_pages.iter().copied());
            if let Ok(c) = content_of(self.db(), self.wtx.as_ref(), &pages) {
                self.dur_content = (db.mem.durable().transaction_id, c);
            }
        }
    }
}
