//! C07 harness: histories interleaving savepoint creation (ephemeral / persistent), restore, delete,
//! drop, data transactions of every durability, aborts, clean reopen, crash and check_integrity,
//! run against the REAL crate on a recording in-memory backend.
//!
//! usage: c07 <n_histories> [only_history_index]
//!        c07 rec <n_histories> <steps> [only <history>]   allocation-record correspondence, see ../c07_rec.rs
//! writes into the cwd
//!   cases.txt   one line per operation (input of the extracted Coq model, `ocaml/c07_driver.ml`)
//!   impl.txt    the implementation's canonical answer to each line (compared with the model's)
//!   tokens.txt  `<history> <token> <digest>`: which real table contents a contents-token stands for
//!   viol.txt    direct-oracle findings that are not expressible as a line difference (leak / cleanup
//!               oracles at the end of each history, panics, storage-level errors)
//!   stats.txt   input distribution
#[path = "../rvdb.rs"]
mod rvdb;
// allocation-record mode (`c07 rec ...`): coq/Txn/AllocRec.v correspondence, see c07_rec.rs
#[path = "../c07_rec.rs"]
mod c07_rec;

use redb::{CompactionError, Database, SavepointError, Savepoint, WriteTransaction};
use rv_harness::backend::RecBackend;
use rv_harness::{Rng, catch, seed_from_env, silence_panics, tier_is_thorough};
use rvdb::*;
use std::collections::BTreeMap;
use std::fmt::Write as _;

struct H {
    idx: u64,
    cfg: Cfg,
    r: Rng,
    db: Option<Database>,
    backend: RecBackend,
    log: CrashLog,
    txn: Option<WriteTransaction>,
    txn_none: bool,
    handles: Vec<Option<Savepoint>>,
    handle_meta: Vec<(u64, bool)>, // (session, ephemeral)
    session: u64,
    known_pids: Vec<u64>,
    snaps: Vec<Contents>,
    cases: String,
    outs: String,
    viol: Vec<String>,
    nops: u64,
    dead: bool,
    // path markers
    m_restore_ok: u64,
    m_restore_after_nd: bool,
    m_restore_invalid: u64,
    m_pers: u64,
    m_eph: u64,
    m_reopen: u64,
    m_crash: u64,
    m_nd_commit: u64,
    m_restore_twice: bool,
    m_del: u64,
    nd_since_durable: bool,
    last_restored: Option<usize>,
    last_own: Option<OwnInfo>,
    len_at_durable: usize,
    in_cleanup: bool,
    kinds: BTreeMap<&'static str, u64>,
}

fn sp_err(e: &SavepointError) -> String {
    match e {
        SavepointError::InvalidSavepoint => "err invalid".into(),
        SavepointError::ImmediateDurabilityRequired => "err imm".into(),
        other => format!("other {other}"),
    }
}

impl H {
    fn new(idx: u64, seed: u64) -> H {
        let mut r = Rng::new(seed).fork(idx);
        let cfg = match r.below(4) {
            0 => Cfg { page_size: 512, region_size: Some(512 * 32), cache: 32 * 1024 },
            1 => Cfg { page_size: 512, region_size: Some(512 * 128), cache: 256 * 1024 },
            2 => Cfg { page_size: 1024, region_size: Some(1024 * 64), cache: 64 * 1024 },
            _ => Cfg { page_size: 512, region_size: None, cache: 1024 * 1024 },
        };
        H {
            idx,
            cfg,
            r,
            db: None,
            backend: RecBackend::new(),
            log: CrashLog::new(),
            txn: None,
            txn_none: false,
            handles: vec![],
            handle_meta: vec![],
            session: 0,
            known_pids: vec![],
            snaps: vec![Contents::default()],
            cases: String::new(),
            outs: String::new(),
            viol: vec![],
            nops: 0,
            dead: false,
            m_restore_ok: 0,
            m_restore_after_nd: false,
            m_restore_invalid: 0,
            m_pers: 0,
            m_eph: 0,
            m_reopen: 0,
            m_crash: 0,
            m_nd_commit: 0,
            m_restore_twice: false,
            m_del: 0,
            nd_since_durable: false,
            last_restored: None,
            last_own: None,
            len_at_durable: 0,
            in_cleanup: false,
            kinds: BTreeMap::new(),
        }
    }

    fn intern(&mut self, c: Contents) -> usize {
        if let Some(i) = self.snaps.iter().position(|x| *x == c) {
            i
        } else {
            self.snaps.push(c);
            self.snaps.len() - 1
        }
    }

    fn emit(&mut self, kind: &'static str, case: String, out: String) {
        *self.kinds.entry(kind).or_default() += 1;
        self.nops += 1;
        writeln!(self.cases, "{case}").unwrap();
        writeln!(self.outs, "{out}").unwrap();
        // correspondence of the tracker bookkeeping (H3 snapshot) after every step that touches it
        if matches!(kind, "eph" | "pers" | "restore" | "commit" | "abort" | "drop" | "reopen" | "crash" | "del" | "integrity")
            && self.db.is_some()
        {
            let line = tracker_line(self.db.as_ref().unwrap());
            writeln!(self.cases, "snap").unwrap();
            writeln!(self.outs, "{line}").unwrap();
        }
        // page ownership at transaction boundaries: allocated == reachable + pending-free, exactly
        if matches!(kind, "commit" | "abort" | "reopen" | "crash" | "integrity") && self.db.is_some() && self.txn.is_none() {
            match own_check(self.db.as_ref().unwrap()) {
                Ok(i) => self.last_own = Some(i),
                Err(e) => {
                    self.viol.push(format!("space: after `{case}` (op #{}): {e}", self.nops));
                    self.dead = true;
                }
            }
        }
    }

    fn fail(&mut self, what: String) {
        self.viol.push(what);
        self.dead = true;
    }

    fn state_of_db(&mut self) -> String {
        let db = self.db.as_ref().unwrap();
        match dump_db(db) {
            Ok(c) => format!("state {}", self.intern(c)),
            Err(e) => format!("other dump failed: {e}"),
        }
    }

    fn absorb(&mut self) {
        let b = self.backend.handle();
        self.log.absorb(&b);
    }

    fn start(&mut self) -> bool {
        match open_db(self.backend.handle(), self.cfg) {
            Ok((db, _)) => {
                self.db = Some(db);
                self.absorb();
                self.len_at_durable = self.file_len();
                true
            }
            Err(e) => {
                self.fail(format!("create failed: {e}"));
                false
            }
        }
    }

    // ---------------------------------------------------------------- operations

    fn op_begin(&mut self) {
        let r = catch(|| self.db.as_ref().unwrap().begin_write());
        match r {
            Ok(Ok(t)) => {
                self.txn = Some(t);
                self.txn_none = false;
                self.last_restored = None;
                self.emit("begin", "begin".into(), "ok".into());
                // half of the histories lean towards runs of non-durable commits (restores after them)
                if !self.in_cleanup && self.idx % 2 == 1 && self.r.chance(1, 2) {
                    self.op_dur_to(true);
                }
            }
            Ok(Err(e)) => {
                self.emit("begin", "begin".into(), format!("other {e}"));
                self.fail(format!("begin_write failed: {e}"));
            }
            Err(p) => {
                self.emit("begin", "begin".into(), format!("other panic {p}"));
                self.fail(format!("begin_write panicked: {p}"));
            }
        }
    }

    fn op_dur(&mut self) {
        let none = self.r.chance(1, 2);
        self.op_dur_to(none);
    }

    fn op_dur_to(&mut self, none: bool) {
        let t = self.txn.as_mut().unwrap();
        let out = match t.set_durability(if none { redb::Durability::None } else { redb::Durability::Immediate }) {
            Ok(()) => {
                self.txn_none = none;
                "ok".to_string()
            }
            Err(redb::SetDurabilityError::PersistentSavepointModified) => "err durab".to_string(),
            #[allow(unreachable_patterns)]
            Err(e) => format!("other {e}"),
        };
        self.emit("dur", format!("dur {}", if none { "none" } else { "imm" }), out);
    }

    fn op_flags(&mut self) {
        let t = self.txn.as_mut().unwrap();
        match self.r.below(3) {
            0 => {
                t.set_two_phase_commit(true);
                self.emit("flags", "flag tpc".into(), "ok".into());
            }
            1 => {
                t.set_quick_repair(true);
                self.emit("flags", "flag qr".into(), "ok".into());
            }
            _ => {
                t.set_two_phase_commit(false);
                t.set_quick_repair(false);
                self.emit("flags", "flag plain".into(), "ok".into());
            }
        }
    }

    /// `touch`: read the staged contents through the write transaction (marks it dirty)
    fn op_touch(&mut self) -> Option<Contents> {
        let t = self.txn.as_ref().unwrap();
        match dump_txn(t) {
            Ok(c) => {
                let tok = self.intern(c.clone());
                // only opening a table marks the transaction dirty; with no table there is nothing to open
                let opened = !c.normal.is_empty() || !c.multi.is_empty();
                let name = if opened { "touch" } else { "look" };
                self.emit(name, name.into(), format!("state {tok}"));
                Some(c)
            }
            Err(e) => {
                self.emit("touch", "touch".into(), format!("other {e}"));
                self.fail(format!("reading inside the write transaction failed: {e}"));
                None
            }
        }
    }

    fn op_write(&mut self) {
        let Some(mut c) = self.op_touch() else { return };
        let load = Load {
            keys: 40 + self.r.below(120),
            ops: 4 + self.r.below(24),
            max_val: 40 + self.r.below(200) as usize,
            big_val_permille: 25,
            delete_bias: 2 + self.r.below(4),
        };
        let n = 1 + self.r.below(3);
        let mut desc = String::new();
        for _ in 0..n {
            let t = self.txn.as_ref().unwrap();
            match mutate(t, &mut c, &mut self.r, &load) {
                Ok(d) => desc.push_str(&d),
                Err(e) => {
                    self.emit("write", "write 0".into(), format!("other {e}"));
                    self.fail(format!("data operation failed or disagreed with the sorted-map spec: {e}"));
                    return;
                }
            }
        }
        let tok = self.intern(c);
        self.emit("write", format!("write {tok}"), "ok".into());
    }

    fn op_eph(&mut self) {
        let t = self.txn.as_ref().unwrap();
        let r = catch(|| t.ephemeral_savepoint());
        let out = match r {
            Ok(Ok(sp)) => {
                self.handles.push(Some(sp));
                self.handle_meta.push((self.session, true));
                self.m_eph += 1;
                let id = self.handles.last().unwrap().as_ref().unwrap().verif_record().id;
                format!("handle {} {}", self.handles.len() - 1, id)
            }
            Ok(Err(e)) => sp_err(&e),
            Err(p) => {
                self.fail(format!("ephemeral_savepoint panicked: {p}"));
                format!("other panic {p}")
            }
        };
        self.emit("eph", "eph".into(), out);
    }

    fn op_pers(&mut self) {
        let t = self.txn.as_ref().unwrap();
        let r = catch(|| t.persistent_savepoint());
        let out = match r {
            Ok(Ok(id)) => {
                self.known_pids.push(id);
                self.m_pers += 1;
                format!("num {id}")
            }
            Ok(Err(e)) => sp_err(&e),
            Err(p) => {
                self.fail(format!("persistent_savepoint panicked: {p}"));
                format!("other panic {p}")
            }
        };
        self.emit("pers", "pers".into(), out);
    }

    fn pick_pid(&mut self) -> u64 {
        if !self.known_pids.is_empty() && self.r.chance(5, 6) {
            *self.r.pick(&self.known_pids)
        } else {
            self.r.below(12)
        }
    }

    fn op_get(&mut self) {
        let id = self.pick_pid();
        let t = self.txn.as_ref().unwrap();
        let r = catch(|| t.get_persistent_savepoint(id));
        let out = match r {
            Ok(Ok(sp)) => {
                self.handles.push(Some(sp));
                self.handle_meta.push((self.session, false));
                format!("handle {} {id}", self.handles.len() - 1)
            }
            Ok(Err(e)) => sp_err(&e),
            Err(p) => {
                self.fail(format!("get_persistent_savepoint panicked: {p}"));
                format!("other panic {p}")
            }
        };
        self.emit("get", format!("get {id}"), out);
    }

    fn op_del(&mut self) {
        let id = self.pick_pid();
        self.op_del_id(id);
    }

    fn op_del_id(&mut self, id: u64) {
        let t = self.txn.as_ref().unwrap();
        let r = catch(|| t.delete_persistent_savepoint(id));
        let out = match r {
            Ok(Ok(b)) => {
                if b {
                    self.m_del += 1;
                }
                format!("bool {b}")
            }
            Ok(Err(e)) => sp_err(&e),
            Err(p) => {
                self.fail(format!("delete_persistent_savepoint panicked: {p}"));
                format!("other panic {p}")
            }
        };
        self.emit("del", format!("del {id}"), out);
    }

    fn live_handles(&self) -> Vec<usize> {
        (0..self.handles.len()).filter(|i| self.handles[*i].is_some()).collect()
    }

    fn op_restore(&mut self) {
        let live = self.live_handles();
        if live.is_empty() {
            return;
        }
        let h = *self.r.pick(&live);
        let sp = self.handles[h].take().unwrap();
        let t = self.txn.as_mut().unwrap();
        let r = catch(|| t.restore_savepoint(&sp));
        self.handles[h] = Some(sp);
        let out = match r {
            Ok(Ok(())) => {
                self.m_restore_ok += 1;
                if self.nd_since_durable {
                    self.m_restore_after_nd = true;
                }
                if self.last_restored.is_some() {
                    self.m_restore_twice = true;
                }
                self.last_restored = Some(h);
                "ok".to_string()
            }
            Ok(Err(e)) => {
                if matches!(e, SavepointError::InvalidSavepoint) {
                    self.m_restore_invalid += 1;
                }
                sp_err(&e)
            }
            Err(p) => {
                self.fail(format!("restore_savepoint panicked: {p}"));
                format!("other panic {p}")
            }
        };
        self.emit("restore", format!("restore {h}"), out);
    }

    fn op_list(&mut self) {
        let t = self.txn.as_ref().unwrap();
        let r = catch(|| t.list_persistent_savepoints().map(|it| it.collect::<Vec<u64>>()));
        let out = match r {
            Ok(Ok(mut v)) => {
                v.sort();
                self.known_pids = v.clone();
                if v.is_empty() {
                    "list -".to_string()
                } else {
                    format!("list {}", v.iter().map(|x| x.to_string()).collect::<Vec<_>>().join(","))
                }
            }
            Ok(Err(e)) => format!("other {e}"),
            Err(p) => {
                self.fail(format!("list_persistent_savepoints panicked: {p}"));
                format!("other panic {p}")
            }
        };
        self.emit("list", "list".into(), out);
    }

    fn op_commit(&mut self) {
        let t = self.txn.take().unwrap();
        let none = self.txn_none;
        let r = catch(move || t.commit());
        self.absorb();
        match r {
            Ok(Ok(())) => {
                if none {
                    self.m_nd_commit += 1;
                    self.nd_since_durable = true;
                } else {
                    self.nd_since_durable = false;
                    self.len_at_durable = self.file_len();
                }
                let out = self.state_of_db();
                self.emit("commit", "commit".into(), out);
            }
            Ok(Err(e)) => {
                self.emit("commit", "commit".into(), format!("other {e}"));
                self.fail(format!("commit failed: {e}"));
            }
            Err(p) => {
                self.emit("commit", "commit".into(), format!("other panic {p}"));
                self.fail(format!("commit panicked: {p}"));
            }
        }
    }

    fn op_abort(&mut self) {
        let t = self.txn.take().unwrap();
        let r = catch(move || t.abort());
        self.absorb();
        match r {
            Ok(Ok(())) => {
                let out = self.state_of_db();
                self.emit("abort", "abort".into(), out);
            }
            Ok(Err(e)) => {
                self.emit("abort", "abort".into(), format!("other {e}"));
                self.fail(format!("abort failed: {e}"));
            }
            Err(p) => {
                self.emit("abort", "abort".into(), format!("other panic {p}"));
                self.fail(format!("abort panicked: {p}"));
            }
        }
    }

    fn op_drop(&mut self, h: usize) {
        let sp = self.handles[h].take().unwrap();
        let r = catch(move || drop(sp));
        let out = match r {
            Ok(()) => "ok".to_string(),
            Err(p) => {
                self.fail(format!("Savepoint::drop panicked: {p}"));
                format!("other panic {p}")
            }
        };
        self.emit("drop", format!("drop {h}"), out);
    }

    fn reopen_on(&mut self, img: Vec<u8>, what: &'static str, case: String) {
        self.backend = RecBackend::with_data(img.clone());
        self.log = CrashLog::from_image(img);
        self.session += 1;
        match open_db(self.backend.handle(), self.cfg) {
            Ok((db, _fired)) => {
                self.db = Some(db);
                self.absorb();
                self.len_at_durable = self.file_len();
                let out = self.state_of_db();
                self.emit(what, case, out);
            }
            Err(e) => {
                self.emit(what, case, format!("other {e}"));
                self.fail(format!("{what}: opening failed: {e}"));
            }
        }
    }

    fn op_reopen(&mut self) {
        let db = self.db.take().unwrap();
        if let Err(p) = catch(move || drop(db)) {
            self.fail(format!("closing the database panicked: {p}"));
            return;
        }
        self.absorb();
        self.m_reopen += 1;
        self.nd_since_durable = false;
        let img = self.backend.snapshot();
        self.reopen_on(img, "reopen", "reopen".into());
    }

    fn op_crash(&mut self) {
        self.absorb();
        let (img, label) = match self.r.below(4) {
            0 => (self.log.image_all(), "all".to_string()),
            1 => (self.log.image_none(), "none".to_string()),
            _ => self.log.image_random(&mut self.r, self.cfg.page_size as u64),
        };
        // discard the old process state
        if let Some(t) = self.txn.take() {
            let _ = catch(move || t.abort());
        }
        let db = self.db.take().unwrap();
        let _ = catch(move || drop(db));
        self.m_crash += 1;
        self.nd_since_durable = false;
        self.reopen_on(img, "crash", format!("crash {label}"));
    }

    fn file_len(&self) -> usize {
        self.backend.0.lock().unwrap().data.len()
    }

    fn op_integrity(&mut self) {
        // C11 candidate finding (design.d/C11.md): check_integrity() answers Ok(false) on a healthy
        // database when an aborted transaction grew the file and nothing has been committed durably
        // since. That is C11's subject; here the check is simply not issued in that situation.
        if !self.nd_since_durable && self.file_len() != self.len_at_durable {
            return;
        }
        {
            // second trigger of the same false verdict (tiny regions only): trailing region exactly full
            let l = self.db.as_ref().unwrap().verif_snapshot().mem.layout;
            if !self.nd_since_durable && l.trailing_pages == Some(l.full_region_pages) {
                return;
            }
        }
        let db = self.db.as_mut().unwrap();
        let r = catch(|| db.check_integrity());
        self.absorb();
        let out = match r {
            Ok(Ok(b)) => {
                self.nd_since_durable = false;
                self.len_at_durable = self.file_len();
                format!("bool {b}")
            }
            Ok(Err(redb::DatabaseError::TransactionInProgress)) => "err busy".to_string(),
            Ok(Err(e)) => format!("other {e}"),
            Err(p) => {
                self.fail(format!("check_integrity panicked: {p}"));
                format!("other panic {p}")
            }
        };
        self.emit("integrity", "integrity".into(), out);
        if !self.dead {
            // contents must be unchanged by a check (reported as a state line the model predicts)
            let out = self.state_of_db();
            self.emit("peekdb", "peekdb".into(), out);
        }
    }

    // ---------------------------------------------------------------- generation

    fn step(&mut self) {
        if self.txn.is_none() {
            let live = self.live_handles();
            let w = self.r.below(100);
            if w < 70 {
                self.op_begin();
            } else if w < 80 && !live.is_empty() {
                let h = *self.r.pick(&live);
                self.op_drop(h);
            } else if w < 87 {
                self.op_reopen();
            } else if w < 94 {
                self.op_crash();
            } else if w < 97 {
                self.op_integrity();
            } else {
                self.op_begin();
            }
        } else {
            let w = self.r.below(120);
            match w {
                0..=7 => self.op_dur(),
                8..=11 => self.op_flags(),
                12..=14 => {
                    self.op_touch();
                }
                15..=39 => self.op_write(),
                40..=49 => self.op_eph(),
                50..=58 => self.op_pers(),
                59..=62 => self.op_list(),
                63..=70 => self.op_get(),
                71..=75 => self.op_del(),
                76..=89 => self.op_restore(),
                90..=109 => self.op_commit(),
                110..=114 => self.op_abort(),
                115..=117 => {
                    let live = self.live_handles();
                    if !live.is_empty() {
                        let h = *self.r.pick(&live);
                        self.op_drop(h);
                    }
                }
                _ => self.op_crash(),
            }
        }
    }

    fn allocated_pages(&mut self) -> Option<u64> {
        let db = self.db.as_ref().unwrap();
        let r = catch(|| {
            let t = db.begin_write().map_err(|e| e.to_string())?;
            let a = t.stats().map_err(|e| e.to_string())?.allocated_pages();
            t.abort().map_err(|e| e.to_string())?;
            Ok::<u64, String>(a)
        });
        match r {
            Ok(Ok(a)) => Some(a),
            Ok(Err(e)) => {
                self.fail(format!("stats failed: {e}"));
                None
            }
            Err(p) => {
                self.fail(format!("stats panicked: {p}"));
                None
            }
        }
    }

    /// End of history: delete / drop every savepoint, two durable commits, then the space oracles.
    fn cleanup(&mut self) {
        if self.dead {
            return;
        }
        self.in_cleanup = true;
        if self.txn.is_some() {
            if self.r.chance(1, 2) {
                self.op_commit();
            } else {
                self.op_abort();
            }
        }
        if self.dead {
            return;
        }
        for h in self.live_handles() {
            self.op_drop(h);
        }
        self.op_begin();
        if self.dead {
            return;
        }
        self.op_list();
        for id in self.known_pids.clone() {
            self.op_del_id(id);
        }
        self.op_list();
        self.op_commit();
        for _ in 0..2 {
            if self.dead {
                return;
            }
            self.op_begin();
            if self.dead {
                return;
            }
            self.op_commit();
        }
        if self.dead {
            return;
        }
        // --- space oracles (not part of the model's line protocol)
        let Some(a1) = self.allocated_pages() else { return };
        for _ in 0..2 {
            self.op_begin();
            if self.dead {
                return;
            }
            self.op_commit();
            if self.dead {
                return;
            }
        }
        if let Some(o) = &self.last_own {
            if o.data_freed + o.system_freed + o.unpersisted_freed != 0 || o.allocated != o.reach_data + o.reach_system {
                self.viol.push(format!(
                    "space: all savepoints gone and 4 durable commits later pages are still pending: allocated={} reachable={}+{} DATA_FREED={} SYSTEM_FREED={} unpersisted_freed={}",
                    o.allocated, o.reach_data, o.reach_system, o.data_freed, o.system_freed, o.unpersisted_freed
                ));
            }
        }
        let Some(a2) = self.allocated_pages() else { return };
        if a2 != a1 {
            self.viol.push(format!(
                "space: allocated pages still changing after all savepoints are gone and two durable commits: {a1} -> {a2} after two more empty commits"
            ));
        }
        self.op_integrity();
        if self.dead {
            return;
        }
        // every tracker reference must be gone: compact() refuses while savepoints / readers exist
        let before = self.state_of_db();
        let db = self.db.as_mut().unwrap();
        let r = catch(|| db.compact());
        self.absorb();
        match r {
            Ok(Ok(_)) => {}
            Ok(Err(CompactionError::PersistentSavepointExists)) => self
                .viol
                .push("cleanup: compact() reports a persistent savepoint after all were deleted".into()),
            Ok(Err(CompactionError::EphemeralSavepointExists)) => self
                .viol
                .push("cleanup: compact() reports an ephemeral savepoint after all were dropped".into()),
            Ok(Err(CompactionError::TransactionInProgress)) => self
                .viol
                .push("cleanup: compact() reports a live read reference after everything was dropped (tracker refcount leak)".into()),
            Ok(Err(e)) => self.viol.push(format!("cleanup: compact() failed: {e}")),
            Err(p) => self.viol.push(format!("cleanup: compact() panicked: {p}")),
        }
        let after = self.state_of_db();
        if before != after {
            self.viol.push(format!("cleanup: contents changed across compact(): {before} -> {after}"));
        }
        let Some(a3) = self.allocated_pages() else { return };
        if a3 > a1 {
            self.viol.push(format!("space: allocated pages grew across compact(): {a1} -> {a3}"));
        }
        // and a clean reopen still serves the same contents with a clean integrity check
        self.op_reopen();
        if self.dead {
            return;
        }
        self.op_integrity();
    }

    fn run(&mut self, len: u64) {
        writeln!(self.cases, "H {}", self.idx).unwrap();
        writeln!(self.outs, "H {}", self.idx).unwrap();
        if !self.start() {
            return;
        }
        for _ in 0..len {
            if self.dead {
                break;
            }
            self.step();
        }
        self.cleanup();
        // orderly teardown
        if let Some(t) = self.txn.take() {
            let _ = catch(move || t.abort());
        }
        for h in self.handles.drain(..) {
            let _ = catch(move || drop(h));
        }
        if let Some(db) = self.db.take() {
            let _ = catch(move || drop(db));
        }
    }

    fn nontrivial(&self) -> bool {
        self.m_restore_ok > 0 && (self.m_pers > 0 || self.m_eph > 0)
    }
}

fn main() {
    silence_panics();
    let args: Vec<String> = std::env::args().collect();
    if args.get(1).map(|s| s.as_str()) == Some("rec") {
        c07_rec::main_rec(&args);
        return;
    }
    let n: u64 = args.get(1).and_then(|s| s.parse().ok()).unwrap_or(50);
    let only: Option<u64> = args.get(2).and_then(|s| s.parse().ok());
    let seed = seed_from_env();
    let thorough = tier_is_thorough();
    let mut cases = String::from("CFG ephid=1\n");
    let mut outs = String::from("CFG ephid=1\n");
    let mut tokens = String::new();
    let mut viol = String::new();
    let mut distinct = std::collections::BTreeSet::new();
    let mut nontrivial = 0u64;
    let mut totals = [0u64; 10];
    let mut ops = 0u64;
    // histories are independent (own PRNG stream, own database): run them in child processes on all
    // cores (a history that aborts the process is reported for itself), merge in index order
    let todo: Vec<u64> = (0..n).filter(|i| only.map(|o| o == *i).unwrap_or(true)).collect();
    let work = |i: u64| -> Block {
        let mut h = H::new(i, seed);
        let len = if thorough { 30 + h.r.below(90) } else { 25 + h.r.below(60) };
        h.run(len);
        let mut b = Block::default();
        let mut tokens = String::new();
        for (t, c) in h.snaps.iter().enumerate() {
            writeln!(tokens, "{} {} {}", i, t, c.digest()).unwrap();
        }
        let mut viol = String::new();
        for v in &h.viol {
            writeln!(viol, "{}\t{}", i, v.replace('\n', " ")).unwrap();
        }
        b.texts.insert("cases".into(), h.cases.clone());
        b.texts.insert("outs".into(), h.outs.clone());
        b.texts.insert("tokens".into(), tokens);
        b.texts.insert("viol".into(), viol);
        for (k, v) in &h.kinds {
            b.nums.insert(format!("kind.{k}"), *v);
        }
        b.nums.insert("nops".into(), h.nops);
        b.nums.insert("nontrivial".into(), u64::from(h.nontrivial()));
        let t = [h.m_restore_ok, h.m_restore_invalid, h.m_pers, h.m_eph, h.m_reopen, h.m_crash, h.m_nd_commit,
                 u64::from(h.m_restore_after_nd), u64::from(h.m_restore_twice), h.m_del];
        for (k, v) in t.iter().enumerate() {
            b.nums.insert(format!("t{k}"), *v);
        }
        b
    };
    let mut kinds: BTreeMap<String, u64> = BTreeMap::new();
    for (i, r) in run_isolated("c07", &todo, &work) {
        match r {
            Ok(b) => {
                for (k, v) in &b.nums {
                    if let Some(kk) = k.strip_prefix("kind.") {
                        *kinds.entry(kk.to_string()).or_default() += v;
                    }
                }
                ops += b.num("nops");
                tokens.push_str(b.text("tokens"));
                viol.push_str(b.text("viol"));
                if b.num("nontrivial") == 1 && distinct.insert(b.text("cases").to_string()) {
                    nontrivial += 1;
                }
                for k in 0..10 {
                    totals[k] += b.num(&format!("t{k}"));
                }
                cases.push_str(b.text("cases"));
                outs.push_str(b.text("outs"));
            }
            Err(e) => {
                writeln!(viol, "{i}\tabort: {e} (re-run this history alone to see where; the operations up to the abort are not available)").unwrap();
            }
        }
    }
    std::fs::write("cases.txt", cases).unwrap();
    std::fs::write("impl.txt", outs).unwrap();
    std::fs::write("tokens.txt", tokens).unwrap();
    std::fs::write("viol.txt", viol).unwrap();
    let mut st = String::new();
    writeln!(st, "histories={n} ops={ops} distinct_nontrivial={nontrivial}").unwrap();
    writeln!(
        st,
        "restore_ok={} restore_invalid={} persistent_created={} ephemeral_created={} reopen={} crash={} nondurable_commits={} hist_restore_after_nondurable={} hist_restore_twice_in_txn={} persistent_deleted={}",
        totals[0], totals[1], totals[2], totals[3], totals[4], totals[5], totals[6], totals[7], totals[8], totals[9]
    )
    .unwrap();
    let k: Vec<String> = kinds.iter().map(|(k, v)| format!("{k}={v}")).collect();
    writeln!(st, "opkinds {}", k.join(" ")).unwrap();
    std::fs::write("stats.txt", &st).unwrap();
    print!("{st}");
}
