fn main(){ println!("{}", redb::verif::xxh3_128(b"abc")); }
