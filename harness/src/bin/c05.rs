//! C05 harness: abandoned / failed write transactions leave no trace.
//!
//! mode A  `c05 <n_histories> <steps> [only <history>]`
//!   random preceding histories (commits of every durability incl. non-durable / 2PC / quick-repair,
//!   readers, ephemeral + persistent savepoints, reopen) interleaved with ABANDONED write transactions:
//!   a random body (table + multimap writes / deletes, table create / rename / delete, cursor edits,
//!   savepoint create / delete / restore, settings, readers taken and dropped meanwhile, operations whose
//!   predicate PANICS part-way) ended by abort(), plain drop, or commit() of the poisoned transaction.
//!   S3 (the property itself, on the real crate): H3 ownership snapshot + full logical dump + savepoint
//!   validity (probed by scratch transactions) BEFORE begin_write and AFTER the end must be equal; a
//!   poisoned commit must return Err(TransactionPoisoned); a later commit contains nothing of the body.
//!   Files: trace.txt (own_util format, checked by ocaml/c06_driver.ml: own_checkb on every state, every
//!   step incl. the abort against the model), c05_cases.txt (per abandoned transaction: pre-state, body
//!   ops, per-call failure flags, end, post-state; checked by ocaml/c05_driver.ml against the extracted
//!   `bump (run (pin_part body) pre)` and `flags_after` / `commit_result`), rust_viol.txt, history_logs.txt.
//!
//! mode B  `c05 faults <n_bodies> <samples_per_body (0 = every call)> [only <body>]`
//!   fault points inside the abandoned transaction: the k-th backend call after begin_write fails (once,
//!   or from then on); the transaction is ended (commit must not be Ok), transaction and database are
//!   dropped, the database is reopened from the surviving storage: contents and persistent savepoints
//!   must equal the pre-transaction ones, the ownership invariant must hold, a new commit must work.
//!   Files: ftrace.txt (own_util format), fcases.txt (flags), fault_viol.txt, fault_logs.txt.
#[path = "../own_util.rs"]
mod own_util;

use own_util::*;
use redb::verif::VTxnSnapshot;
use redb::{
    CommitError, Database, Durability, MultimapTableDefinition, MultimapTableHandle, ReadableDatabase,
    ReadableMultimapTable, ReadableTable, SavepointError, StorageError, TableDefinition, TableError, TableHandle,
};
use rv_harness::backend::{FailMode, RecBackend};
use rv_harness::{Rng, catch, seed_from_env, silence_panics};
use std::collections::{BTreeMap, BTreeSet};
use std::fmt::Write as _;
use std::ops::Bound;

const TNAMES: [&str; 4] = ["t0", "t1", "t2", "t3"];
const MNAMES: [&str; 2] = ["m0", "m1"];

fn tdef(name: &str) -> TableDefinition<'_, u64, &'static [u8]> {
    TableDefinition::new(name)
}
fn mdef(name: &str) -> MultimapTableDefinition<'_, u64, &'static [u8]> {
    MultimapTableDefinition::new(name)
}

/// progress.txt survives a process abort (redb panicking in a destructor while unwinding cannot be caught):
/// the driver reports the history / run in progress with the API calls made so far
static PROGRESS: std::sync::Mutex<Option<std::fs::File>> = std::sync::Mutex::new(None);
fn progress(line: &str) {
    use std::io::Write;
    if let Ok(mut g) = PROGRESS.lock() {
        if let Some(f) = g.as_mut() {
            let _ = writeln!(f, "{line}");
        }
    }
}
fn progress_open(name: &str) {
    *PROGRESS.lock().unwrap() = std::fs::File::create(name).ok();
}

#[derive(Clone, Debug)]
enum Kind {
    Nop,
    BeginWrite,
    Mut,
    BeginRead(u64),
    DropPin(u64),
    SpCreate(u64, bool),
    SpDelete(u64),
    Restore(u64, Vec<u64>),
    Abort,
    CommitDur(bool),
    CommitNd,
    Reopen,
    Opaque,
}

#[derive(Clone, Copy, Debug, PartialEq, Eq)]
enum ErrK {
    None,
    Io,
    Logical,
    Panic,
}

impl ErrK {
    fn name(self) -> &'static str {
        match self {
            ErrK::None => "none",
            ErrK::Io => "io",
            ErrK::Logical => "logical",
            ErrK::Panic => "panic",
        }
    }
}

fn is_io(e: &StorageError) -> bool {
    matches!(e, StorageError::Io(_) | StorageError::PreviousIo)
}
fn cls_storage(e: &StorageError) -> ErrK {
    if is_io(e) { ErrK::Io } else { ErrK::Logical }
}
fn cls_table(e: &TableError) -> ErrK {
    match e {
        TableError::Storage(s) => cls_storage(s),
        _ => ErrK::Logical,
    }
}
fn cls_sp(e: &SavepointError) -> ErrK {
    match e {
        SavepointError::Storage(s) => cls_storage(s),
        _ => ErrK::Logical,
    }
}

/// result of one call inside the transaction body
struct Outcome {
    label: String,
    kind: Kind,
    /// Poison.v `kind`
    ck: &'static str,
    err: ErrK,
    /// snapshot taken inside the call right before the part that can fail (after preparatory writes):
    /// `mutated` is judged against it
    base: Option<Box<VTxnSnapshot>>,
}

/// full logical contents through the public read API
#[derive(Clone, Debug, PartialEq, Eq, Default)]
struct Logical {
    tables: BTreeMap<String, Vec<(u64, u64)>>,
    mtables: BTreeMap<String, Vec<(u64, u64)>>,
}

fn vhash(v: &[u8]) -> u64 {
    (redb::verif::xxh3_128(v) as u64) ^ ((v.len() as u64) << 48)
}

fn dump(db: &Database) -> Result<Logical, String> {
    let r = catch(|| -> Result<Logical, redb::Error> {
        let rt = db.begin_read()?;
        let mut l = Logical::default();
        let names: Vec<String> = rt.list_tables()?.map(|h| h.name().to_string()).collect();
        for n in names {
            let t = rt.open_table(tdef(&n))?;
            let mut v = vec![];
            for e in t.iter()? {
                let (k, val) = e?;
                v.push((k.value(), vhash(val.value())));
            }
            l.tables.insert(n, v);
        }
        let names: Vec<String> = rt.list_multimap_tables()?.map(|h| h.name().to_string()).collect();
        for n in names {
            let t = rt.open_multimap_table(mdef(&n))?;
            let mut v = vec![];
            for e in t.iter()? {
                let (k, vals) = e?;
                let key = k.value();
                for x in vals {
                    v.push((key, vhash(x?.value())));
                }
            }
            l.mtables.insert(n, v);
        }
        Ok(l)
    });
    match r {
        Ok(Ok(l)) => Ok(l),
        Ok(Err(e)) => Err(format!("dump failed: {e}")),
        Err(p) => Err(format!("dump panicked: {p}")),
    }
}

fn describe_diff(a: &Logical, b: &Logical) -> String {
    let mut s = String::new();
    let an: Vec<&String> = a.tables.keys().chain(a.mtables.keys()).collect();
    let bn: Vec<&String> = b.tables.keys().chain(b.mtables.keys()).collect();
    if an != bn {
        write!(s, "tables before {an:?} after {bn:?}; ").unwrap();
    }
    for (n, va) in a.tables.iter().chain(a.mtables.iter()) {
        let vb = b.tables.get(n).or_else(|| b.mtables.get(n));
        if let Some(vb) = vb {
            if va != vb {
                let first = va.iter().zip(vb.iter()).position(|(x, y)| x != y).unwrap_or(va.len().min(vb.len()));
                write!(s, "table {n}: {} entries before, {} after, first difference at position {first} (key before {:?}, after {:?}); ",
                    va.len(), vb.len(), va.get(first).map(|x| x.0), vb.get(first).map(|x| x.0)).unwrap();
            }
        }
    }
    s
}

/// the transaction-local part of a snapshot: did a call mutate the transaction?  (The allocation tracker
/// used by restore is not part of it: set_dirty() switches it off when no savepoint exists.)
fn txn_sig(t: &VTxnSnapshot) -> String {
    format!(
        "{:?}|{:?}|{:?}|{:?}|{:?}|{:?}|{:?}|{:?}|{:?}",
        t.allocated_since_commit, t.data_freed_pages, t.system_freed_pages, t.data_master_root,
        t.system_master_root, t.data_pending_updates, t.system_pending_updates, t.savepoint_state, t.restored_transaction
    )
}

#[derive(Clone, Copy, Debug, PartialEq, Eq)]
enum EndKind {
    Abort,
    Drop,
    PoisonedCommit,
}

struct Gen {
    r: Rng,
    w: World,
    trace: String,
    cases: String,
    log: Vec<String>,
    hist: usize,
    step: usize,
    dead: bool,
    immediate: bool,
    qr: bool,
    dirty: bool,
    /// the live transaction holds half-applied state (an operation failed part-way / it is poisoned)
    half: bool,
    /// mode B: no observation through the backend
    blind: bool,
    in_body: bool,
    body_olines: Vec<String>,
    body_clines: Vec<String>,
    body_kinds: BTreeSet<&'static str>,
    stats: BTreeMap<String, u64>,
    viol: Vec<String>,
    max_regions_touched: u64,
    sigs: BTreeSet<String>,
    round_sigs: BTreeSet<String>,
    rounds: u64,
    nontrivial_rounds: u64,
    last_abs: Option<Abs>,
    last_obs_mem: Option<redb::verif::VDbSnapshot>,
    last_psp: Vec<u64>,
}

fn vsize(r: &mut Rng) -> usize {
    *r.pick(&[8usize, 8, 40, 40, 200, 200, 700, 1500, 3000])
}

impl Gen {
    fn new(r: Rng, w: World, hist: usize) -> Gen {
        Gen {
            r,
            w,
            trace: String::new(),
            cases: String::new(),
            log: vec![],
            hist,
            step: 0,
            dead: false,
            immediate: true,
            qr: false,
            dirty: false,
            half: false,
            blind: false,
            in_body: false,
            body_olines: vec![],
            body_clines: vec![],
            body_kinds: BTreeSet::new(),
            stats: Default::default(),
            viol: vec![],
            max_regions_touched: 0,
            sigs: BTreeSet::new(),
            round_sigs: BTreeSet::new(),
            rounds: 0,
            nontrivial_rounds: 0,
            last_abs: None,
            last_obs_mem: None,
            last_psp: vec![],
        }
    }

    fn count(&mut self, k: &str) {
        *self.stats.entry(k.to_string()).or_default() += 1;
    }

    fn violation(&mut self, msg: String) {
        let last = self.log.last().cloned().unwrap_or_default();
        self.viol.push(format!("h{} s{} after `{}`: {}", self.hist, self.step, last, msg));
    }

    fn after(&mut self, label: &str, kind: Kind) {
        if self.dead {
            return;
        }
        self.step += 1;
        progress(&format!("  {}: {label}", self.step));
        self.log.push(label.to_string());
        self.count(label.split(' ').next().unwrap());
        if self.blind {
            return;
        }
        let obs = match self.w.observe() {
            Ok(o) => o,
            Err(e) => {
                if self.half && self.w.wtx.is_some() {
                    // the working trees of a half-applied transaction need not be walkable
                    self.count("note_half_state_not_walkable");
                    self.trace.push_str("X half_state_not_walkable\n");
                    self.last_abs = None;
                    return;
                }
                self.viol.push(format!("h{} s{} after `{label}`: {e}", self.hist, self.step));
                self.dead = true;
                return;
            }
        };
        let a = &obs.abs;
        let l = |x: &Vec<u64>| fmt_list(x);
        let mut ops: Vec<String> = vec![];
        let half_now = self.half && self.w.wtx.is_some();
        let kind = if half_now && !matches!(kind, Kind::BeginRead(_) | Kind::DropPin(_)) { Kind::Opaque } else { kind };
        match &kind {
            Kind::Nop => {}
            Kind::BeginWrite => ops.push("O bw".into()),
            Kind::Mut => {
                ops.push(format!("O md {}", l(&a.wdata)));
                ops.push(format!("O ms {}", l(&a.wsys)));
            }
            Kind::BeginRead(h) => ops.push(format!("O br {h}")),
            Kind::DropPin(h) => ops.push(format!("O dp {h}")),
            Kind::SpCreate(h, p) => {
                ops.push(format!("O sc {h} {}", u8::from(*p)));
                ops.push(format!("O md {}", l(&a.wdata)));
                ops.push(format!("O ms {}", l(&a.wsys)));
            }
            Kind::SpDelete(h) => {
                ops.push(format!("O sd {h}"));
                ops.push(format!("O ms {}", l(&a.wsys)));
            }
            Kind::Restore(h, dels) => {
                ops.push(format!("O rs {h}"));
                for d in dels {
                    ops.push(format!("O sd {d}"));
                }
                ops.push(format!("O ms {}", l(&a.wsys)));
            }
            Kind::Abort => ops.push("O ab".into()),
            Kind::CommitDur(qr) => {
                let so = if obs.db.mem.read_from_secondary { l(&a.lat.2) } else { "-".into() };
                ops.push(format!("O cd {} 1 {}|{}|{}", u8::from(*qr), l(&a.dur.1), l(&a.dur.2), so));
            }
            Kind::CommitNd => ops.push(format!("O cn {}|{}", l(&a.lat.1), l(&a.lat.2))),
            Kind::Reopen => {
                ops.push("O bw".into());
                ops.push(format!("O cd 1 0 {}|{}|-", l(&a.dur.1), l(&a.dur.2)));
                ops.push("O ro".into());
            }
            Kind::Opaque => ops.push(format!("X {}", label.replace(' ', "_"))),
        }
        for o in ops {
            if self.in_body && o.starts_with("O ") {
                self.body_olines.push(o.clone());
            }
            self.trace.push_str(&o);
            self.trace.push('\n');
        }
        let lab = format!("h{}.{}:{}{}", self.hist, self.step, label.replace(' ', "_"), if half_now { "!half" } else { "" });
        self.trace.push_str(&a.line(&lab));
        self.trace.push('\n');
        let regions = obs.db.mem.regions.iter().filter(|r| !r.allocated_order0.is_empty()).count() as u64;
        self.max_regions_touched = self.max_regions_touched.max(regions);
        let sig = format!(
            "{:?}/{}/{}/{}/{}/{}/{}/{}/{}",
            std::mem::discriminant(&kind), a.inw, a.pins.len().min(3), a.pend.len().min(2),
            a.dfreed.len().min(2), a.sfreed.len().min(2), a.ufreed.len().min(2), regions.min(3), half_now
        );
        self.sigs.insert(sig);
        let rv: Vec<String> = self.w.rust_violations.drain(..).collect();
        for v in rv {
            self.viol.push(format!("h{} s{} after `{label}`: {v}", self.hist, self.step));
        }
        self.last_psp = obs.lat_reach.persistent_savepoints.iter().map(|s| s.id).collect();
        self.last_abs = Some(obs.abs);
        self.last_obs_mem = Some(obs.db);
    }

    // ------------------------------------------------------------------ transaction boundaries

    fn begin_write(&mut self) -> bool {
        match catch(|| self.w.db().begin_write()) {
            Ok(Ok(t)) => {
                self.w.wtx = Some(t);
                self.immediate = true;
                self.qr = false;
                self.dirty = false;
                self.half = false;
                self.after("begin_write", Kind::BeginWrite);
                true
            }
            other => {
                self.violation(format!("begin_write failed: {:?}", other.map(|r| r.map(|_| ()))));
                self.dead = true;
                false
            }
        }
    }

    fn commit(&mut self) {
        let t = self.w.wtx.take().unwrap();
        let snap = t.verif_snapshot();
        let deleted: Vec<u64> = snap.savepoint_state.deleted_persistent.iter().map(|(id, _)| World::handle_of_savepoint(*id)).collect();
        let invalidated: Vec<u64> = snap.savepoint_state.invalidated.iter().map(|id| World::handle_of_savepoint(*id)).collect();
        let imm = self.immediate;
        let qr = self.qr;
        match catch(|| t.commit()) {
            Ok(Ok(())) => {}
            other => {
                self.violation(format!("commit failed unexpectedly: {other:?}"));
                self.dead = true;
                return;
            }
        }
        self.w.pins.retain(|p| !deleted.contains(&p.handle));
        for p in self.w.pins.iter_mut() {
            if invalidated.contains(&p.handle) {
                p.valid = false;
            }
        }
        if imm {
            self.after(&format!("commit durable qr={}", u8::from(qr)), Kind::CommitDur(qr));
        } else {
            self.after("commit nondurable", Kind::CommitNd);
        }
    }

    /// abort() / drop; returns "ok" or the error class
    fn abort(&mut self, by_drop: bool) -> &'static str {
        let t = self.w.wtx.take().unwrap();
        let snap = t.verif_snapshot();
        let created: Vec<u64> = snap.savepoint_state.created_persistent.iter().map(|(id, _)| World::handle_of_savepoint(*id)).collect();
        let mut res = "ok";
        if by_drop {
            if let Err(p) = catch(|| drop(t)) {
                self.violation(format!("drop of the write transaction panicked: {p}"));
                self.dead = true;
                return "panic";
            }
        } else {
            match catch(|| t.abort()) {
                Ok(Ok(())) => {}
                Ok(Err(e)) => {
                    if is_io(&e) && self.blind {
                        res = "ioerr";
                    } else {
                        self.violation(format!("abort() failed: {e}"));
                        self.dead = true;
                        return "err";
                    }
                }
                Err(p) => {
                    self.violation(format!("abort() panicked: {p}"));
                    self.dead = true;
                    return "panic";
                }
            }
        }
        self.w.pins.retain(|p| !created.contains(&p.handle));
        self.half = false;
        self.after(if by_drop { "drop_txn" } else { "abort" }, Kind::Abort);
        res
    }

    /// commit() of a transaction in which an operation failed part-way
    fn failed_commit(&mut self) -> &'static str {
        let t = self.w.wtx.take().unwrap();
        let snap = t.verif_snapshot();
        let created: Vec<u64> = snap.savepoint_state.created_persistent.iter().map(|(id, _)| World::handle_of_savepoint(*id)).collect();
        let res = match catch(|| t.commit()) {
            Ok(Err(CommitError::TransactionPoisoned)) => "poisoned",
            Ok(Err(CommitError::Storage(e))) if is_io(&e) => "ioerr",
            Ok(Err(e)) => {
                self.violation(format!("C05: commit of a poisoned transaction returned an unexpected error: {e}"));
                "err"
            }
            Ok(Ok(())) => {
                self.violation(
                    "C05: commit() returned Ok although an operation of the transaction had failed part-way (half-applied state committed)".to_string(),
                );
                "ok"
            }
            Err(p) => {
                self.violation(format!("C05: commit of a poisoned transaction panicked: {p}"));
                self.dead = true;
                return "panic";
            }
        };
        self.w.pins.retain(|p| !created.contains(&p.handle));
        self.half = false;
        self.after("commit poisoned", Kind::Abort);
        res
    }

    // ------------------------------------------------------------------ outside registrations

    fn begin_read(&mut self) {
        let rt = match catch(|| self.w.db().begin_read()) {
            Ok(Ok(rt)) => rt,
            _ => return,
        };
        let (txn, root) = rt.verif_root();
        let h = self.w.next_handle;
        self.w.next_handle += 1;
        if self.blind {
            self.w.pins.push(Pin { handle: h, kind: PinKind::Reader(rt), txn, root, pages: vec![], content: vec![], valid: true });
            self.after("begin_read", Kind::BeginRead(h));
            return;
        }
        match self.w.pin_pages(root) {
            Ok((pages, content)) => {
                self.w.pins.push(Pin { handle: h, kind: PinKind::Reader(rt), txn, root, pages, content, valid: true });
                self.after("begin_read", Kind::BeginRead(h));
            }
            Err(e) => {
                self.violation(format!("new reader cannot walk its own root: {e}"));
                self.dead = true;
            }
        }
    }

    fn drop_pin(&mut self) {
        let cands: Vec<usize> = (0..self.w.pins.len()).filter(|i| !self.w.pins[*i].persistent()).collect();
        if cands.is_empty() {
            return;
        }
        let i = *self.r.pick(&cands);
        let p = self.w.pins.remove(i);
        let h = p.handle;
        let what = if matches!(p.kind, PinKind::Reader(_)) { "drop_reader" } else { "drop_ephemeral_savepoint" };
        drop(p);
        self.after(what, Kind::DropPin(h));
    }

    // ------------------------------------------------------------------ calls inside a transaction

    fn pick_tname(&mut self) -> &'static str {
        let n = if self.r.chance(3, 4) { 2 } else { 4 };
        TNAMES[self.r.below(n) as usize]
    }

    fn op_table_write(&mut self) -> Outcome {
        let which = self.r.below(100);
        let keyspace = *self.r.pick(&[30u64, 200, 200, 1000]);
        let name = self.pick_tname();
        let t = self.w.wtx.as_ref().unwrap();
        let r = &mut self.r;
        let mut label = String::new();
        let res = catch(|| -> Result<(), redb::Error> {
            if which < 40 {
                let n = *r.pick(&[1u64, 3, 10, 30, 60]);
                let sz = vsize(r);
                label = format!("insert {name} n={n} size={sz}");
                let mut tab = t.open_table(tdef(name))?;
                for _ in 0..n {
                    let k = r.below(keyspace);
                    let v = vec![(k & 0xff) as u8; sz];
                    tab.insert(k, v.as_slice())?;
                }
            } else if which < 58 {
                let n = *r.pick(&[1u64, 5, 20, 80]);
                label = format!("remove {name} n={n}");
                let mut tab = t.open_table(tdef(name))?;
                for _ in 0..n {
                    let k = r.below(keyspace);
                    tab.remove(k)?;
                }
            } else if which < 65 {
                let m = r.range(2, 4);
                label = format!("retain {name} mod{m}");
                let mut tab = t.open_table(tdef(name))?;
                tab.retain(|k, _| k % m == 0)?;
            } else if which < 70 {
                let lo = r.below(keyspace);
                label = format!("retain_in {name} from {lo}");
                let mut tab = t.open_table(tdef(name))?;
                tab.retain_in(lo.., |k, _| k % 3 != 0)?;
            } else if which < 78 {
                let take = r.range(0, 6);
                label = format!("extract_if {name} take={take}");
                let mut tab = t.open_table(tdef(name))?;
                let mut it = tab.extract_if(|k, _| k % 2 == 1)?;
                for _ in 0..take {
                    match it.next() {
                        Some(e) => {
                            e?;
                        }
                        None => break,
                    }
                }
                drop(it);
            } else if which < 84 {
                let n = r.range(1, 4);
                label = format!("pop {name} n={n}");
                let mut tab = t.open_table(tdef(name))?;
                for i in 0..n {
                    if i % 2 == 0 {
                        tab.pop_first()?;
                    } else {
                        tab.pop_last()?;
                    }
                }
            } else if which < 94 {
                // cursor edits: ascending run of fresh keys spliced in at the end, one removal
                let n = r.range(1, 12);
                let sz = *r.pick(&[8usize, 100, 600]);
                label = format!("cursor {name} n={n} size={sz}");
                let mut tab = t.open_table(tdef(name))?;
                let base = tab.last()?.map(|(k, _)| k.value() + 1).unwrap_or(0).max(2000);
                let mut cur = tab.upper_bound_mut(Bound::<u64>::Unbounded)?;
                for i in 0..n {
                    let v = vec![(i & 0xff) as u8; sz];
                    cur.insert_before(base + i, v.as_slice())?;
                }
                cur.prev()?;
                cur.remove_prev()?;
                cur.close()?;
            } else {
                // two tables open at once, interleaved writes, closed in the opposite order
                let other = if name == "t0" { "t1" } else { "t0" };
                label = format!("interleaved {name}+{other}");
                let mut a = t.open_table(tdef(name))?;
                let mut b = t.open_table(tdef(other))?;
                for i in 0..8u64 {
                    let k = r.below(keyspace);
                    let v = vec![i as u8; 150];
                    a.insert(k, v.as_slice())?;
                    b.insert(k + 1, v.as_slice())?;
                }
                drop(a);
                drop(b);
            }
            Ok(())
        });
        let err = match res {
            Ok(Ok(())) => ErrK::None,
            Ok(Err(redb::Error::Io(_))) | Ok(Err(redb::Error::PreviousIo)) => ErrK::Io,
            Ok(Err(_)) => ErrK::Logical,
            Err(_) => ErrK::Panic,
        };
        let ck = if label.starts_with("retain") {
            "retain"
        } else if label.starts_with("extract") {
            "extract"
        } else if label.starts_with("cursor") {
            "cursor"
        } else {
            "write"
        };
        Outcome { label, kind: Kind::Mut, ck, err, base: None }
    }

    fn op_multimap(&mut self) -> Outcome {
        let which = self.r.below(100);
        let name = MNAMES[self.r.below(2) as usize];
        let t = self.w.wtx.as_ref().unwrap();
        let r = &mut self.r;
        let mut label = String::new();
        let res = catch(|| -> Result<(), redb::Error> {
            if which < 60 {
                let n = *r.pick(&[1u64, 5, 20]);
                let sz = *r.pick(&[4usize, 30, 300]);
                label = format!("mminsert {name} n={n} size={sz}");
                let mut tab = t.open_multimap_table(mdef(name))?;
                for _ in 0..n {
                    let k = r.below(20);
                    let mut v = vec![0u8; sz];
                    v[0] = r.below(40) as u8;
                    tab.insert(k, v.as_slice())?;
                }
            } else if which < 80 {
                let n = r.range(1, 8);
                label = format!("mmremove_all {name} n={n}");
                let mut tab = t.open_multimap_table(mdef(name))?;
                for _ in 0..n {
                    let k = r.below(20);
                    tab.remove_all(k)?;
                }
            } else {
                let n = r.range(1, 10);
                label = format!("mmremove {name} n={n}");
                let mut tab = t.open_multimap_table(mdef(name))?;
                for _ in 0..n {
                    let k = r.below(20);
                    let mut v = vec![0u8; 4];
                    v[0] = r.below(40) as u8;
                    tab.remove(k, v.as_slice())?;
                }
            }
            Ok(())
        });
        let err = match res {
            Ok(Ok(())) => ErrK::None,
            Ok(Err(redb::Error::Io(_))) | Ok(Err(redb::Error::PreviousIo)) => ErrK::Io,
            Ok(Err(_)) => ErrK::Logical,
            Err(_) => ErrK::Panic,
        };
        Outcome { label, kind: Kind::Mut, ck: "write", err, base: None }
    }

    fn op_catalog(&mut self) -> Outcome {
        let which = self.r.below(100);
        let t = self.w.wtx.as_ref().unwrap();
        let (label, ck, res): (String, &'static str, Result<Result<(), TableError>, String>);
        if which < 35 {
            let a = TNAMES[self.r.below(4) as usize];
            let b = TNAMES[self.r.below(4) as usize];
            label = format!("rename_table {a} {b}");
            ck = "rename";
            res = catch(|| t.rename_table(tdef(a), tdef(b)));
        } else if which < 50 {
            let a = MNAMES[self.r.below(2) as usize];
            let b = MNAMES[self.r.below(2) as usize];
            label = format!("rename_multimap_table {a} {b}");
            ck = "rename";
            res = catch(|| t.rename_multimap_table(mdef(a), mdef(b)));
        } else if which < 75 {
            let a = TNAMES[self.r.below(4) as usize];
            label = format!("delete_table {a}");
            ck = "delete";
            res = catch(|| t.delete_table(tdef(a)).map(|_| ()));
        } else if which < 88 {
            let a = MNAMES[self.r.below(2) as usize];
            label = format!("delete_multimap_table {a}");
            ck = "delete";
            res = catch(|| t.delete_multimap_table(mdef(a)).map(|_| ()));
        } else {
            // open (creating it if absent) and close without writing
            let a = TNAMES[self.r.below(4) as usize];
            label = format!("create_or_open {a}");
            ck = "write";
            res = catch(|| t.open_table(tdef(a)).map(|_| ()));
        }
        let err = match &res {
            Ok(Ok(())) => ErrK::None,
            Ok(Err(e)) => cls_table(e),
            Err(_) => ErrK::Panic,
        };
        Outcome { label, kind: Kind::Mut, ck, err, base: None }
    }

    /// an operation whose predicate panics part-way (caught by the caller of redb)
    fn op_panicking(&mut self) -> Outcome {
        let which = self.r.below(100);
        let name = self.pick_tname();
        let after_n = self.r.range(0, 25);
        let fill = self.r.chance(2, 3);
        // the double-ended extract iterators are driven from the front, from the back, or alternating: the
        // predicate runs (and may panic) under next() as well as under next_back()
        let dir = self.r.below(3);
        fn drive<T, E: Into<redb::Error>>(mut it: impl DoubleEndedIterator<Item = Result<T, E>>, dir: u64) -> Result<(), redb::Error> {
            let mut i = 0u64;
            loop {
                let e = match dir {
                    0 => it.next(),
                    1 => it.next_back(),
                    _ => { i += 1; if i % 2 == 0 { it.next() } else { it.next_back() } }
                };
                match e {
                    None => return Ok(()),
                    Some(r) => { r.map_err(Into::into)?; }
                }
            }
        }
        let t = self.w.wtx.as_ref().unwrap();
        let mut label = String::new();
        let mut mid: Option<Box<VTxnSnapshot>> = None;
        let res = catch(|| -> Result<(), redb::Error> {
            let mut tab = t.open_table(tdef(name))?;
            if fill {
                for k in 0..40u64 {
                    let v = vec![k as u8; 90];
                    tab.insert(k * 3, v.as_slice())?;
                }
            }
            mid = Some(Box::new(t.verif_snapshot()));
            let mut seen = 0u64;
            if which < 40 {
                label = format!("retain-panic {name} after={after_n} fill={}", u8::from(fill));
                tab.retain(|k, _| {
                    seen += 1;
                    if seen > after_n {
                        panic!("predicate panic");
                    }
                    k % 2 == 0
                })?;
            } else if which < 55 {
                label = format!("retain_in-panic {name} after={after_n} fill={}", u8::from(fill));
                tab.retain_in(5u64.., |k, _| {
                    seen += 1;
                    if seen > after_n {
                        panic!("predicate panic");
                    }
                    k % 2 == 0
                })?;
            } else if which < 85 {
                label = format!("extract_if-panic {name} after={after_n} fill={} dir={dir}", u8::from(fill));
                let it = tab.extract_if(|k, _| {
                    seen += 1;
                    if seen > after_n {
                        panic!("predicate panic");
                    }
                    k % 2 == 1
                })?;
                drive(it, dir)?;
            } else {
                label = format!("extract_from_if-panic {name} after={after_n} fill={} dir={dir}", u8::from(fill));
                let it = tab.extract_from_if(7u64.., |k, _| {
                    seen += 1;
                    if seen > after_n {
                        panic!("predicate panic");
                    }
                    k % 2 == 1
                })?;
                drive(it, dir)?;
            }
            Ok(())
        });
        let err = match res {
            Ok(Ok(())) => ErrK::None,
            Ok(Err(redb::Error::Io(_))) | Ok(Err(redb::Error::PreviousIo)) => ErrK::Io,
            Ok(Err(_)) => ErrK::Logical,
            Err(_) => ErrK::Panic,
        };
        if label.is_empty() {
            label = format!("panicking-op {name} (open failed)");
        }
        let ck = if label.starts_with("retain") { "retain" } else { "extract" };
        Outcome { label, kind: Kind::Mut, ck, err, base: mid }
    }

    fn op_savepoint(&mut self, persistent: bool) -> Outcome {
        let t = self.w.wtx.as_ref().unwrap();
        if persistent {
            match catch(|| t.persistent_savepoint()) {
                Ok(Ok(id)) => {
                    let rec = match catch(|| t.get_persistent_savepoint(id).map(|sp| sp.verif_record())) {
                        Ok(Ok(rec)) => rec,
                        _ => return Outcome { label: "persistent_savepoint (record unreadable)".into(), kind: Kind::Opaque, ck: "savepoint", err: ErrK::Io, base: None },
                    };
                    let h = World::handle_of_savepoint(id);
                    let (pages, content) = if self.blind { (vec![], vec![]) } else { self.w.pin_pages(rec.data_root).unwrap_or_default() };
                    self.w.pins.push(Pin { handle: h, kind: PinKind::Pers(id), txn: rec.transaction_id, root: rec.data_root, pages, content, valid: true });
                    Outcome { label: "persistent_savepoint".into(), kind: Kind::SpCreate(h, true), ck: "savepoint", err: ErrK::None, base: None }
                }
                Ok(Err(e)) => Outcome { label: "persistent_savepoint rejected".into(), kind: Kind::Mut, ck: "savepoint", err: cls_sp(&e), base: None },
                Err(_) => Outcome { label: "persistent_savepoint panicked".into(), kind: Kind::Opaque, ck: "savepoint", err: ErrK::Panic, base: None },
            }
        } else {
            match catch(|| t.ephemeral_savepoint()) {
                Ok(Ok(sp)) => {
                    let rec = sp.verif_record();
                    let h = World::handle_of_savepoint(rec.id);
                    let (pages, content) = if self.blind { (vec![], vec![]) } else { self.w.pin_pages(rec.data_root).unwrap_or_default() };
                    self.w.pins.push(Pin { handle: h, kind: PinKind::Eph(sp), txn: rec.transaction_id, root: rec.data_root, pages, content, valid: true });
                    Outcome { label: "ephemeral_savepoint".into(), kind: Kind::SpCreate(h, false), ck: "savepoint", err: ErrK::None, base: None }
                }
                Ok(Err(e)) => Outcome { label: "ephemeral_savepoint rejected".into(), kind: Kind::Nop, ck: "savepoint", err: cls_sp(&e), base: None },
                Err(_) => Outcome { label: "ephemeral_savepoint panicked".into(), kind: Kind::Opaque, ck: "savepoint", err: ErrK::Panic, base: None },
            }
        }
    }

    fn op_delete_persistent(&mut self) -> Option<Outcome> {
        let cands: Vec<(u64, u64)> = self.w.pins.iter().filter_map(|p| if let PinKind::Pers(id) = p.kind { Some((p.handle, id)) } else { None }).collect();
        if cands.is_empty() {
            return None;
        }
        let (h, id) = *self.r.pick(&cands);
        let t = self.w.wtx.as_ref().unwrap();
        let snap = t.verif_snapshot();
        if snap.savepoint_state.deleted_persistent.iter().any(|(i, _)| *i == id) {
            return None;
        }
        Some(match catch(|| t.delete_persistent_savepoint(id)) {
            Ok(Ok(true)) => Outcome { label: format!("delete_persistent_savepoint {id}"), kind: Kind::SpDelete(h), ck: "spdelete", err: ErrK::None, base: None },
            Ok(Ok(false)) => Outcome { label: "delete_persistent_savepoint absent".into(), kind: Kind::Mut, ck: "spdelete", err: ErrK::None, base: None },
            Ok(Err(e)) => Outcome { label: "delete_persistent_savepoint rejected".into(), kind: Kind::Mut, ck: "spdelete", err: cls_sp(&e), base: None },
            Err(_) => Outcome { label: "delete_persistent_savepoint panicked".into(), kind: Kind::Opaque, ck: "spdelete", err: ErrK::Panic, base: None },
        })
    }

    /// restore to pin `i`; second component: Some(restorable?) when the answer is a clean yes / no
    fn op_restore(&mut self, i: usize) -> (Outcome, Option<bool>) {
        let before = self.w.wtx.as_ref().unwrap().verif_snapshot();
        let mut t = self.w.wtx.take().unwrap();
        let (h, res, spid) = {
            let p = &self.w.pins[i];
            match &p.kind {
                PinKind::Eph(sp) => {
                    let id = sp.verif_record().id;
                    (p.handle, catch(|| t.restore_savepoint(sp)), id)
                }
                PinKind::Pers(id) => {
                    let r = catch(|| match t.get_persistent_savepoint(*id) {
                        Ok(sp) => t.restore_savepoint(&sp),
                        Err(e) => Err(e),
                    });
                    (p.handle, r, *id)
                }
                PinKind::Reader(_) => unreachable!(),
            }
        };
        let after = t.verif_snapshot();
        self.w.wtx = Some(t);
        match res {
            Ok(Ok(())) => {
                let dels: Vec<u64> = after
                    .savepoint_state
                    .deleted_persistent
                    .iter()
                    .filter(|x| !before.savepoint_state.deleted_persistent.contains(x))
                    .map(|(id, _)| World::handle_of_savepoint(*id))
                    .collect();
                self.dirty = true;
                (Outcome { label: format!("restore_savepoint {spid}"), kind: Kind::Restore(h, dels), ck: "restore", err: ErrK::None, base: None }, Some(true))
            }
            Ok(Err(e)) => {
                let k = cls_sp(&e);
                let clean_no = matches!(e, SavepointError::InvalidSavepoint);
                (Outcome { label: format!("restore_savepoint {spid} rejected"), kind: Kind::Nop, ck: "restore", err: k, base: None }, if clean_no { Some(false) } else { None })
            }
            Err(_) => (Outcome { label: format!("restore_savepoint {spid} panicked"), kind: Kind::Opaque, ck: "restore", err: ErrK::Panic, base: None }, None),
        }
    }

    fn op_setting(&mut self) -> Outcome {
        let x = self.r.below(7);
        if x < 4 {
            let none = self.r.chance(2, 3);
            let t = self.w.wtx.as_mut().unwrap();
            let r = t.set_durability(if none { Durability::None } else { Durability::Immediate });
            if r.is_ok() {
                self.immediate = !none;
            }
            Outcome {
                label: (if none { "set_durability none" } else { "set_durability immediate" }).into(),
                kind: Kind::Nop,
                ck: "setting",
                err: if r.is_ok() { ErrK::None } else { ErrK::Logical },
                base: None,
            }
        } else if x < 5 {
            let on = self.r.chance(1, 2);
            self.w.wtx.as_mut().unwrap().set_two_phase_commit(on);
            Outcome { label: "set_two_phase_commit".into(), kind: Kind::Nop, ck: "setting", err: ErrK::None, base: None }
        } else {
            let on = self.r.chance(2, 3);
            self.w.wtx.as_mut().unwrap().set_quick_repair(on);
            self.qr = on;
            Outcome { label: "set_quick_repair".into(), kind: Kind::Nop, ck: "setting", err: ErrK::None, base: None }
        }
    }

    /// one call inside the live transaction, with the failure flags observed around it
    fn body_call(&mut self, force_poison: bool) {
        if self.dead {
            return;
        }
        let before = self.w.wtx.as_ref().unwrap().verif_snapshot();
        let x = if force_poison { 95 } else { self.r.below(100) };
        let out: Outcome = match x {
            0..=33 => self.op_table_write(),
            34..=42 => self.op_multimap(),
            43..=54 => self.op_catalog(),
            55..=59 => self.op_savepoint(false),
            60..=63 => self.op_savepoint(true),
            64..=66 => match self.op_delete_persistent() {
                Some(o) => o,
                None => return,
            },
            67..=73 => {
                let cands: Vec<usize> = (0..self.w.pins.len()).filter(|i| !matches!(self.w.pins[*i].kind, PinKind::Reader(_))).collect();
                if cands.is_empty() {
                    return;
                }
                let i = *self.r.pick(&cands);
                self.op_restore(i).0
            }
            74..=80 => self.op_setting(),
            81..=83 => {
                self.begin_read();
                return;
            }
            84..=87 => {
                self.drop_pin();
                return;
            }
            _ => self.op_panicking(),
        };
        self.finish_call(before, out);
    }

    fn finish_call(&mut self, before: VTxnSnapshot, out: Outcome) {
        let after = self.w.wtx.as_ref().unwrap().verif_snapshot();
        let mutated = match &out.base {
            Some(b) => txn_sig(b) != txn_sig(&after),
            None => txn_sig(&before) != txn_sig(&after),
        };
        // an I/O error that latched the storage layer during the call is what failed the call, whatever
        // the call reported (a predicate may panic later in the same call, Drop paths swallow errors)
        let mut out = out;
        let mut found: Vec<String> = vec![];
        if !before.db.mem.storage_failure && after.db.mem.storage_failure {
            if out.err != ErrK::Io {
                self.count(&format!("note_latched_during_call_reported_{}", out.err.name()));
            }
            out.err = ErrK::Io;
        }
        let grew = after.allocated_since_commit.len() as i64 - before.allocated_since_commit.len() as i64;
        if grew >= 2 {
            self.count("marker_multi_page_alloc");
        }
        if after.data_freed_pages.len() > before.data_freed_pages.len() {
            self.count("marker_freed_committed_pages");
        }
        if out.err != ErrK::None {
            self.body_clines.push(format!(
                "C {} {} {} {} {} {} {}",
                out.ck, u8::from(mutated), out.err.name(), u8::from(before.poisoned), u8::from(before.db.mem.storage_failure),
                u8::from(after.poisoned), u8::from(after.db.mem.storage_failure)
            ));
            self.count(&format!("fail_{}_{}", out.ck, out.err.name()));
            if !before.poisoned && after.poisoned {
                self.count(&format!("poison_site_{}", out.ck));
            }
            // the property itself, per call: a call that failed after mutating the transaction must leave it
            // unable to commit
            if mutated && !after.poisoned && !after.db.mem.storage_failure {
                found.push(format!(
                    "C05: `{}` failed ({}) after mutating the transaction but left it neither poisoned nor latched",
                    out.label, out.err.name()
                ));
            }
        } else if after.poisoned && !before.poisoned {
            found.push(format!("C05: `{}` succeeded but poisoned the transaction", out.label));
        }
        if before.poisoned && !after.poisoned {
            found.push(format!("C05: `{}` cleared the poisoned flag", out.label));
        }
        if after.poisoned || (out.err != ErrK::None && mutated) {
            self.half = true;
        }
        self.body_kinds.insert(out.ck);
        if out.err == ErrK::None && matches!(out.kind, Kind::Mut | Kind::Restore(..)) {
            self.dirty = true;
        }
        self.after(&out.label, out.kind);
        for v in found {
            self.violation(v);
        }
    }

    // ------------------------------------------------------------------ savepoint validity, probed by scratch transactions

    fn probe_validity(&mut self) -> BTreeMap<u64, bool> {
        let mut out = BTreeMap::new();
        let mut cands: Vec<u64> = self.w.pins.iter().filter(|p| !matches!(p.kind, PinKind::Reader(_))).map(|p| p.handle).collect();
        while cands.len() > 3 {
            let i = self.r.below(cands.len() as u64) as usize;
            cands.remove(i);
        }
        for h in cands {
            if self.dead {
                break;
            }
            let Some(i) = self.w.pins.iter().position(|p| p.handle == h) else { continue };
            if !self.begin_write() {
                break;
            }
            let before = self.w.wtx.as_ref().unwrap().verif_snapshot();
            let (o, ok) = self.op_restore(i);
            self.finish_call(before, o);
            if self.dead {
                break;
            }
            if let Some(b) = ok {
                out.insert(h, b);
            }
            self.abort(false);
            self.count("scratch_probe_txns");
        }
        out
    }

    // ------------------------------------------------------------------ the abandoned transaction

    fn abandoned_round(&mut self, round: usize) {
        if self.dead {
            return;
        }
        if self.w.wtx.is_some() {
            if self.w.wtx.as_ref().unwrap().verif_snapshot().poisoned {
                self.failed_commit();
            } else {
                self.commit();
            }
            if self.dead {
                return;
            }
        }
        // directed prefix (1 round in 4): an ephemeral savepoint followed by non-durable commits, so that a
        // restore inside the abandoned body meets unpersisted freed records, pending non-durable commits
        // and unpersisted allocations
        let mut restore_first: Option<u64> = None;
        if self.r.chance(1, 4) {
            if self.begin_write() {
                let before = self.w.wtx.as_ref().unwrap().verif_snapshot();
                let o = self.op_savepoint(false);
                let created = matches!(o.kind, Kind::SpCreate(..));
                if let Kind::SpCreate(h, _) = o.kind {
                    restore_first = Some(h);
                }
                self.finish_call(before, o);
                if !created {
                    restore_first = None;
                }
                let nd = self.r.range(1, 2);
                for i in 0..nd {
                    if self.dead {
                        return;
                    }
                    if i > 0 && !self.begin_write() {
                        return;
                    }
                    {
                        let t = self.w.wtx.as_mut().unwrap();
                        if t.set_durability(Durability::None).is_ok() {
                            self.immediate = false;
                        }
                    }
                    self.after("set_durability none", Kind::Nop);
                    let before = self.w.wtx.as_ref().unwrap().verif_snapshot();
                    let o = self.op_table_write();
                    self.finish_call(before, o);
                    if self.dead {
                        return;
                    }
                    if self.w.wtx.as_ref().unwrap().verif_snapshot().poisoned {
                        self.failed_commit();
                    } else {
                        self.commit();
                    }
                }
                self.count("rounds_directed_nondurable_prefix");
            }
            if self.dead {
                return;
            }
        }
        let v0 = self.probe_validity();
        if self.dead {
            return;
        }
        self.after("pre_observe", Kind::Nop);
        let (Some(pre), Some(pre_db)) = (self.last_abs.clone(), self.last_obs_mem.clone()) else { return };
        let pre_psp = self.last_psp.clone();
        let d0 = match dump(self.w.db()) {
            Ok(d) => d,
            Err(e) => {
                self.violation(e);
                self.dead = true;
                return;
            }
        };
        let handles_before: BTreeSet<u64> = self.w.pins.iter().map(|p| p.handle).collect();
        // ---- the transaction
        if !self.begin_write() {
            return;
        }
        self.in_body = true;
        self.body_olines.clear();
        self.body_clines.clear();
        self.body_kinds.clear();
        let nops = self.r.range(1, 9);
        let end = *self.r.pick(&[EndKind::Abort, EndKind::Abort, EndKind::Drop, EndKind::Drop, EndKind::PoisonedCommit, EndKind::PoisonedCommit]);
        if let Some(h) = restore_first {
            if self.r.chance(2, 3) {
                if let Some(i) = self.w.pins.iter().position(|p| p.handle == h) {
                    let before = self.w.wtx.as_ref().unwrap().verif_snapshot();
                    let (o, _) = self.op_restore(i);
                    self.finish_call(before, o);
                    if self.dead {
                        return;
                    }
                }
            }
        }
        for _ in 0..nops {
            self.body_call(false);
            if self.dead {
                return;
            }
        }
        let mut tries = 0;
        while end == EndKind::PoisonedCommit && !self.w.wtx.as_ref().unwrap().verif_snapshot().poisoned && tries < 6 {
            self.body_call(true);
            tries += 1;
            if self.dead {
                return;
            }
        }
        let last = self.w.wtx.as_ref().unwrap().verif_snapshot();
        let poisoned = last.poisoned;
        let end = if end == EndKind::PoisonedCommit && !poisoned { EndKind::Abort } else { end };
        let nontrivial = !last.allocated_since_commit.is_empty()
            || !last.data_freed_pages.is_empty()
            || !last.savepoint_state.created_persistent.is_empty()
            || !last.savepoint_state.deleted_persistent.is_empty()
            || last.restored_transaction.is_some();
        self.in_body = false;
        let endres = match end {
            EndKind::Abort => self.abort(false),
            EndKind::Drop => self.abort(true),
            EndKind::PoisonedCommit => self.failed_commit(),
        };
        if self.dead {
            return;
        }
        self.rounds += 1;
        self.count(match end {
            EndKind::Abort => "ended_by_abort",
            EndKind::Drop => "ended_by_drop",
            EndKind::PoisonedCommit => "ended_by_poisoned_commit",
        });
        if poisoned {
            self.count("rounds_poisoned");
        }
        if end == EndKind::PoisonedCommit && endres != "poisoned" && endres != "ok" {
            self.violation(format!("C05: commit of the poisoned transaction did not report TransactionPoisoned but `{endres}`"));
        }
        // ---- post state
        let (Some(post), Some(post_db)) = (self.last_abs.clone(), self.last_obs_mem.clone()) else { return };
        let post_psp = self.last_psp.clone();
        let tag = format!("h{}.r{}", self.hist, round);
        // model-based S3 / flags for the OCaml driver
        writeln!(self.cases, "R {tag} poisoned={} end={:?}", u8::from(poisoned), end).unwrap();
        writeln!(self.cases, "P {}", &pre.line("pre")[6..]).unwrap();
        for o in &self.body_olines {
            writeln!(self.cases, "{o}").unwrap();
        }
        for c in &self.body_clines {
            writeln!(self.cases, "{c}").unwrap();
        }
        writeln!(
            self.cases,
            "E {} {} {} {}",
            match end {
                EndKind::Abort => "abort",
                EndKind::Drop => "drop",
                EndKind::PoisonedCommit => "commit",
            },
            u8::from(poisoned),
            u8::from(last.db.mem.storage_failure),
            endres
        )
        .unwrap();
        writeln!(self.cases, "Q {}", &post.line("post")[7..]).unwrap();
        // direct S3 on everything the snapshots hold
        let mut diffs: Vec<String> = vec![];
        let set = |v: &Vec<u64>| v.iter().copied().collect::<BTreeSet<u64>>();
        macro_rules! cmpset {
            ($f:ident) => {
                if set(&pre.$f) != set(&post.$f) {
                    let a = set(&pre.$f);
                    let b = set(&post.$f);
                    diffs.push(format!(
                        "{}: {} pages before, {} after (only before: {:?}; only after: {:?})",
                        stringify!($f), a.len(), b.len(),
                        a.difference(&b).take(8).collect::<Vec<_>>(), b.difference(&a).take(8).collect::<Vec<_>>()
                    ));
                }
            };
        }
        cmpset!(alloc);
        cmpset!(unpers);
        cmpset!(pca);
        let canon = |m: &BTreeMap<u64, Vec<u64>>| m.iter().map(|(k, v)| (*k, set(v))).collect::<BTreeMap<_, _>>();
        if canon(&pre.dfreed) != canon(&post.dfreed) {
            diffs.push(format!("DATA_FREED table: keys before {:?}, after {:?}", pre.dfreed.keys().collect::<Vec<_>>(), post.dfreed.keys().collect::<Vec<_>>()));
        }
        if canon(&pre.sfreed) != canon(&post.sfreed) {
            diffs.push(format!("SYSTEM_FREED table: keys before {:?}, after {:?}", pre.sfreed.keys().collect::<Vec<_>>(), post.sfreed.keys().collect::<Vec<_>>()));
        }
        if canon(&pre.ufreed) != canon(&post.ufreed) {
            diffs.push(format!("unpersisted data_freed: keys before {:?}, after {:?}", pre.ufreed.keys().collect::<Vec<_>>(), post.ufreed.keys().collect::<Vec<_>>()));
        }
        if pre.pend != post.pend {
            diffs.push(format!("pending non-durable commits {:?} -> {:?}", pre.pend, post.pend));
        }
        if pre_db.mem.primary != post_db.mem.primary || pre_db.mem.secondary != post_db.mem.secondary || pre_db.mem.read_from_secondary != post_db.mem.read_from_secondary {
            diffs.push("commit slots (roots / transaction ids) changed".to_string());
        }
        if pre_db.mem.unpersisted != post_db.mem.unpersisted {
            diffs.push("UnpersistedState (pages / allocations / allocation_txn / data_freed / post_commit_allocations) changed".to_string());
        }
        if pre_db.mem.allocated_page_count != post_db.mem.allocated_page_count {
            diffs.push(format!("stats().allocated_pages() {} -> {}", pre_db.mem.allocated_page_count, post_db.mem.allocated_page_count));
        }
        if post_db.mem.needs_repair || post_db.mem.storage_failure {
            diffs.push(format!("needs_repair={} storage_failure={} after the end of the transaction", post_db.mem.needs_repair, post_db.mem.storage_failure));
        }
        if post_db.tracker.live_write_transaction.is_some() {
            diffs.push("tracker still has a live write transaction".to_string());
        }
        if post_db.tracker.next_transaction_id <= pre_db.tracker.next_transaction_id {
            diffs.push(format!("transaction id reused: next id {} -> {}", pre_db.tracker.next_transaction_id, post_db.tracker.next_transaction_id));
        }
        if pre_db.tracker.pending_non_durable_commits != post_db.tracker.pending_non_durable_commits
            || pre_db.tracker.unprocessed_freed_non_durable_commits != post_db.tracker.unprocessed_freed_non_durable_commits
        {
            diffs.push("tracker non-durable commit bookkeeping changed".to_string());
        }
        if pre_db.tracker.persistent_savepoints != post_db.tracker.persistent_savepoints {
            diffs.push(format!("tracker persistent savepoints {:?} -> {:?}", pre_db.tracker.persistent_savepoints, post_db.tracker.persistent_savepoints));
        }
        if pre_psp != post_psp {
            diffs.push(format!("persistent savepoints stored in the system tree {pre_psp:?} -> {post_psp:?}"));
        }
        // valid savepoints: the old ones still held + ephemeral ones taken in the body and still held
        {
            let held: BTreeSet<u64> = self
                .w
                .pins
                .iter()
                .filter_map(|p| match &p.kind {
                    PinKind::Eph(s) => Some(s.verif_record().id),
                    PinKind::Pers(id) => Some(*id),
                    PinKind::Reader(_) => None,
                })
                .collect();
            let before: BTreeSet<(u64, u64)> = pre_db.tracker.valid_savepoints.iter().copied().filter(|(id, _)| held.contains(id)).collect();
            let now: BTreeSet<(u64, u64)> = post_db.tracker.valid_savepoints.iter().copied().collect();
            let new_held: BTreeSet<u64> = self.w.pins.iter().filter(|p| !handles_before.contains(&p.handle)).filter_map(|p| match &p.kind {
                PinKind::Eph(s) => Some(s.verif_record().id),
                _ => None,
            }).collect();
            for x in &before {
                if !now.contains(x) {
                    diffs.push(format!("savepoint {} (txn {}) was valid before the transaction and is not after it", x.0, x.1));
                }
            }
            for x in &now {
                if !before.contains(x) && !new_held.contains(&x.0) {
                    diffs.push(format!("savepoint {} (txn {}) is registered after the transaction but was not before (and no handle for it is held)", x.0, x.1));
                }
            }
        }
        match dump(self.w.db()) {
            Ok(d1) => {
                if d1 != d0 {
                    diffs.push(format!("logical contents changed: {}", describe_diff(&d0, &d1)));
                }
            }
            Err(e) => diffs.push(e),
        }
        if !diffs.is_empty() {
            self.violation(format!(
                "C05: state after the abandoned transaction (ended by {:?}{}) differs from the state before begin_write: {}",
                end, if poisoned { ", poisoned" } else { "" }, diffs.join("; ")
            ));
        }
        // savepoint validity as later transactions see it
        let v1 = self.probe_validity();
        if self.dead {
            return;
        }
        for (h, was) in &v0 {
            if let Some(now) = v1.get(h) {
                if was != now {
                    self.violation(format!(
                        "C05: savepoint handle {h} was {} before the abandoned transaction and is {} after it",
                        if *was { "restorable" } else { "invalid" }, if *now { "restorable" } else { "invalid" }
                    ));
                }
            }
        }
        // round signature for the evidence
        if nontrivial {
            self.nontrivial_rounds += 1;
            let sig = format!(
                "{:?}/{}/{:?}/{}/{}/{}/{}/{}",
                end, poisoned, self.body_kinds, pre.pins.len().min(3), !pre.pend.is_empty(), !pre.dfreed.is_empty(), !pre.ufreed.is_empty(), last.restored_transaction.is_some()
            );
            self.round_sigs.insert(sig);
        }
        if !pre.pend.is_empty() {
            self.count("rounds_with_pending_nondurable");
        }
        self.count(&format!("rounds_pins_{}", pre.pins.len().min(4)));
        // ---- a later transaction commits: nothing of the abandoned body may show up
        self.followup(&d0, round);
    }

    fn followup(&mut self, d0: &Logical, round: usize) {
        if self.dead || !self.begin_write() {
            return;
        }
        let key = (1u64 << 40) | ((self.hist as u64) << 12) | round as u64;
        let val = vec![round as u8; 5];
        let none = self.r.chance(1, 3);
        {
            let t = self.w.wtx.as_mut().unwrap();
            if none && t.set_durability(Durability::None).is_ok() {
                self.immediate = false;
            }
        }
        {
            let t = self.w.wtx.as_ref().unwrap();
            let mut tab = t.open_table(tdef("t0")).unwrap();
            tab.insert(key, val.as_slice()).unwrap();
        }
        self.after("insert marker", Kind::Mut);
        self.commit();
        if self.dead {
            return;
        }
        let mut want = d0.clone();
        let e = want.tables.entry("t0".to_string()).or_default();
        e.retain(|(k, _)| *k != key);
        e.push((key, vhash(&val)));
        e.sort();
        match dump(self.w.db()) {
            Ok(d2) => {
                if d2 != want {
                    self.violation(format!(
                        "C05: the first commit after the abandoned transaction contains more than its own write: {}",
                        describe_diff(&want, &d2)
                    ));
                }
            }
            Err(e) => self.violation(e),
        }
    }

    /// after a reopen in mode B: the pins of the world are the persistent savepoints stored in the file
    fn adopt_persistent_pins(&mut self) {
        self.w.pins.clear();
        let snap = self.w.db().verif_snapshot();
        let lat = snap.mem.latest().clone();
        let recs = match self.w.reach(lat.data_root, lat.system_root) {
            Ok(r) => r.persistent_savepoints,
            Err(e) => {
                self.violation(format!("C05: the reopened database cannot be walked: {e}"));
                self.dead = true;
                return;
            }
        };
        for rec in recs {
            match self.w.pin_pages(rec.data_root) {
                Ok((pages, content)) => self.w.pins.push(Pin {
                    handle: World::handle_of_savepoint(rec.id),
                    kind: PinKind::Pers(rec.id),
                    txn: rec.transaction_id,
                    root: rec.data_root,
                    pages,
                    content,
                    valid: true,
                }),
                Err(e) => {
                    self.violation(format!("C05: persistent savepoint {} of the reopened database cannot be walked: {e}", rec.id));
                    self.dead = true;
                    return;
                }
            }
        }
    }

    // ------------------------------------------------------------------ the preceding history

    fn reopen(&mut self) {
        while self.w.pins.iter().any(|p| !p.persistent()) {
            self.drop_pin();
            if self.dead {
                return;
            }
        }
        let db = self.w.db.take().unwrap();
        drop(db);
        self.w.open();
        self.after("reopen", Kind::Reopen);
    }

    fn step_once(&mut self) {
        let x = self.r.below(100);
        if self.w.wtx.is_none() {
            match x {
                0..=59 => {
                    self.begin_write();
                }
                60..=74 => self.begin_read(),
                75..=87 => self.drop_pin(),
                88..=95 => self.reopen(),
                _ => {
                    self.begin_write();
                }
            }
        } else {
            match x {
                0..=49 => self.body_call(false),
                50..=79 => {
                    if self.w.wtx.as_ref().unwrap().verif_snapshot().poisoned {
                        self.failed_commit();
                    } else {
                        self.commit();
                    }
                }
                80..=84 => {
                    self.abort(false);
                }
                85..=87 => {
                    self.abort(true);
                }
                88..=93 => self.begin_read(),
                _ => self.drop_pin(),
            }
        }
    }

    fn quiesce(&mut self) {
        if self.dead {
            return;
        }
        if self.w.wtx.is_some() {
            if self.w.wtx.as_ref().unwrap().verif_snapshot().poisoned {
                self.abort(false);
            } else {
                self.commit();
            }
        }
        while !self.dead && self.w.pins.iter().any(|p| !p.persistent()) {
            self.drop_pin();
        }
        if self.dead {
            return;
        }
        if self.w.pins.iter().any(|p| p.persistent()) {
            if !self.begin_write() {
                return;
            }
            let ids: Vec<(u64, u64)> = self.w.pins.iter().filter_map(|p| if let PinKind::Pers(id) = p.kind { Some((p.handle, id)) } else { None }).collect();
            for (h, id) in ids {
                let r = self.w.wtx.as_ref().unwrap().delete_persistent_savepoint(id);
                match r {
                    Ok(true) => self.after("delete_persistent_savepoint", Kind::SpDelete(h)),
                    _ => self.after("delete_persistent_savepoint absent", Kind::Mut),
                }
            }
            if self.dead {
                return;
            }
            self.commit();
        }
        for _ in 0..3 {
            if self.dead || !self.begin_write() {
                return;
            }
            self.commit();
        }
        if self.dead {
            return;
        }
        if let Ok(o) = self.w.observe() {
            let a = &o.abs;
            if !(a.dfreed.is_empty() && a.sfreed.is_empty() && a.ufreed.is_empty() && a.unpers.is_empty()) {
                self.viol.push(format!(
                    "h{}: storage did not return to pages(current) after all readers/savepoints were released and three durable commits passed: dfreed={:?} sfreed={:?} ufreed={:?} unpers={}",
                    self.hist, a.dfreed.keys().collect::<Vec<_>>(), a.sfreed.keys().collect::<Vec<_>>(), a.ufreed.keys().collect::<Vec<_>>(), a.unpers.len()
                ));
            }
            let owned: BTreeSet<u64> = a.lat.1.iter().chain(a.lat.2.iter()).copied().collect();
            let alloc: BTreeSet<u64> = a.alloc.iter().copied().collect();
            if owned != alloc {
                self.viol.push(format!("h{}: at quiescence allocated ({}) != pages(current) ({})", self.hist, alloc.len(), owned.len()));
            }
            self.count("quiescent_checks");
        }
    }
}

fn run_history(g: &mut Gen, steps: usize) {
    g.after("create", Kind::Opaque);
    let rounds = 3;
    for round in 0..rounds {
        let pre = if round == 0 { steps } else { steps / 2 };
        for _ in 0..pre {
            if g.dead {
                return;
            }
            g.step_once();
        }
        g.abandoned_round(round);
    }
    g.quiesce();
}

const CONFIGS: [(usize, u64); 6] = [(512, 16), (512, 16), (512, 16), (512, 64), (1024, 8), (4096, 0)];

fn main_histories(args: &[String]) {
    let n: usize = args.get(1).map(|s| s.parse().unwrap()).unwrap_or(20);
    let steps: usize = args.get(2).map(|s| s.parse().unwrap()).unwrap_or(24);
    let only: Option<usize> = if args.get(3).map(|s| s.as_str()) == Some("only") { Some(args[4].parse().unwrap()) } else { None };
    let mut master = Rng::new(seed_from_env());
    // outputs are appended history by history, so that they survive a process abort in a later history
    let mut f_trace = std::fs::File::create("trace.txt").unwrap();
    let mut f_cases = std::fs::File::create("c05_cases.txt").unwrap();
    let mut f_viol = std::fs::File::create("rust_viol.txt").unwrap();
    let mut f_logs = std::fs::File::create("history_logs.txt").unwrap();
    let mut nviol = 0usize;
    let mut stats = BTreeMap::<String, u64>::new();
    let mut sigs = BTreeSet::new();
    let mut round_sigs = BTreeSet::new();
    let mut states = 0usize;
    let mut max_regions = 0u64;
    let (mut rounds, mut nontrivial) = (0u64, 0u64);
    for hist in 0..n {
        let r = master.fork(hist as u64);
        if only.is_some() && only != Some(hist) {
            continue;
        }
        let cfg = CONFIGS[hist % CONFIGS.len()];
        progress(&format!("history {hist} config {cfg:?}:"));
        let mut g = Gen::new(r, World::create(cfg.0, cfg.1), hist);
        writeln!(g.trace, "H {hist} page={} region_pages={}", cfg.0, cfg.1).unwrap();
        let res = catch(|| run_history(&mut g, steps));
        if let Err(msg) = res {
            let last = g.log.last().cloned().unwrap_or_default();
            g.viol.push(format!("h{} s{}: engine panicked after `{}`: {}", hist, g.step, last, msg.chars().take(300).collect::<String>()));
            g.dead = true;
        }
        states += g.step;
        {
            use std::io::Write;
            f_trace.write_all(g.trace.as_bytes()).unwrap();
            f_cases.write_all(g.cases.as_bytes()).unwrap();
            for v in &g.viol {
                writeln!(f_viol, "{}", v.replace('\n', " ")).unwrap();
                nviol += 1;
            }
            if !g.viol.is_empty() || only.is_some() {
                let mut logs = String::new();
                writeln!(logs, "history {hist} config {cfg:?}:").unwrap();
                for (i, l) in g.log.iter().enumerate() {
                    writeln!(logs, "  {}: {l}", i + 1).unwrap();
                }
                f_logs.write_all(logs.as_bytes()).unwrap();
            }
        }
        for (k, v) in g.stats {
            *stats.entry(k).or_default() += v;
        }
        sigs.extend(g.sigs);
        round_sigs.extend(g.round_sigs);
        rounds += g.rounds;
        nontrivial += g.nontrivial_rounds;
        max_regions = max_regions.max(g.max_regions_touched);
        if g.dead {
            std::mem::forget(g.w);
        } else {
            g.w.wtx.take().map(|t| t.abort());
            g.w.pins.clear();
        }
    }
    if only.is_none() {
        // mode C: a transaction abandoned by a panic unwinding through it, whatever is abandoned next, a close and a
        // reopen: the storage it consumed must be back (the property's "no storage space remains consumed")
        let mut v = vec![];
        let k = leak_latch_scenarios(&mut master.fork(9_000_000), &mut v);
        *stats.entry("leak_latch_scenarios".into()).or_default() += k;
        use std::io::Write;
        for l in &v {
            writeln!(f_viol, "{}", l.replace('\n', " ")).unwrap();
            nviol += 1;
        }
    }
    let mut st = String::new();
    for (k, v) in &stats {
        write!(st, "{k}={v} ").unwrap();
    }
    println!(
        "histories={n} states={states} distinct_situations={} max_regions_in_use={max_regions} rust_violations={} plateau=[]",
        sigs.len(), nviol
    );
    println!("ops: {st}");
    println!("c05: abandoned_rounds={rounds} nontrivial_rounds={nontrivial} distinct_nontrivial_rounds={}", round_sigs.len());
}

/// mode C. Returns the number of scenarios run; failures are appended to `viol` (format of rust_viol.txt).
fn leak_latch_scenarios(r: &mut Rng, viol: &mut Vec<String>) -> u64 {
    const T: TableDefinition<u64, &[u8]> = TableDefinition::new("leak");
    let mut n = 0;
    for variant in 0..5u64 {
        for page in [512usize, 4096] {
            n += 1;
            let label = ["nothing else", "an ordinary transaction aborted", "an ordinary transaction dropped", "a poisoned transaction whose commit is refused", "an ordinary transaction committed and undone"][variant as usize];
            let be = RecBackend::new();
            let open = |be: &RecBackend| -> Database {
                let mut b = Database::builder();
                b.verif_set_page_size(page);
                b.create_with_backend(be.handle()).expect("open")
            };
            let pages = |db: &Database| -> u64 {
                for _ in 0..3 {
                    let t = db.begin_write().unwrap();
                    t.commit().unwrap();
                }
                let t = db.begin_write().unwrap();
                let a = t.stats().unwrap().allocated_pages();
                t.abort().unwrap();
                a
            };
            let res = catch(|| -> Result<(u64, u64), String> {
                let db = open(&be);
                {
                    let t = db.begin_write().map_err(|e| e.to_string())?;
                    {
                        let mut tab = t.open_table(T).map_err(|e| e.to_string())?;
                        for k in 0..10u64 {
                            tab.insert(k, vec![1u8; 20].as_slice()).map_err(|e| e.to_string())?;
                        }
                    }
                    t.commit().map_err(|e| e.to_string())?;
                }
                let baseline = pages(&db);
                let rows = 150 + r.below(200);
                // abandoned by a panic that unwinds through the live transaction (caught by the application)
                let _ = catch(|| {
                    let t = db.begin_write().unwrap();
                    let mut tab = t.open_table(T).unwrap();
                    for k in 0..rows {
                        tab.insert(1000 + k, vec![7u8; 300].as_slice()).unwrap();
                    }
                    panic!("application panic with a live write transaction");
                });
                match variant {
                    0 => {}
                    1 | 2 => {
                        let t = db.begin_write().map_err(|e| e.to_string())?;
                        {
                            let mut tab = t.open_table(T).map_err(|e| e.to_string())?;
                            tab.insert(5000, vec![2u8; 50].as_slice()).map_err(|e| e.to_string())?;
                        }
                        if variant == 1 { t.abort().map_err(|e| e.to_string())? } else { drop(t) }
                    }
                    3 => {
                        let t = db.begin_write().map_err(|e| e.to_string())?;
                        let _ = catch(|| {
                            let mut tab = t.open_table(T).unwrap();
                            let mut seen = 0;
                            let _ = tab.retain(|_, _| {
                                seen += 1;
                                if seen > 3 {
                                    panic!("predicate panic");
                                }
                                true
                            });
                        });
                        if t.commit().is_ok() {
                            return Err("commit of the poisoned transaction returned Ok".into());
                        }
                    }
                    _ => {
                        let t = db.begin_write().map_err(|e| e.to_string())?;
                        { let mut tab = t.open_table(T).map_err(|e| e.to_string())?; tab.insert(6000, vec![3u8; 10].as_slice()).map_err(|e| e.to_string())?; }
                        t.commit().map_err(|e| e.to_string())?;
                        let t = db.begin_write().map_err(|e| e.to_string())?;
                        { let mut tab = t.open_table(T).map_err(|e| e.to_string())?; tab.remove(6000).map_err(|e| e.to_string())?; }
                        t.commit().map_err(|e| e.to_string())?;
                    }
                }
                drop(db);
                let db = open(&be);
                let after = pages(&db);
                Ok((baseline, after))
            });
            match res {
                Ok(Ok((b, a))) if a == b => {}
                Ok(Ok((b, a))) => viol.push(format!("h9000000 leak-latch scenario (page {page}): after a write transaction abandoned by a caught panic, then {label}, a close and a reopen, {a} pages are allocated, {b} at baseline: the abandoned work still consumes storage")),
                Ok(Err(e)) => viol.push(format!("h9000000 leak-latch scenario (page {page}, then {label}): {e}")),
                Err(p) => viol.push(format!("h9000000 leak-latch scenario (page {page}, then {label}): engine panicked: {}", p.chars().take(200).collect::<String>())),
            }
        }
    }
    n
}

// ====================================================================================== mode B: fault points

/// mode B opens the database with (almost) no page cache, so that the reads and the write-back of the
/// transaction body reach the storage backend, where the faults are injected
fn open_small_cache(w: &mut World) {
    let mut b = Database::builder();
    b.verif_set_page_size(w.page_size);
    if w.region_pages > 0 {
        b.verif_set_region_size(w.region_pages * w.page_size as u64);
    }
    b.set_cache_size(2 * w.page_size);
    let db = b.create_with_backend(w.backend.handle()).expect("open");
    w.db = Some(db);
}

struct FaultOut {
    fired: bool,
    calls_in_txn: u64,
    log: Vec<String>,
    clines: Vec<String>,
    viol: Vec<String>,
    trace: String,
    endres: &'static str,
    end: EndKind,
    poisoned: bool,
    latched: bool,
    stats: BTreeMap<String, u64>,
}

/// run body `bseed` on a database opened from `image`; `fail` = (k, from?) : the k-th backend call after
/// begin_write fails
fn run_faulted(image: &[u8], cfg: (usize, u64), bseed: u64, body: usize, fail: Option<(u64, bool)>, d0: &Logical, psp0: &[u64], tag: &str) -> FaultOut {
    progress(&format!("run {tag} (body {body}, fail {fail:?}):"));
    let backend = RecBackend::with_data(image.to_vec());
    backend.0.lock().unwrap().record = false;
    let mut w = World {
        backend,
        page_size: cfg.0,
        region_pages: cfg.1,
        db: None,
        wtx: None,
        pins: vec![],
        next_handle: 1,
        dur_content: (u64::MAX, vec![]),
        rust_violations: vec![],
    };
    open_small_cache(&mut w);
    let mut g = Gen::new(Rng::new(bseed), w, body);
    g.blind = true;
    let mut out = FaultOut {
        fired: false,
        calls_in_txn: 0,
        log: vec![],
        clines: vec![],
        viol: vec![],
        trace: String::new(),
        endres: "-",
        end: EndKind::Abort,
        poisoned: false,
        latched: false,
        stats: Default::default(),
    };
    // persistent savepoints of the image are pins of the world (restore / delete candidates)
    for id in psp0 {
        g.w.pins.push(Pin { handle: World::handle_of_savepoint(*id), kind: PinKind::Pers(*id), txn: 0, root: None, pages: vec![], content: vec![], valid: true });
    }
    let res = catch(|| {
        if !g.begin_write() {
            return;
        }
        let base = g.w.backend.calls();
        if let Some((k, from)) = fail {
            g.w.backend.set_fail(if from { FailMode::From(base + k) } else { FailMode::Once(base + k) });
        }
        g.in_body = true;
        let nops = g.r.range(2, 8);
        // one ephemeral savepoint taken first in some bodies, so that restores have a target
        if g.r.chance(1, 3) {
            let before = g.w.wtx.as_ref().unwrap().verif_snapshot();
            let o = g.op_savepoint(false);
            g.finish_call(before, o);
        }
        for _ in 0..nops {
            g.body_call(false);
            if g.dead {
                break;
            }
        }
        g.in_body = false;
        let fired_in_body = fail.map(|(k, _)| g.w.backend.calls() > base + k).unwrap_or(false);
        let snap = g.w.wtx.as_ref().unwrap().verif_snapshot();
        out.poisoned = snap.poisoned;
        out.latched = snap.db.mem.storage_failure;
        // commit() is tried only when the property forbids it to succeed: some call failed after mutating the
        // transaction, the transaction is poisoned, or the storage layer is latched.  (A backend failure that
        // no call surfaced and that left no latch would not make a commit illegitimate.)
        let blocked = snap.poisoned || snap.db.mem.storage_failure || g.half;
        if fired_in_body && !blocked {
            g.count("note_fault_fired_but_nothing_failed");
        }
        let end = if blocked {
            *g.r.pick(&[EndKind::PoisonedCommit, EndKind::Abort, EndKind::Drop])
        } else {
            *g.r.pick(&[EndKind::Abort, EndKind::Drop])
        };
        out.end = end;
        if !g.dead {
            out.endres = match end {
                EndKind::Abort => g.abort(false),
                EndKind::Drop => g.abort(true),
                EndKind::PoisonedCommit => g.failed_commit(),
            };
        }
        out.calls_in_txn = g.w.backend.calls() - base;
        out.fired = fail.map(|(k, _)| g.w.backend.calls() > base + k).unwrap_or(false);
        if fired_in_body && end == EndKind::PoisonedCommit && out.endres == "ok" {
            // failed_commit already recorded the violation
        }
    });
    if let Err(p) = res {
        g.viol.push(format!("{tag}: panic outside the caught calls: {p}"));
    }
    g.w.backend.set_fail(FailMode::Never);
    // drop everything that belongs to the session, then reopen from the surviving storage
    let _ = catch(|| {
        if let Some(t) = g.w.wtx.take() {
            drop(t);
        }
    });
    g.w.pins.retain(|p| p.persistent());
    let _ = catch(|| {
        let db = g.w.db.take();
        drop(db);
    });
    let reopened = catch(|| open_small_cache(&mut g.w));
    if let Err(p) = reopened {
        g.viol.push(format!("C05: reopen after the fault panicked: {p}"));
    } else {
        g.blind = false;
        g.half = false;
        writeln!(g.trace, "H {tag} page={} region_pages={}", cfg.0, cfg.1).unwrap();
        // harness pins: persistent savepoints only; re-derive them from the reopened database
        g.adopt_persistent_pins();
        g.after("reopen_after_fault", Kind::Opaque);
        if !g.dead {
            let psp1 = g.last_psp.clone();
            if fail.is_none() || out.fired {
                if psp1 != psp0 {
                    g.viol.push(format!("C05: persistent savepoints after the abandoned transaction and reopen {psp1:?}, before {psp0:?}"));
                }
                match dump(g.w.db()) {
                    Ok(d1) => {
                        if &d1 != d0 {
                            g.viol.push(format!(
                                "C05: contents after the failed transaction and reopen differ from the contents before it: {}",
                                describe_diff(d0, &d1)
                            ));
                        }
                    }
                    Err(e) => g.viol.push(format!("C05: after the failed transaction and reopen: {e}")),
                }
            }
            // the database is usable again
            let r = catch(|| -> Result<(), redb::Error> {
                let t = g.w.db().begin_write()?;
                {
                    let mut tab = t.open_table(tdef("t0"))?;
                    tab.insert(1u64 << 41, [7u8; 3].as_slice())?;
                }
                t.commit()?;
                Ok(())
            });
            match r {
                Ok(Ok(())) => {}
                other => g.viol.push(format!("C05: a new transaction after the failed one and reopen does not commit: {other:?}")),
            }
        }
    }
    out.log = g.log.clone();
    out.clines = g.body_clines.clone();
    out.viol.extend(g.viol.iter().map(|v| format!("{tag}: {v}")));
    out.trace = std::mem::take(&mut g.trace);
    out.stats = std::mem::take(&mut g.stats);
    out
}

fn main_faults(args: &[String]) {
    let n: usize = args.get(2).map(|s| s.parse().unwrap()).unwrap_or(6);
    let samples: u64 = args.get(3).map(|s| s.parse().unwrap()).unwrap_or(12);
    let only: Option<usize> = if args.get(4).map(|s| s.as_str()) == Some("only") { Some(args[5].parse().unwrap()) } else { None };
    let mut master = Rng::new(seed_from_env() ^ 0xC05F);
    // outputs are appended body by body, so that they survive a process abort in a later run
    let f_trace = std::cell::RefCell::new(std::fs::File::create("ftrace.txt").unwrap());
    let f_cases = std::cell::RefCell::new(std::fs::File::create("fcases.txt").unwrap());
    let f_viol = std::cell::RefCell::new(std::fs::File::create("fault_viol.txt").unwrap());
    let f_logs = std::cell::RefCell::new(std::fs::File::create("fault_logs.txt").unwrap());
    let mut nviol = 0usize;
    let flush_out = |trace: &mut String, cases: &mut String, viol: &mut Vec<String>, logs: &mut String, nviol: &mut usize| {
        use std::io::Write;
        f_trace.borrow_mut().write_all(trace.as_bytes()).unwrap();
        f_cases.borrow_mut().write_all(cases.as_bytes()).unwrap();
        for v in viol.iter() {
            writeln!(f_viol.borrow_mut(), "{}", v.replace('\n', " ")).unwrap();
            *nviol += 1;
        }
        f_logs.borrow_mut().write_all(logs.as_bytes()).unwrap();
        trace.clear();
        cases.clear();
        viol.clear();
        logs.clear();
    };
    let mut trace = String::new();
    let mut cases = String::new();
    let mut viol: Vec<String> = vec![];
    let mut logs = String::new();
    let mut stats = BTreeMap::<String, u64>::new();
    let (mut runs, mut fired, mut total_calls) = (0u64, 0u64, 0u64);
    let mut ends = BTreeMap::<String, u64>::new();
    let mut sigs = BTreeSet::new();
    for body in 0..n {
        let mut r = master.fork(body as u64);
        if only.is_some() && only != Some(body) {
            continue;
        }
        flush_out(&mut trace, &mut cases, &mut viol, &mut logs, &mut nviol);
        let cfg = CONFIGS[body % CONFIGS.len()];
        // ---- the preceding history, ended by a durable commit and a clean close
        progress(&format!("body {body} config {cfg:?}: preceding history"));
        let mut g = Gen::new(r.fork(1), World::create(cfg.0, cfg.1), body);
        g.blind = true;
        let pre_steps = r.range(8, 30);
        let res = catch(|| {
            for _ in 0..pre_steps {
                if g.dead {
                    break;
                }
                g.step_once();
            }
            if g.w.wtx.is_some() {
                if g.w.wtx.as_ref().unwrap().verif_snapshot().poisoned {
                    g.abort(false);
                } else {
                    g.commit();
                }
            }
            while !g.dead && g.w.pins.iter().any(|p| !p.persistent()) {
                g.drop_pin();
            }
            if !g.dead && g.begin_write() {
                {
                    let t = g.w.wtx.as_ref().unwrap();
                    let mut tab = t.open_table(tdef("t0")).unwrap();
                    for k in 0..30u64 {
                        tab.insert(k * 5, vec![k as u8; 60].as_slice()).unwrap();
                    }
                }
                g.commit();
            }
        });
        if res.is_err() || g.dead {
            viol.push(format!("b{body}: the preceding history failed: {:?} {:?}", res.err(), g.viol));
            std::mem::forget(g.w);
            continue;
        }
        let d0 = match dump(g.w.db()) {
            Ok(d) => d,
            Err(e) => {
                viol.push(format!("b{body}: {e}"));
                continue;
            }
        };
        g.blind = false;
        let psp0: Vec<u64> = match g.w.observe() {
            Ok(o) => o.lat_reach.persistent_savepoints.iter().map(|s| s.id).collect(),
            Err(e) => {
                viol.push(format!("b{body}: {e}"));
                continue;
            }
        };
        g.w.pins.clear();
        drop(g.w.db.take());
        let image = g.w.backend.snapshot();
        let bseed = r.next_u64();
        // ---- count run (no fault): also an abandoned transaction followed by a reopen
        let base = run_faulted(&image, cfg, bseed, body, None, &d0, &psp0, &format!("b{body}.count"));
        viol.extend(base.viol.iter().cloned());
        trace.push_str(&base.trace);
        let ncalls = base.calls_in_txn;
        total_calls += ncalls;
        writeln!(logs, "body {body} config {cfg:?} backend calls inside the transaction (fault-free) {ncalls}:").unwrap();
        for (i, l) in base.log.iter().enumerate() {
            writeln!(logs, "  {}: {l}", i + 1).unwrap();
        }
        // ---- fault runs
        let mut ks: Vec<u64> = vec![];
        if samples == 0 || ncalls <= samples {
            ks.extend(0..ncalls);
        } else {
            for i in 0..samples {
                let lo = i * ncalls / samples;
                let hi = ((i + 1) * ncalls / samples).max(lo + 1);
                ks.push(lo + r.below(hi - lo));
            }
        }
        for k in ks {
            for from in [false, true] {
                if from && samples != 0 && r.chance(1, 2) {
                    continue;
                }
                let tag = format!("b{body}.k{k}{}", if from { "+" } else { "" });
                let o = run_faulted(&image, cfg, bseed, body, Some((k, from)), &d0, &psp0, &tag);
                runs += 1;
                if o.fired {
                    fired += 1;
                }
                *ends.entry(format!("{:?}:{}", o.end, o.endres)).or_default() += 1;
                sigs.insert(format!("{:?}/{}/{}/{}/{:?}", o.end, o.endres, o.poisoned, from, o.clines.iter().map(|c| c.split(' ').take(4).collect::<Vec<_>>().join(" ")).collect::<BTreeSet<_>>()));
                writeln!(cases, "R {tag} poisoned={} end={:?}", u8::from(o.poisoned), o.end).unwrap();
                for c in &o.clines {
                    writeln!(cases, "{c}").unwrap();
                }
                writeln!(cases, "E {} {} {} {}", match o.end { EndKind::Abort => "abort", EndKind::Drop => "drop", EndKind::PoisonedCommit => "commit" }, u8::from(o.poisoned), u8::from(o.latched), o.endres).unwrap();
                if !o.viol.is_empty() {
                    writeln!(logs, "run {tag}:").unwrap();
                    for (i, l) in o.log.iter().enumerate() {
                        writeln!(logs, "  {}: {l}", i + 1).unwrap();
                    }
                }
                viol.extend(o.viol.iter().cloned());
                trace.push_str(&o.trace);
                for (k, v) in o.stats {
                    *stats.entry(k).or_default() += v;
                }
            }
        }
    }
    flush_out(&mut trace, &mut cases, &mut viol, &mut logs, &mut nviol);
    let mut st = String::new();
    for (k, v) in &stats {
        write!(st, "{k}={v} ").unwrap();
    }
    let mut es = String::new();
    for (k, v) in &ends {
        write!(es, "{k}={v} ").unwrap();
    }
    println!("faults: bodies={n} runs={runs} fired={fired} backend_calls_in_bodies={total_calls} distinct_fault_situations={} violations={}", sigs.len(), nviol);
    println!("fault_ends: {es}");
    println!("fault_ops: {st}");
}

fn main() {
    if std::env::var("VERIF_SHOW_PANICS").is_err() {
        silence_panics();
    }
    let args: Vec<String> = std::env::args().collect();
    if args.get(1).map(|s| s.as_str()) == Some("faults") {
        progress_open("fault_progress.txt");
        main_faults(&args);
    } else {
        progress_open("progress.txt");
        main_histories(&args);
    }
}
