//! C11 harness: every way of stopping a database (clean close; crash images at API boundaries and in
//! the middle of a commit under each commit strategy, built from the recorded storage op stream by
//! dropping subsets of the unsynced writes) followed by every open path, on the REAL crate.
//!
//! usage: c11 <n_histories> <god_off> <slot0_off> <slot1_off> <txid_off> <cksum_off> <user_root_off> <system_root_off> [only]
//!        (the offsets come from coq/Gen/Consts.v, i.e. from the Rust sources of the checked tree)
//! writes into the cwd
//!   cases.txt   one abstract image per open (input of the extracted Coq model `open`, ocaml/c11_driver.ml)
//!   impl.txt    what the implementation did with that image (path taken, transaction id served)
//!   viol.txt    direct-oracle findings: allocated != required after an open, contents not those of a
//!               commit point, check_integrity not Ok(true) on a healthy database, a snapshot trusted
//!               although it does not belong to the commit being opened, damage by later transactions
//!   stats.txt   input distribution
#[path = "../rvdb.rs"]
mod rvdb;

use redb::Database;
use redb::verif::{VPage, VRoot};
use rv_harness::backend::{Op, RecBackend};
use rv_harness::{Rng, catch, seed_from_env, silence_panics, tier_is_thorough};
use rvdb::*;
use std::collections::BTreeMap;
use std::fmt::Write as _;

#[derive(Clone, Copy)]
struct Offs {
    god: usize,
    slot: [usize; 2],
    txid: usize,
    cksum: usize,
    user_root: usize,
    system_root: usize,
}

#[derive(Clone, Debug)]
struct SlotFacts {
    txid: u64,
    cksum_ok: bool,
    data_root: Option<[u8; 32]>,
    system_root: Option<[u8; 32]>,
    tree_ok: bool,
    snap: Option<u64>,
}

#[derive(Clone, Debug)]
struct ImgFacts {
    primary: u8,
    rr: bool,
    tpc: bool,
    slots: [SlotFacts; 2],
}

fn parse_image(img: &[u8], o: &Offs) -> Option<ImgFacts> {
    if img.len() < 320 || &img[..9] != b"redb\x1A\x0A\xA9\x0D\x0A" {
        return None;
    }
    let g = img[o.god];
    let slot = |k: usize| {
        let b = &img[o.slot[k]..o.slot[k] + 128];
        let stored = u128::from_le_bytes(b[o.cksum..o.cksum + 16].try_into().unwrap());
        let root = |nonnull: u8, off: usize| -> Option<[u8; 32]> {
            if nonnull != 0 { Some(b[off..off + 32].try_into().unwrap()) } else { None }
        };
        SlotFacts {
            txid: u64::from_le_bytes(b[o.txid..o.txid + 8].try_into().unwrap()),
            cksum_ok: redb::verif::xxh3_128(&b[..o.cksum]) == stored,
            data_root: root(b[1], o.user_root),
            system_root: root(b[2], o.system_root),
            tree_ok: false,
            snap: None,
        }
    };
    Some(ImgFacts { primary: g & 1, rr: g & 2 != 0, tpc: g & 4 != 0, slots: [slot(0), slot(1)] })
}

fn vroot(b: &[u8; 32]) -> VRoot {
    let (region, index, order) = redb::verif::page_number_from_le_bytes(b[..8].try_into().unwrap());
    VRoot {
        root: VPage { region, index, order },
        checksum: u128::from_le_bytes(b[8..24].try_into().unwrap()),
        length: u64::from_le_bytes(b[24..32].try_into().unwrap()),
    }
}

/// tree_ok / snap of both pre-open slots, evaluated with redb's own verifier and walkers on the opened database
/// (the open does not rewrite tree pages; a slot whose pages were reused simply fails to verify)
fn fill_tree_facts(db: &Database, f: &mut ImgFacts) {
    for k in 0..2 {
        let s = &mut f.slots[k];
        if !s.cksum_ok {
            continue;
        }
        let (dr, sr) = (s.data_root, s.system_root);
        let ok = matches!(catch(|| db.verif_c01_walk(dr, sr)), Ok(Ok((true, _))));
        s.tree_ok = ok;
        if ok {
            if let Ok(Ok(r)) = catch(|| db.verif_reach(dr.as_ref().map(vroot), sr.as_ref().map(vroot))) {
                s.snap = r.allocator_state_transaction_id;
            }
        }
    }
}

fn case_line(f: &ImgFacts) -> String {
    let sl = |s: &SlotFacts| {
        format!(
            "{},{},{},{}",
            s.txid,
            u8::from(s.cksum_ok),
            u8::from(s.tree_ok),
            s.snap.map(|x| x.to_string()).unwrap_or_else(|| "-".into())
        )
    };
    format!("open p={} rr={} tpc={} s0={} s1={}", f.primary, u8::from(f.rr), u8::from(f.tpc), sl(&f.slots[0]), sl(&f.slots[1]))
}

/// histories below this index hand up to two opened images each to the independent decoder
fn fmt_histories() -> u64 {
    if tier_is_thorough() { 30 } else { 3 }
}

/// index of the directed scenario (runs in every batch, after the random histories)
const DIRECTED: u64 = 1_000_000;
/// directed history with more than 256 regions (512-byte pages, 16-page regions, a few megabytes of data): region
/// numbers above 255 exist, so that anything ordering or indexing regions by their encoded bytes shows
const DIRECTED_MANY_REGIONS: u64 = 1_000_001;
/// directed history: a multi-region file (512-byte pages, 16 KiB regions) whose snapshot-writing commit (clean close;
/// quick-repair commit) gives a trailing region back, reopened through the snapshot, then filled far beyond its size
/// again (the allocator has to look past the existing regions and grow the file)
const DIRECTED_TRIM_REFILL: u64 = 1_000_002;
/// directed: a commit that truncates the file, crashed right after its set_len
const DIRECTED_SHRINK_CRASH: u64 = 1_000_003;

#[derive(Clone, Copy, PartialEq, Eq, Debug)]
enum Kind {
    OnePc,
    TwoPc,
    Qr,
}

struct H {
    idx: u64,
    cfg: Cfg,
    offs: Offs,
    r: Rng,
    db: Option<Database>,
    backend: RecBackend,
    log: CrashLog,
    spec_latest: Contents,
    spec_durable: Contents,
    healthy: bool,
    pre_open_image: Option<Vec<u8>>,
    fmt_samples: u32,
    pending_nd: bool,
    len_at_durable: usize,
    cases: String,
    outs: String,
    viol: Vec<String>,
    trace: Vec<String>,
    dead: bool,
    opens: u64,
    m: BTreeMap<String, u64>,
    nontrivial: bool,
    /// the next transactions load a few megabytes (directed many-regions history)
    bulk_pending: u32,
    /// ownership-level correspondence (coq/Reopen/Snapshot.v): events for the extracted model / what the crate did
    xev: String,
    ximpl: String,
    xstarted: bool,
    /// durable transaction id the crate showed at the last event (what a crash image is expected to hold as primary)
    xlast_id: u64,
    /// (inside stop_crash_midcommit the probe is pointless: the history is cut inside that very commit)
    no_probe: bool,
}

impl H {
    fn new(idx: u64, seed: u64, offs: Offs) -> H {
        let mut r = Rng::new(seed ^ 0xC11).fork(idx);
        let cfg = match r.below(4) {
            0 => Cfg { page_size: 512, region_size: Some(512 * 32), cache: 32 * 1024 },
            1 => Cfg { page_size: 512, region_size: Some(512 * 256), cache: 128 * 1024 },
            2 => Cfg { page_size: 1024, region_size: Some(1024 * 64), cache: 64 * 1024 },
            _ => Cfg { page_size: 512, region_size: None, cache: 1024 * 1024 },
        };
        H {
            idx,
            cfg,
            offs,
            r,
            db: None,
            backend: RecBackend::new(),
            log: CrashLog::new(),
            spec_latest: Contents::default(),
            spec_durable: Contents::default(),
            healthy: true,
            pre_open_image: None,
            fmt_samples: 0,
            pending_nd: false,
            len_at_durable: 0,
            cases: String::new(),
            outs: String::new(),
            viol: vec![],
            trace: vec![],
            dead: false,
            opens: 0,
            m: BTreeMap::new(),
            nontrivial: false,
            bulk_pending: 0,
            xev: String::new(),
            ximpl: String::new(),
            xstarted: false,
            xlast_id: 0,
            no_probe: false,
        }
    }

    fn mark(&mut self, k: &str) {
        *self.m.entry(k.to_string()).or_default() += 1;
    }

    /// what the crate's state says about the facts the ownership-level model carries: needs_repair latch,
    /// allocator-state table under the DURABLE system root (its id), two-phase flag, durable transaction id
    fn real_facts(db: &Database) -> Option<(bool, Option<u64>, bool, u64)> {
        let snap = catch(|| db.verif_snapshot()).ok()?;
        let d = snap.mem.durable().clone();
        let r = catch(|| db.verif_reach(d.data_root, d.system_root)).ok()?.ok()?;
        Some((snap.mem.needs_repair, r.allocator_state_transaction_id, snap.mem.header_two_phase_commit, d.transaction_id))
    }

    fn real_line(f: (bool, Option<u64>, bool, u64), path: Option<&str>) -> String {
        format!(
            "x nrep={} snap={} tpc={} id={}{}",
            u8::from(f.0),
            f.1.map(|x| x.to_string()).unwrap_or_else(|| "-".into()),
            u8::from(f.2),
            f.3,
            path.map(|p| format!(" path={p}")).unwrap_or_default()
        )
    }

    /// model state taken from observation (start of a history, stop in the middle of a commit)
    fn xresync(&mut self) {
        let Some(db) = self.db.as_ref() else { return };
        let Some(f) = Self::real_facts(db) else { return };
        self.xstarted = true;
        self.xlast_id = f.3;
        writeln!(self.xev, "x resync id={} snap={} tpc={}", f.3, f.1.map(|x| x.to_string()).unwrap_or_else(|| "-".into()), u8::from(f.2)).unwrap();
        writeln!(self.ximpl, "{}", Self::real_line((false, f.1, f.2, f.3), None)).unwrap();
        self.mark("x_resync");
    }

    /// one event of the recorded history for the extracted model + what the crate's state shows after it
    fn xevent(&mut self, ev: &str, path: Option<&str>) {
        if !self.xstarted {
            self.xresync();
            if !self.xstarted {
                return;
            }
        }
        let Some(db) = self.db.as_ref() else { return };
        let Some(f) = Self::real_facts(db) else { return };
        self.xlast_id = f.3;
        writeln!(self.xev, "x {ev}").unwrap();
        writeln!(self.ximpl, "{}", Self::real_line(f, path)).unwrap();
        self.mark(&format!("x_{}", ev.split(' ').next().unwrap()));
    }

    /// After a quick-repair commit: open a COPY of the file as a new process would after a crash right now.
    /// S2: path taken vs the model's `open_path` of the carried image. S3 (snapshot_exact on the implementation):
    /// what the saved table makes the allocator hold == the pages required by the version that commit published.
    fn probe_snapshot(&mut self) {
        if !self.xstarted {
            return;
        }
        let img = self.backend.snapshot();
        let copy = RecBackend::with_data(img);
        let (db2, fired) = match open_db(copy.handle(), self.cfg) {
            Ok(x) => x,
            Err(e) => {
                self.fail(format!("after a quick-repair commit: a copy of the file does not open: {e}"));
                return;
            }
        };
        let path = if fired > 0 { "rebuild" } else { "load" };
        let r = own_check(&db2);
        let tracker = Self::tracker_phantom(&db2);
        let facts = self.db.as_ref().and_then(Self::real_facts);
        let _ = catch(move || drop(db2));
        if let Some(f) = facts {
            writeln!(self.xev, "x probe").unwrap();
            writeln!(self.ximpl, "{}", Self::real_line(f, Some(path))).unwrap();
            self.mark(&format!("x_probe_{path}"));
        }
        match r {
            Ok(i) => {
                if fired == 0 && i.snapshot_txid != Some(i.durable_txid) {
                    self.fail(format!("after a quick-repair commit: the saved allocator state was loaded although its id {:?} is not the id {} of the commit being opened", i.snapshot_txid, i.durable_txid));
                }
            }
            Err(e) => {
                if fired == 0 {
                    self.fail(format!("SNAPSHOT-NOT-EXACT after a quick-repair commit, opening a copy of the file through the saved allocator state: {e}"));
                } else {
                    self.fail(format!("after a quick-repair commit, opening a copy of the file (rebuild): {e}"));
                }
            }
        }
        if let Some(w) = tracker {
            self.fail(format!("after a quick-repair commit, opening a copy of the file (path {path}): {w}"));
        }
    }

    /// The loaded region tracker must not offer a region that has no allocator (a phantom region is handed to
    /// `get_region_mut` as soon as the existing regions are full). General oracle on every opened / checked database.
    fn tracker_phantom(db: &Database) -> Option<String> {
        let snap = catch(|| db.verif_snapshot()).ok()?;
        if !snap.mem.allocators_loaded || snap.mem.region_tracker_bytes.len() < 4 {
            return None;
        }
        let bytes = snap.mem.region_tracker_bytes.clone();
        let orders = u32::from_le_bytes(bytes[..4].try_into().unwrap());
        let n = snap.mem.regions.len() as u32;
        let r = catch(move || {
            let mut t = redb::verif::VRegionTracker::from_bytes(&bytes);
            // highest order first: mark_full(o, r) also marks the orders above o
            for o in (0..orders.min(64) as u8).rev() {
                let mut guard = 0;
                while let Some(r) = t.find_free(o) {
                    if r >= n {
                        return Some(format!("the region tracker offers region {r} for order {o}, but only {n} region allocator(s) exist"));
                    }
                    t.mark_full(o, r);
                    guard += 1;
                    if guard > 1_000_000 {
                        break;
                    }
                }
            }
            None
        });
        match r {
            Ok(x) => x,
            Err(p) => Some(format!("decoding the region tracker panicked: {p}")),
        }
    }

    fn fail(&mut self, what: String) {
        self.viol.push(format!("{what} || trace: {}", self.trace.join(" ; ")));
        self.dead = true;
    }

    fn absorb(&mut self) {
        let b = self.backend.handle();
        self.log.absorb(&b);
    }

    fn file_len(&self) -> usize {
        self.backend.0.lock().unwrap().data.len()
    }

    fn durable_point(&mut self) {
        self.pending_nd = false;
        self.len_at_durable = self.file_len();
    }

    fn load(&mut self) -> Load {
        if self.bulk_pending > 0 {
            self.bulk_pending -= 1;
            return Load { keys: 6000, ops: 2600, max_val: 2400, big_val_permille: 0, delete_bias: 0 };
        }
        let heavy = self.r.chance(1, 5);
        Load {
            keys: 30 + self.r.below(200),
            ops: if heavy { 30 + self.r.below(60) } else { 3 + self.r.below(20) },
            max_val: 30 + self.r.below(220) as usize,
            big_val_permille: 30,
            delete_bias: if self.r.chance(1, 4) { 7 } else { 2 + self.r.below(3) },
        }
    }

    /// One data transaction. Returns false if the history must stop.
    fn txn(&mut self, force_durable: bool) -> bool {
        let none = !force_durable && self.r.chance(1, 3);
        let kind = *self.r.pick(&[Kind::OnePc, Kind::OnePc, Kind::TwoPc, Kind::Qr]);
        let commit = self.r.chance(9, 10);
        let load = self.load();
        let mut spec = self.spec_latest.clone();
        let db = self.db.as_ref().unwrap();
        let mut t = match catch(|| db.begin_write()) {
            Ok(Ok(t)) => t,
            Ok(Err(e)) => {
                self.fail(format!("begin_write failed: {e}"));
                return false;
            }
            Err(p) => {
                self.fail(format!("begin_write panicked: {p}"));
                return false;
            }
        };
        if none {
            let _ = set_durability(&mut t, true);
        }
        match kind {
            Kind::OnePc => {}
            Kind::TwoPc => t.set_two_phase_commit(true),
            Kind::Qr => t.set_quick_repair(true),
        }
        // occasionally keep a persistent savepoint around / delete them, so that pending-free lists stay populated
        if !none && self.r.chance(1, 12) {
            let _ = catch(|| t.persistent_savepoint());
            self.mark("persistent_savepoint");
        } else if !none && self.r.chance(1, 10) {
            if let Ok(Ok(ids)) = catch(|| t.list_persistent_savepoints().map(|i| i.collect::<Vec<_>>())) {
                for id in ids {
                    let _ = catch(|| t.delete_persistent_savepoint(id));
                }
            }
        }
        let n = 1 + self.r.below(3);
        for _ in 0..n {
            if let Err(e) = mutate(&t, &mut spec, &mut self.r, &load) {
                self.fail(format!("data operation failed or disagreed with the spec map: {e}"));
                return false;
            }
        }
        let label = format!(
            "txn({},{:?},{})",
            if none { "nondurable" } else { "durable" },
            kind,
            if commit { "commit" } else { "abort" }
        );
        self.trace.push(label);
        let res = if commit { catch(move || t.commit().map_err(|e| e.to_string())) } else { catch(move || t.abort().map_err(|e| e.to_string())) };
        match res {
            Ok(Ok(())) => {}
            Ok(Err(e)) => {
                self.fail(format!("commit/abort failed: {e}"));
                return false;
            }
            Err(p) => {
                self.fail(format!("commit/abort panicked: {p}"));
                return false;
            }
        }
        if commit {
            self.spec_latest = spec;
            if !none {
                self.spec_durable = self.spec_latest.clone();
                self.durable_point();
                self.mark(match kind {
                    Kind::OnePc => "commit_1pc",
                    Kind::TwoPc => "commit_2pc",
                    Kind::Qr => "commit_qr",
                });
                let id = self.db.as_ref().and_then(Self::real_facts).map(|f| f.3).unwrap_or(0);
                let k = match kind {
                    Kind::OnePc => "1pc",
                    Kind::TwoPc => "2pc",
                    Kind::Qr => "qr",
                };
                self.xevent(&format!("commit k={k} id={id}"), None);
                if kind == Kind::Qr && !self.no_probe {
                    self.probe_snapshot();
                }
            } else {
                self.pending_nd = true;
                self.mark("commit_nondurable");
            }
        } else {
            self.xevent("abort", None);
        }
        true
    }

    /// A write transaction that is abandoned by a caught panic: its pages leak until the next rebuild.
    fn leak_txn(&mut self) {
        let load = self.load();
        let mut spec = self.spec_latest.clone();
        let db = self.db.as_ref().unwrap();
        let mut r2 = self.r.fork(77);
        let _ = catch(|| {
            let t = db.begin_write().unwrap();
            let _ = mutate(&t, &mut spec, &mut r2, &load);
            panic!("abandon the transaction");
        });
        self.healthy = false;
        self.trace.push("leak_txn".into());
        self.mark("leak_by_caught_panic");
        self.xevent("leak", None);
    }

    fn check_contents(&mut self, what: &str, allowed: &[&Contents]) -> Option<usize> {
        let db = self.db.as_ref().unwrap();
        match dump_db(db) {
            Ok(c) => {
                if let Some(i) = allowed.iter().position(|a| **a == c) {
                    Some(i)
                } else {
                    let d = allowed[0].diff(&c);
                    self.fail(format!(
                        "{what}: contents are not those of an allowed commit point (served {} vs expected {}; first difference: {d})",
                        c.digest(),
                        allowed.iter().map(|a| a.digest()).collect::<Vec<_>>().join(" or ")
                    ));
                    None
                }
            }
            Err(e) => {
                self.fail(format!("{what}: reading the contents failed: {e}"));
                None
            }
        }
    }

    fn integrity(&mut self, what: &str, expect_clean: bool) -> bool {
        // Candidate finding (design.d/C11.md): with no pending non-durable commit, a file length that no
        // commit has published yet (a transaction grew the file and was aborted) makes check_integrity()
        // answer Ok(false) on a healthy database. Reported under its own key, once.
        let unpublished_growth = !self.pending_nd && self.file_len() != self.len_at_durable;
        // Same family, reachable only with tiny regions: a trailing region grown to exactly the full region
        // size is stored as (0 full regions, trailing = max) but recomputed from the file length as
        // (1 full region, no trailing); finalize() then reports the layout as "not matched". Accepted here
        // (either verdict), counted, described in design.d/C11.md.
        let layout_ambiguous = {
            let l = self.db.as_ref().unwrap().verif_snapshot().mem.layout;
            !self.pending_nd && l.trailing_pages == Some(l.full_region_pages)
        };
        // (a durable commit's free-page epilogue also leaves a pending non-durable commit)
        let pending_before = catch(|| self.db.as_ref().unwrap().verif_snapshot().mem.read_from_secondary).unwrap_or(self.pending_nd);
        let db = self.db.as_mut().unwrap();
        let r = catch(|| db.check_integrity());
        self.absorb();
        if let Ok(Ok(b)) = &r {
            self.xcheck_event(pending_before, *b);
        }
        match r {
            Ok(Ok(false)) if expect_clean && unpublished_growth => {
                // the known finding applies only if, in addition, a second call is clean and nothing was lost
                let (len_now, len_then) = (self.file_len(), self.len_at_durable);
                let db = self.db.as_mut().unwrap();
                let pending2 = catch(|| db.verif_snapshot().mem.read_from_secondary).unwrap_or(false);
                let second = catch(|| db.check_integrity());
                self.absorb();
                if let Ok(Ok(b)) = &second {
                    self.xcheck_event(pending2, *b);
                }
                if !matches!(second, Ok(Ok(true))) {
                    self.fail(format!("{what}: check_integrity() returned Ok(false) and the second call did not return Ok(true): {:?}", second.map(|r| r.map_err(|e| e.to_string()))));
                    return false;
                }
                let latest = self.spec_latest.clone();
                if self.check_contents(&format!("{what}, after the spurious Ok(false)"), &[&latest]).is_none() {
                    return false;
                }
                self.viol.push(format!(
                    "KNOWN-CANDIDATE integrity-false-after-unpublished-growth: {what}: check_integrity() returned Ok(false) on a healthy database whose file was grown by an aborted transaction (file length {len_now} vs {len_then} at the last durable commit; second call Ok(true), contents intact) || trace: {}",
                    self.trace.join(" ; ")
                ));
                self.mark("integrity_false_after_unpublished_growth");
                self.spec_durable = self.spec_latest.clone();
                self.healthy = true;
                self.durable_point();
                true
            }
            Ok(Ok(false)) if expect_clean && layout_ambiguous => {
                self.mark("integrity_false_trailing_region_exactly_full");
                self.spec_durable = self.spec_latest.clone();
                self.healthy = true;
                self.durable_point();
                true
            }
            Ok(Ok(b)) => {
                // after an abandoned transaction the verdict may be either: it leaks only if it had allocated pages
                if b != expect_clean && expect_clean {
                    self.fail(format!("{what}: check_integrity() returned Ok({b}), expected Ok({expect_clean})"));
                    return false;
                }
                self.spec_durable = self.spec_latest.clone();
                self.healthy = true;
                self.durable_point();
                true
            }
            Ok(Err(e)) => {
                self.fail(format!("{what}: check_integrity() failed: {e}"));
                false
            }
            Err(p) => {
                self.fail(format!("{what}: check_integrity() panicked: {p}"));
                false
            }
        }
    }

    /// check_integrity as an event of the ownership-level model: either it promoted a pending non-durable commit
    /// (an ordinary one-phase durable commit, recognisable by the cleared two-phase flag) or it rebuilt the
    /// durable state and, when not clean, committed it again under the next id
    fn xcheck_event(&mut self, pending_before: bool, verdict: bool) {
        let f = self.db.as_ref().and_then(Self::real_facts);
        match f {
            Some(f) if pending_before && !f.2 => self.xevent(&format!("promote id={}", f.3), None),
            Some(_) => self.xevent(&format!("check clean={}", u8::from(verdict)), None),
            None => {}
        }
    }

    fn own(&mut self, what: &str) -> Option<OwnInfo> {
        let db = self.db.as_ref().unwrap();
        let tr = Self::tracker_phantom(db);
        match own_check(db) {
            Ok(i) => {
                if let Some(w) = tr {
                    self.fail(format!("{what}: REGION-TRACKER {w}"));
                    return None;
                }
                Some(i)
            }
            Err(e) => {
                self.fail(format!("{what}: {e}"));
                None
            }
        }
    }

    /// Open `img` as a new process and run every C11 oracle on it. `allowed`: the commit points the
    /// image may legitimately recover to.
    fn open_image(&mut self, img: Vec<u8>, stop: &str, allowed: Vec<Contents>) {
        self.trace.push(format!("STOP {stop}"));
        self.opens += 1;
        let Some(mut facts) = parse_image(&img, &self.offs) else {
            self.fail(format!("{stop}: image has no valid magic/header"));
            return;
        };
        self.backend = RecBackend::with_data(img.clone());
        self.pre_open_image = Some(img.clone());
        self.log = CrashLog::from_image(img);
        let (db, fired) = match open_db(self.backend.handle(), self.cfg) {
            Ok(x) => x,
            Err(e) => {
                self.cases.push_str(&format!("{}\n", case_line(&facts)));
                self.outs.push_str(&format!("err {e}\n"));
                self.fail(format!("{stop}: open failed: {e}"));
                return;
            }
        };
        self.db = Some(db);
        self.absorb();
        self.durable_point();
        fill_tree_facts(self.db.as_ref().unwrap(), &mut facts);
        let path = if fired > 0 { "rebuild" } else { "load" };
        if stop.starts_with("clean-close") {
            self.xevent("close", Some(path));
        } else if stop.starts_with("crash-boundary") && facts.slots[facts.primary as usize].txid == self.xlast_id && facts.slots[facts.primary as usize].cksum_ok {
            // the image holds the last durable commit as its primary slot: the case the ownership-level model expresses
            self.xevent("crash", Some(path));
        } else {
            // header in flux (a stop inside a commit, or before the very first commit reached the disk): byte-level model only
            self.xresync();
        }
        self.mark(&format!("open_{path}"));
        self.mark(&format!("stop_{}", stop.split(':').next().unwrap()));
        let what = format!("after {stop} (open path: {path})");
        // S3-a: allocated == required
        let Some(info) = self.own(&what) else { return };
        writeln!(self.cases, "{}", case_line(&facts)).unwrap();
        writeln!(self.outs, "ok path={path} after={}", info.durable_txid).unwrap();
        // a sample of the images goes to the independent decoder (coq/Format, `fmt_driver`): props/c11.py
        // compares ITS required set (reachable + freed lists decoded from these bytes) with the allocator state
        if self.idx < fmt_histories() && self.fmt_samples < 2 && self.r.chance(1, 4) {
            let served = if fired > 0 { info.durable_txid - 1 } else { info.durable_txid };
            let base = format!("fmtimg-{}-{}", self.idx, self.opens);
            if let Some(bytes) = self.pre_open_image.take() {
                std::fs::write(format!("{base}.bin"), bytes).unwrap();
                let mut t = format!("served_txid={served} path={path} stop={stop}\n");
                for (r, i) in &info.allocated_list {
                    t.push_str(&format!("{r}.{i}\n"));
                }
                std::fs::write(format!("{base}.alloc"), t).unwrap();
                self.fmt_samples += 1;
            }
        }
        // S3: the snapshot rule, directly on the bytes
        if fired == 0 {
            let p = &facts.slots[facts.primary as usize];
            if !(facts.tpc && p.snap == Some(p.txid)) {
                self.fail(format!(
                    "{what}: the saved allocator state was trusted although it does not belong to the commit being opened: two_phase_commit={} snapshot_txid={:?} slot_txid={}",
                    facts.tpc, p.snap, p.txid
                ));
                return;
            }
        }
        // S3-b: contents of a commit point
        let refs: Vec<&Contents> = allowed.iter().collect();
        let Some(which) = self.check_contents(&what, &refs) else { return };
        self.spec_latest = allowed[which].clone();
        self.spec_durable = self.spec_latest.clone();
        self.healthy = true;
        if allowed.len() > 1 {
            self.mark(if which == 0 { "midcommit_recovered_old" } else { "midcommit_recovered_new" });
        }
        if info.data_freed + info.system_freed > 0 {
            self.mark("open_with_pending_free");
        }
        if info.regions > 1 {
            self.mark("open_multi_region");
        }
        // S3-c: healthy => check_integrity Ok(true), twice, nothing changes
        for round in 0..2 {
            if !self.integrity(&format!("{what}, check #{round}"), true) {
                return;
            }
            let latest = self.spec_latest.clone();
            if self.check_contents(&format!("{what}, after check #{round}"), &[&latest]).is_none() {
                return;
            }
            if self.own(&format!("{what}, after check #{round}")).is_none() {
                return;
            }
        }
        self.nontrivial = true;
    }

    fn stop_clean(&mut self) {
        let db = self.db.take().unwrap();
        if let Err(p) = catch(move || drop(db)) {
            self.fail(format!("closing panicked: {p}"));
            return;
        }
        self.absorb();
        let img = self.backend.snapshot();
        // A close while the allocator is known to have leaked (abandoned transaction) writes nothing:
        // no snapshot, no commit. Commits made with Durability::None since the last durable commit are
        // then not made durable by the close -- which Durability::None permits.
        let allowed = if self.healthy { vec![self.spec_latest.clone()] } else { vec![self.spec_latest.clone(), self.spec_durable.clone()] };
        let label = if self.healthy { "clean-close" } else { "clean-close:after-leak" };
        self.open_image(img, label, allowed);
    }

    fn discard_process(&mut self) {
        if let Some(db) = self.db.take() {
            let _ = catch(move || drop(db));
        }
    }

    fn stop_crash_boundary(&mut self) {
        self.absorb();
        let (img, label) = match self.r.below(4) {
            0 => (self.log.image_all(), "all".to_string()),
            1 => (self.log.image_none(), "none".to_string()),
            _ => self.log.image_random(&mut self.r, self.cfg.page_size as u64),
        };
        self.discard_process();
        let allowed = vec![self.spec_durable.clone()];
        self.open_image(img, &format!("crash-boundary:{label}"), allowed);
    }

    /// Run one durable commit, then crash somewhere inside its storage op stream.
    fn stop_crash_midcommit(&mut self) {
        self.absorb();
        let before_log = self.log.clone();
        let before = self.spec_durable.clone();
        self.no_probe = true;
        let ok = self.txn(true);
        self.no_probe = false;
        if !ok {
            return;
        }
        let after = self.spec_durable.clone();
        let ops: Vec<Op> = self.backend.take_ops();
        if ops.is_empty() {
            // (an aborted transaction may issue no storage operation at all)
            self.stop_crash_boundary();
            return;
        }
        let mut log = before_log;
        let cut = self.r.below(ops.len() as u64 + 1) as usize;
        // favour cuts right around the syncs, header writes and length changes (a truncation or extension that
        // is on the medium while the writes around it are not)
        let interesting: Vec<usize> = ops
            .iter()
            .enumerate()
            .filter(|(_, o)| matches!(o, Op::Sync | Op::SetLen(_)) || matches!(o, Op::Write { off, .. } if *off == 0))
            .map(|(i, _)| i)
            .collect();
        let cut = if !interesting.is_empty() && self.r.chance(2, 3) {
            let c = *self.r.pick(&interesting);
            (c + self.r.below(2) as usize).min(ops.len())
        } else {
            cut
        };
        for o in &ops[..cut] {
            log.feed(o.clone());
        }
        let (img, label) = match self.r.below(4) {
            0 => (log.image_all(), "all".to_string()),
            1 => (log.image_none(), "none".to_string()),
            _ => log.image_random(&mut self.r, self.cfg.page_size as u64),
        };
        self.discard_process();
        self.open_image(img, &format!("crash-midcommit:cut{cut}/{}:{label}", ops.len()), vec![before, after]);
    }

    /// Directed scenario for the known finding `c11-integrity-false-after-unpublished-growth`, so that
    /// its KNOWN-FINDING line does not depend on the seed: commit a little, grow the file inside a
    /// transaction, abort it, call check_integrity() on the (healthy) database.
    fn run_directed_unpublished_growth(&mut self) {
        self.cfg = Cfg { page_size: 4096, region_size: None, cache: 1024 * 1024 };
        match open_db(self.backend.handle(), self.cfg) {
            Ok((db, _)) => self.db = Some(db),
            Err(e) => {
                self.fail(format!("create failed: {e}"));
                return;
            }
        }
        self.absorb();
        self.durable_point();
        self.xresync();
        let small = Load { keys: 20, ops: 10, max_val: 50, big_val_permille: 0, delete_bias: 0 };
        let mut spec = self.spec_latest.clone();
        let r = {
            let db = self.db.as_ref().unwrap();
            catch(|| {
                let t = db.begin_write().map_err(|e| e.to_string())?;
                mutate(&t, &mut spec, &mut self.r, &small)?;
                t.commit().map_err(|e| e.to_string())
            })
        };
        if !matches!(r, Ok(Ok(()))) {
            self.fail(format!("directed scenario: first commit failed: {r:?}"));
            return;
        }
        self.spec_latest = spec;
        self.spec_durable = self.spec_latest.clone();
        self.durable_point();
        self.trace.push("directed: txn(durable,commit)".into());
        let id = self.db.as_ref().and_then(Self::real_facts).map(|f| f.3).unwrap_or(0);
        self.xevent(&format!("commit k=1pc id={id}"), None);
        let before = self.file_len();
        let r = {
            let db = self.db.as_ref().unwrap();
            catch(|| {
                let t = db.begin_write().map_err(|e| e.to_string())?;
                {
                    let mut tab = t.open_table(TA).map_err(|e| e.to_string())?;
                    let v = vec![7u8; 1000];
                    for k in 0..3000u64 {
                        tab.insert(&(1_000_000 + k), v.as_slice()).map_err(|e| e.to_string())?;
                    }
                }
                t.abort().map_err(|e| e.to_string())
            })
        };
        if !matches!(r, Ok(Ok(()))) {
            self.fail(format!("directed scenario: the growing transaction failed: {r:?}"));
            return;
        }
        self.trace.push(format!("directed: txn(durable, 3000 x 1000 bytes, abort) file {before} -> {}", self.file_len()));
        self.xevent("abort", None);
        if self.file_len() <= before {
            self.fail("directed scenario: the aborted transaction did not grow the file".into());
            return;
        }
        self.integrity("directed scenario (aborted growth, then check_integrity)", true);
        if !self.dead {
            let latest = self.spec_latest.clone();
            self.check_contents("directed scenario, at the end", &[&latest]);
        }
        self.discard_process();
    }

    /// insert `keys` (700-byte values) into table "a" in one durable transaction, spec kept in step
    fn direct_insert(&mut self, keys: std::ops::Range<u64>, qr: bool) -> bool {
        let mut spec = self.spec_latest.clone();
        let label = format!("directed: insert {}..{} qr={qr}", keys.start, keys.end);
        let r = {
            let db = self.db.as_ref().unwrap();
            let m = spec.normal.entry("a".to_string()).or_default();
            catch(|| {
                let mut t = db.begin_write().map_err(|e| e.to_string())?;
                t.set_quick_repair(qr);
                {
                    let mut tab = t.open_table(TA).map_err(|e| e.to_string())?;
                    for k in keys {
                        let mut v = vec![(k % 251) as u8; 700];
                        v[..8].copy_from_slice(&k.to_le_bytes());
                        tab.insert(&k, v.as_slice()).map_err(|e| e.to_string())?;
                        m.insert(k, v);
                    }
                }
                t.commit().map_err(|e| e.to_string())
            })
        };
        self.absorb();
        self.trace.push(label.clone());
        match r {
            Ok(Ok(())) => {
                self.spec_latest = spec;
                self.spec_durable = self.spec_latest.clone();
                self.durable_point();
                let id = self.db.as_ref().and_then(Self::real_facts).map(|f| f.3).unwrap_or(0);
                self.xevent(&format!("commit k={} id={id}", if qr { "qr" } else { "1pc" }), None);
                if qr {
                    self.probe_snapshot();
                }
                !self.dead
            }
            Ok(Err(e)) => {
                self.fail(format!("{label}: failed: {e}"));
                false
            }
            Err(p) => {
                self.fail(format!("{label}: panicked: {p}"));
                false
            }
        }
    }

    /// one durable 1PC transaction on table "a": insert `ins` (700-byte values), remove `del`; spec kept in step;
    /// returns the storage operations the transaction issued (already fed into the crash log)
    fn direct_txn_ops(&mut self, ins: std::ops::Range<u64>, del: std::ops::Range<u64>) -> Option<Vec<Op>> {
        self.absorb();
        let mut spec = self.spec_latest.clone();
        let label = format!("directed: insert {}..{} remove {}..{}", ins.start, ins.end, del.start, del.end);
        let r = {
            let db = self.db.as_ref().unwrap();
            let m = spec.normal.entry("a".to_string()).or_default();
            catch(|| {
                let t = db.begin_write().map_err(|e| e.to_string())?;
                {
                    let mut tab = t.open_table(TA).map_err(|e| e.to_string())?;
                    for k in ins {
                        let mut v = vec![(k % 251) as u8; 700];
                        v[..8].copy_from_slice(&k.to_le_bytes());
                        tab.insert(&k, v.as_slice()).map_err(|e| e.to_string())?;
                        m.insert(k, v);
                    }
                    for k in del {
                        tab.remove(&k).map_err(|e| e.to_string())?;
                        m.remove(&k);
                    }
                }
                t.commit().map_err(|e| e.to_string())
            })
        };
        let ops: Vec<Op> = self.backend.take_ops();
        for o in &ops {
            self.log.feed(o.clone());
        }
        self.trace.push(label.clone());
        match r {
            Ok(Ok(())) => {
                self.spec_latest = spec;
                self.spec_durable = self.spec_latest.clone();
                self.durable_point();
                let id = self.db.as_ref().and_then(Self::real_facts).map(|f| f.3).unwrap_or(0);
                self.xevent(&format!("commit k=1pc id={id}"), None);
                if self.dead { None } else { Some(ops) }
            }
            Ok(Err(e)) => {
                self.fail(format!("{label}: failed: {e}"));
                None
            }
            Err(p) => {
                self.fail(format!("{label}: panicked: {p}"));
                None
            }
        }
    }

    /// Directed: bulk data written, removed again, then small commits until one TRUNCATES the file; the process stops
    /// right after that commit's set_len with everything issued so far on the medium (the truncation is there, whatever
    /// the commit wrote after it is not). Like every crash image it must open to the contents before or after that commit
    /// with exactly the required pages in use.
    fn run_directed_shrink_crash(&mut self, skip: u64) {
        let mut skip = skip;
        self.cfg = Cfg { page_size: 512, region_size: Some(512 * 32), cache: 256 * 1024 };
        match open_db(self.backend.handle(), self.cfg) {
            Ok((db, _)) => self.db = Some(db),
            Err(e) => {
                self.fail(format!("create failed: {e}"));
                return;
            }
        }
        self.absorb();
        self.durable_point();
        self.xresync();
        if self.direct_txn_ops(0..400, 0..0).is_none() || self.direct_txn_ops(0..0, 10..400).is_none() {
            return;
        }
        for i in 0..14u64 {
            let log_before = self.log.clone();
            let before = self.spec_durable.clone();
            let len_before = self.file_len();
            let Some(ops) = self.direct_txn_ops(5000 + i..5001 + i, 0..0) else {
                return;
            };
            let after = self.spec_durable.clone();
            if std::env::var("C11_DEBUG").is_ok() {
                let kinds: Vec<String> = ops.iter().map(|o| match o { Op::SetLen(n) => format!("L{n}"), Op::Sync => "Y".into(), Op::Write { off, data } => format!("W{off}+{}", data.len()), _ => "".into() }).filter(|x| !x.is_empty()).collect();
                use std::io::Write as _;
                if let Ok(mut f) = std::fs::OpenOptions::new().create(true).append(true).open(std::env::var("C11_DEBUG").unwrap()) {
                    let _ = writeln!(f, "shrink-crash skip={skip} i={i} len_before={len_before} len_after={} ops={}", self.file_len(), kinds.join(" "));
                }
            }
            if let Some(pos) = ops.iter().position(|o| matches!(o, Op::SetLen(n) if (*n as usize) < len_before)) {
                if skip > 0 {
                    // (an earlier truncating commit of this history is the one cut in a sibling run)
                    skip -= 1;
                    continue;
                }
                let mut log = log_before;
                for o in &ops[..=pos] {
                    log.feed(o.clone());
                }
                let img = log.image_all();
                self.mark("directed_shrink_crash_cut");
                self.discard_process();
                self.open_image(img, &format!("crash-midcommit:cut{}/{}:all", pos + 1, ops.len()), vec![before, after]);
                if !self.dead {
                    self.own("directed: after the crash inside the truncating commit");
                }
                self.discard_process();
                return;
            }
        }
        self.mark("directed_shrink_crash_no_truncation_seen");
        self.discard_process();
    }

    fn run_directed_trim_refill(&mut self) {
        self.cfg = Cfg { page_size: 512, region_size: Some(512 * 32), cache: 256 * 1024 };
        match open_db(self.backend.handle(), self.cfg) {
            Ok((db, _)) => self.db = Some(db),
            Err(e) => {
                self.fail(format!("create failed: {e}"));
                return;
            }
        }
        self.absorb();
        self.durable_point();
        self.xresync();
        // 1. clean close of a multi-region file, reopen through the saved state, grow far beyond the old size
        if !self.direct_insert(0..300, false) {
            return;
        }
        let before = self.file_len();
        self.stop_clean();
        self.mark(if self.file_len() < before { "directed_close_trimmed_file" } else { "directed_close_kept_file_size" });
        let mut next = 300;
        for _ in 0..3 {
            if self.dead || !self.direct_insert(next..next + 500, false) {
                return;
            }
            next += 500;
            let latest = self.spec_latest.clone();
            if self.check_contents("directed: after refilling past the old file size", &[&latest]).is_none() || self.own("directed: after refilling").is_none() {
                return;
            }
        }
        // 2. the same through a quick-repair commit and a crash right after it
        if !self.direct_insert(next..next + 40, true) {
            return;
        }
        next += 40;
        self.absorb();
        let img = self.log.image_all();
        self.discard_process();
        let allowed = vec![self.spec_durable.clone()];
        self.open_image(img, "crash-boundary:all", allowed);
        for _ in 0..3 {
            if self.dead || !self.direct_insert(next..next + 500, false) {
                return;
            }
            next += 500;
        }
        if !self.dead {
            let latest = self.spec_latest.clone();
            self.check_contents("directed: at the end", &[&latest]);
            self.own("directed: at the end");
        }
        if !self.dead {
            self.integrity("directed: at the end", true);
        }
        self.discard_process();
    }

    fn run(&mut self, len: u64) {
        match open_db(self.backend.handle(), self.cfg) {
            Ok((db, _)) => self.db = Some(db),
            Err(e) => {
                self.fail(format!("create failed: {e}"));
                return;
            }
        }
        self.absorb();
        self.durable_point();
        self.xresync();
        for _ in 0..len {
            if self.dead {
                break;
            }
            let w = self.r.below(100);
            if w < 58 {
                self.txn(false);
            } else if w < 62 {
                self.leak_txn();
            } else if w < 68 && (self.healthy || !self.pending_nd) {
                // (not after an abandoned transaction with a non-durable commit pending: candidate finding
                //  F-C11-2 in design.d/C11.md -- check_integrity() panics there at page sizes <= 1024)
                let h = self.healthy;
                self.trace.push("check_integrity".into());
                if self.integrity("mid-history", h) {
                    let latest = self.spec_latest.clone();
                    self.check_contents("after mid-history check_integrity", &[&latest]);
                    if !h && !self.dead {
                        // repaired: a second check must be clean
                        self.integrity("second check after a repair", true);
                    }
                }
            } else if w < 78 {
                self.stop_clean();
            } else if w < 89 {
                self.stop_crash_boundary();
            } else {
                self.stop_crash_midcommit();
            }
        }
        // epilogue: a stop, then 10 further transactions with full-content checks
        if !self.dead {
            match self.r.below(3) {
                0 => self.stop_clean(),
                1 => self.stop_crash_boundary(),
                _ => self.stop_crash_midcommit(),
            }
        }
        for k in 0..10 {
            if self.dead {
                break;
            }
            if !self.txn(false) {
                break;
            }
            let latest = self.spec_latest.clone();
            if self.check_contents(&format!("transaction #{k} after the last reopen"), &[&latest]).is_none() {
                break;
            }
            if self.own(&format!("transaction #{k} after the last reopen")).is_none() {
                break;
            }
        }
        if !self.dead && (self.healthy || !self.pending_nd) {
            let h = self.healthy;
            self.integrity("end of history", h);
        }
        self.discard_process();
    }
}

fn main() {
    silence_panics();
    let a: Vec<String> = std::env::args().collect();
    let n: u64 = a.get(1).and_then(|s| s.parse().ok()).unwrap_or(20);
    let g = |i: usize, d: usize| a.get(i).and_then(|s| s.parse().ok()).unwrap_or(d);
    let offs = Offs { god: g(2, 9), slot: [g(3, 64), g(4, 192)], txid: g(5, 104), cksum: g(6, 112), user_root: g(7, 8), system_root: g(8, 40) };
    let only: Option<u64> = a.get(9).and_then(|s| s.parse().ok());
    let seed = seed_from_env();
    let thorough = tier_is_thorough();
    let mut todo: Vec<u64> = (0..n).filter(|i| only.map(|o| o == *i).unwrap_or(true)).collect();
    if only.is_none() || only == Some(DIRECTED) {
        todo.push(DIRECTED);
    }
    if only.is_none() || only == Some(DIRECTED_MANY_REGIONS) {
        todo.push(DIRECTED_MANY_REGIONS);
    }
    if only.is_none() || only == Some(DIRECTED_TRIM_REFILL) {
        todo.push(DIRECTED_TRIM_REFILL);
    }
    for j in 0..4 {
        if only.is_none() || only == Some(DIRECTED_SHRINK_CRASH + j) {
            todo.push(DIRECTED_SHRINK_CRASH + j);
        }
    }
    let work = |i: u64| -> Block {
        let mut h = H::new(i, seed, offs);
        let len = if thorough { 20 + h.r.below(40) } else { 12 + h.r.below(24) };
        if i == DIRECTED {
            h.run_directed_unpublished_growth();
        } else if i == DIRECTED_TRIM_REFILL {
            h.run_directed_trim_refill();
        } else if (DIRECTED_SHRINK_CRASH..DIRECTED_SHRINK_CRASH + 4).contains(&i) {
            h.run_directed_shrink_crash(i - DIRECTED_SHRINK_CRASH);
        } else if i == DIRECTED_MANY_REGIONS {
            h.cfg = Cfg { page_size: 512, region_size: Some(512 * 16), cache: 256 * 1024 };
            h.bulk_pending = 1;
            h.run(10);
        } else {
            h.run(len);
        }
        // (a history that stopped early may still hold its database: close it under `catch`)
        h.discard_process();
        let mut b = Block::default();
        b.texts.insert("cases".into(), h.cases.clone());
        b.texts.insert("outs".into(), h.outs.clone());
        b.texts.insert("viol".into(), h.viol.iter().map(|v| v.replace('\n', " ")).collect::<Vec<_>>().join("\n"));
        b.texts.insert("trace".into(), h.trace.join(";"));
        b.texts.insert("xev".into(), h.xev.clone());
        b.texts.insert("ximpl".into(), h.ximpl.clone());
        for (k, v) in &h.m {
            b.nums.insert(format!("m.{k}"), *v);
        }
        b.nums.insert("opens".into(), h.opens);
        b.nums.insert("nontrivial".into(), u64::from(h.nontrivial));
        b
    };
    let (mut cases, mut outs, mut viol) = (String::new(), String::new(), String::new());
    let (mut xev, mut ximpl) = (String::new(), String::new());
    let mut m: BTreeMap<String, u64> = BTreeMap::new();
    let mut opens = 0;
    let mut distinct = std::collections::BTreeSet::new();
    let mut nontrivial = 0;
    for (i, r) in run_isolated("c11", &todo, &work) {
        match r {
            Ok(b) => {
                for l in b.text("cases").lines() {
                    writeln!(cases, "{i} {l}").unwrap();
                }
                for l in b.text("outs").lines() {
                    writeln!(outs, "{i} {l}").unwrap();
                }
                for v in b.text("viol").lines() {
                    writeln!(viol, "{i}\t{v}").unwrap();
                }
                for l in b.text("xev").lines() {
                    writeln!(xev, "{i} {l}").unwrap();
                }
                for l in b.text("ximpl").lines() {
                    writeln!(ximpl, "{i} {l}").unwrap();
                }
                for (k, v) in &b.nums {
                    if let Some(kk) = k.strip_prefix("m.") {
                        *m.entry(kk.to_string()).or_default() += v;
                    }
                }
                opens += b.num("opens");
                if b.num("nontrivial") == 1 && distinct.insert(b.text("trace").to_string()) {
                    nontrivial += 1;
                }
            }
            Err(e) => writeln!(viol, "{i}\tabort: {e}").unwrap(),
        }
    }
    std::fs::write("cases.txt", cases).unwrap();
    std::fs::write("impl.txt", outs).unwrap();
    std::fs::write("viol.txt", viol).unwrap();
    std::fs::write("xev.txt", xev).unwrap();
    std::fs::write("ximpl.txt", ximpl).unwrap();
    let mut st = String::new();
    writeln!(st, "histories={n} opens={opens} distinct_nontrivial={nontrivial}").unwrap();
    let k: Vec<String> = m.iter().map(|(k, v)| format!("{k}={v}")).collect();
    writeln!(st, "markers {}", k.join(" ")).unwrap();
    std::fs::write("stats.txt", &st).unwrap();
    print!("{st}");
}
