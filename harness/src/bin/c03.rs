//! C03 -- Commits take effect atomically and in one serial order.
//!
//! Forced schedules over redb's H4 pause points (see `rv_harness::conc`). Every scenario is a set of
//! thread programs (lists of API calls) plus a list of scheduling directives; the executor turns it
//! into a grant sequence, records for every grant which event the real crate produced, and checks the
//! property itself on what the calls returned (oracle S3). `cases.txt` / `impl.txt` are replayed
//! against the extracted Coq step model (`ocaml/c03_driver.ml`) by `props/c03.py`.
//!
//! usage: c03 <mode> [budget]      mode = sweep | directed

use redb::{Builder, Database, Durability, ReadTransaction, ReadableDatabase, ReadableTable, ReadableTableMetadata,
           Savepoint, TableDefinition, WriteTransaction};
use rv_harness::conc::{ConcBackend, Controller, Event, MemFile};
use rv_harness::{seed_from_env, tier_is_thorough, Rng};
use std::collections::{BTreeMap, BTreeSet};
use std::fmt::Write as _;
use std::io::Write as _;
use std::sync::atomic::{AtomicU64, Ordering};
use std::sync::{Arc, Mutex};

const TA: TableDefinition<u64, &[u8]> = TableDefinition::new("a");
const TB: TableDefinition<u64, &[u8]> = TableDefinition::new("b");
/// append-only: every write transaction that puts adds its tag; a stale starting root would lose entries
const TL: TableDefinition<u64, u64> = TableDefinition::new("log");
const NKEYS: u64 = 12;
const VLEN: usize = 96;

/// the step alphabet of coq/Conc/Programs.v: a managed thread stops at exactly these points
pub const ALPHABET: &[&str] = &[
    "T.start_write", "T.end_write", "T.defer_close", "T.clear_pending_nd", "T.register_nd", "T.reserve_id",
    "T.register_read", "T.dealloc_read", "T.any_savepoint", "T.alloc_savepoint", "T.dealloc_savepoint",
    "T.invalidate_savepoints", "T.oldest_savepoint", "T.oldest_live_read", "T.oldest_live_read_nd",
    "M.alloc_loaded", "M.get_version", "M.get_data_root", "M.get_system_root", "M.last_durable",
    "M.commit.begin", "U.clear", "M.commit.publish", "U.extend", "M.nd.publish", "X.abort.rollback", "io.sync",
    "X.durable_commit.horizon", "X.nd_commit.free", "X.epilogue.horizon",
];

#[derive(Clone, Debug, PartialEq, Eq)]
enum Call {
    BeginRead(usize),
    Observe(usize),
    DropReader(usize),
    BeginWrite,
    Put,
    CommitD(bool),
    CommitND,
    Abort,
    DropWtx,
    Savepoint(usize),
    DropSavepoint(usize),
    DropDb,
}

impl Call {
    fn text(&self) -> String {
        match self {
            Call::BeginRead(r) => format!("BR{r}"),
            Call::Observe(r) => format!("OB{r}"),
            Call::DropReader(r) => format!("DR{r}"),
            Call::BeginWrite => "BW".into(),
            Call::Put => "PUT".into(),
            Call::CommitD(false) => "CD0".into(),
            Call::CommitD(true) => "CD1".into(),
            Call::CommitND => "CN".into(),
            Call::Abort => "AB".into(),
            Call::DropWtx => "DW".into(),
            Call::Savepoint(s) => format!("SP{s}"),
            Call::DropSavepoint(s) => format!("DS{s}"),
            Call::DropDb => "DDB".into(),
        }
    }
}

#[derive(Clone, Debug)]
enum Dir {
    /// run the next n calls of the thread to completion
    Calls(usize, usize),
    /// n single grants
    Grants(usize, usize),
    /// inject a spurious wakeup of begin_write waiters
    Wake,
    /// every backend sync_data from now on fails
    FailSync,
}

impl Dir {
    fn text(&self) -> String {
        match self {
            Dir::Calls(t, n) => format!("c{t}x{n}"),
            Dir::Grants(t, n) => format!("g{t}x{n}"),
            Dir::Wake => "w".into(),
            Dir::FailSync => "f".into(),
        }
    }
}

#[derive(Clone, Debug)]
struct Scenario {
    kind: String,
    /// scenarios of one group differ only in the gap index; once a gap index exceeds the call's length the rest is skipped
    group: String,
    threads: Vec<Vec<Call>>,
    dirs: Vec<Dir>,
    cache: usize,
}

struct World {
    db: Mutex<Option<Arc<Database>>>,
    wtx: Mutex<Option<WriteTransaction>>,
    readers: Mutex<BTreeMap<usize, ReadTransaction>>,
    savepoints: Mutex<BTreeMap<usize, Savepoint>>,
    next_c: AtomicU64,
    two_writers: AtomicU64,
    /// tag written by the live write transaction (0 = none yet)
    cur_c: AtomicU64,
}

fn value_for(c: u64, k: u64) -> Vec<u8> {
    let mut v = Vec::with_capacity(VLEN);
    while v.len() < VLEN {
        v.extend_from_slice(&c.to_le_bytes());
        v.extend_from_slice(&k.to_le_bytes());
    }
    v
}

fn put_all(tx: &WriteTransaction, c: u64) -> Result<(), String> {
    for def in [TA, TB] {
        let mut t = tx.open_table(def).map_err(|e| format!("open:{e}"))?;
        for k in 0..NKEYS {
            t.insert(k, value_for(c, k).as_slice()).map_err(|e| format!("ins:{e}"))?;
        }
    }
    let mut l = tx.open_table(TL).map_err(|e| format!("open:{e}"))?;
    l.insert(c, c).map_err(|e| format!("ins:{e}"))?;
    Ok(())
}

/// read both tables completely; "c=<tag>" when every entry of both tables carries one tag
fn observe(rt: &ReadTransaction) -> String {
    let mut tags = BTreeSet::new();
    for def in [TA, TB] {
        let t = match rt.open_table(def) {
            Ok(t) => t,
            Err(e) => return format!("ERR(open:{e})"),
        };
        let mut n = 0u64;
        let it = match t.iter() {
            Ok(i) => i,
            Err(e) => return format!("ERR(iter:{e})"),
        };
        for e in it {
            let (k, v) = match e {
                Ok(x) => x,
                Err(e) => return format!("ERR(next:{e})"),
            };
            let k = k.value();
            let v = v.value();
            if k != n || v.len() != VLEN {
                return format!("TORN(key {k} at position {n}, value length {})", v.len());
            }
            for ch in v.chunks(16) {
                let c = u64::from_le_bytes(ch[0..8].try_into().unwrap());
                let kk = u64::from_le_bytes(ch[8..16].try_into().unwrap());
                if kk != k {
                    return format!("TORN(value of key {k} names key {kk})");
                }
                tags.insert(c);
            }
            n += 1;
        }
        if n != NKEYS {
            return format!("TORN({n} keys)");
        }
        match t.len() {
            Ok(l) if l == NKEYS => {}
            Ok(l) => return format!("TORN(len {l})"),
            Err(e) => return format!("ERR(len:{e})"),
        }
        // point lookups through a fresh descent
        for k in [0, NKEYS - 1] {
            match t.get(k) {
                Ok(Some(g)) => {
                    let v = g.value();
                    if v.len() != VLEN {
                        return "TORN(get length)".to_string();
                    }
                    tags.insert(u64::from_le_bytes(v[0..8].try_into().unwrap()));
                }
                Ok(None) => return format!("TORN(get {k} = None)"),
                Err(e) => return format!("ERR(get:{e})"),
            }
        }
    }
    if tags.len() == 1 {
        // the append-only log: which tags does this snapshot contain
        let mut log = vec![];
        match rt.open_table(TL) {
            Ok(t) => match t.iter() {
                Ok(it) => {
                    for e in it {
                        match e {
                            Ok((k, v)) => {
                                if k.value() != v.value() {
                                    return format!("TORN(log {} -> {})", k.value(), v.value());
                                }
                                log.push(k.value().to_string());
                            }
                            Err(e) => return format!("ERR(log next:{e})"),
                        }
                    }
                }
                Err(e) => return format!("ERR(log iter:{e})"),
            },
            Err(e) => return format!("ERR(open log:{e})"),
        }
        format!("c={};L={}", tags.iter().next().unwrap(), log.join("."))
    } else {
        format!("TORN(tags {tags:?})")
    }
}

fn job(w: Arc<World>, call: Call) -> Box<dyn FnOnce() -> String + Send> {
    Box::new(move || match call {
        Call::BeginRead(r) => {
            let db = w.db.lock().unwrap().clone();
            let Some(db) = db else { return "ERR(no db)".into() };
            let res = db.begin_read();
            drop(db);
            match res {
                Ok(rt) => {
                    w.readers.lock().unwrap().insert(r, rt);
                    "ok".into()
                }
                Err(e) => format!("ERR({e})"),
            }
        }
        Call::Observe(r) => {
            let rt = w.readers.lock().unwrap().remove(&r);
            let Some(rt) = rt else { return "ERR(no reader)".into() };
            let s = observe(&rt);
            w.readers.lock().unwrap().insert(r, rt);
            s
        }
        Call::DropReader(r) => {
            let rt = w.readers.lock().unwrap().remove(&r);
            match rt {
                Some(rt) => {
                    drop(rt);
                    "ok".into()
                }
                None => "ERR(no reader)".into(),
            }
        }
        Call::BeginWrite => {
            let db = w.db.lock().unwrap().clone();
            let Some(db) = db else { return "ERR(no db)".into() };
            let res = db.begin_write();
            drop(db);
            match res {
                Ok(tx) => {
                    let mut slot = w.wtx.lock().unwrap();
                    if slot.is_some() {
                        w.two_writers.fetch_add(1, Ordering::SeqCst);
                        // keep the first one; the second handle is leaked so that nothing else changes
                        std::mem::forget(tx);
                        return "TWO-WRITERS".into();
                    }
                    *slot = Some(tx);
                    "ok".into()
                }
                Err(e) => format!("ERR({e})"),
            }
        }
        Call::Put => {
            let tx = w.wtx.lock().unwrap().take();
            let Some(tx) = tx else { return "ERR(no wtx)".into() };
            let c = w.next_c.fetch_add(1, Ordering::SeqCst);
            w.cur_c.store(c, Ordering::SeqCst);
            let r = put_all(&tx, c);
            *w.wtx.lock().unwrap() = Some(tx);
            match r {
                Ok(()) => format!("c={c}"),
                Err(e) => format!("ERR({e})"),
            }
        }
        Call::CommitD(twopc) => {
            let tx = w.wtx.lock().unwrap().take();
            let Some(mut tx) = tx else { return "ERR(no wtx)".into() };
            tx.set_two_phase_commit(twopc);
            match tx.commit() {
                Ok(()) => "ok".into(),
                Err(e) => format!("ERR({e})"),
            }
        }
        Call::CommitND => {
            let tx = w.wtx.lock().unwrap().take();
            let Some(mut tx) = tx else { return "ERR(no wtx)".into() };
            if let Err(e) = tx.set_durability(Durability::None) {
                return format!("ERR({e})");
            }
            match tx.commit() {
                Ok(()) => "ok".into(),
                Err(e) => format!("ERR({e})"),
            }
        }
        Call::Abort => {
            let tx = w.wtx.lock().unwrap().take();
            let Some(tx) = tx else { return "ERR(no wtx)".into() };
            match tx.abort() {
                Ok(()) => "ok".into(),
                Err(e) => format!("ERR({e})"),
            }
        }
        Call::DropWtx => {
            let tx = w.wtx.lock().unwrap().take();
            match tx {
                Some(tx) => {
                    drop(tx);
                    "ok".into()
                }
                None => "ERR(no wtx)".into(),
            }
        }
        Call::Savepoint(s) => {
            let tx = w.wtx.lock().unwrap().take();
            let Some(tx) = tx else { return "ERR(no wtx)".into() };
            let r = tx.ephemeral_savepoint();
            *w.wtx.lock().unwrap() = Some(tx);
            match r {
                Ok(sp) => {
                    w.savepoints.lock().unwrap().insert(s, sp);
                    "ok".into()
                }
                Err(e) => format!("ERR({e})"),
            }
        }
        Call::DropSavepoint(s) => {
            let sp = w.savepoints.lock().unwrap().remove(&s);
            match sp {
                Some(sp) => {
                    drop(sp);
                    "ok".into()
                }
                None => "ERR(no savepoint)".into(),
            }
        }
        Call::DropDb => {
            let db = w.db.lock().unwrap().take();
            let Some(db) = db else { return "ERR(no db)".into() };
            match Arc::try_unwrap(db) {
                Ok(db) => {
                    drop(db);
                    "ok".into()
                }
                Err(_) => "ERR(db borrowed)".into(),
            }
        }
    })
}

fn open_db(file: &Arc<MemFile>, ctl: Option<Arc<Controller>>, cache: usize) -> Result<Database, String> {
    let mut b = Builder::new();
    b.verif_set_page_size(512);
    b.set_cache_size(cache);
    b.create_with_backend(ConcBackend { file: file.clone(), ctl }).map_err(|e| format!("{e}"))
}

#[derive(Default)]
struct Outcome {
    /// (tid or usize::MAX for a wake, event text)
    grants: Vec<(usize, String)>,
    /// per (tid, call index): result
    results: BTreeMap<(usize, usize), String>,
    violations: Vec<(String, String)>,
    interleaved: bool,
    hung: bool,
    /// a Grants directive ran out of steps of the current call
    short: bool,
    late_root_nd: bool,
}

struct Exec<'a> {
    ctl: &'a Arc<Controller>,
    file: Arc<MemFile>,
    fail_armed: bool,
    w: Arc<World>,
    sc: &'a Scenario,
    pc: Vec<usize>,
    in_call: Vec<bool>,
    at: Vec<Option<String>>,
    sleeping: Vec<bool>,
    out: Outcome,
    // ---- oracle state (independent of the model)
    /// tag -> state of the write transaction that wrote it
    tag_state: BTreeMap<u64, &'static str>, // "live" | "committing" | "committed" | "aborted"
    live_writer: Option<usize>,
    live_tag: Option<u64>,
    last_returned_commit: u64,
    reader_floor: BTreeMap<usize, u64>,
    reader_seen: BTreeMap<usize, u64>,
    thread_last_snapshot: Vec<u64>,
    reader_owner: BTreeMap<usize, usize>,
    last_grant_tid: Option<usize>,
    max_committing: u64,
    /// durability of the latest publication (seed commit: durable)
    latest_durable: bool,
    /// reader -> whether the latest publication was durable when its registration section ran
    reg_on_durable: BTreeMap<usize, bool>,
    /// a reader registered while the latest commit was durable and then read a non-durable root (finding F1)
    late_root_nd: bool,
}

impl<'a> Exec<'a> {
    fn violate(&mut self, key: &str, what: String) {
        self.out.violations.push((key.to_string(), what));
    }

    fn cur_call(&self, tid: usize) -> Call {
        self.sc.threads[tid][self.pc[tid] - 1].clone()
    }

    fn has_work(&self, tid: usize) -> bool {
        self.in_call[tid] || self.pc[tid] < self.sc.threads[tid].len()
    }

    /// one grant; returns false if the grant is void (thread asleep / finished)
    fn grant(&mut self, tid: usize) -> bool {
        if self.out.hung || self.sleeping[tid] || !self.has_work(tid) {
            return false;
        }
        if !self.in_call[tid] {
            let call = self.sc.threads[tid][self.pc[tid]].clone();
            self.pc[tid] += 1;
            self.in_call[tid] = true;
            self.at[tid] = None;
            self.on_call_start(tid, &call);
            self.ctl.submit(tid, job(self.w.clone(), call));
        }
        if let Some(l) = self.last_grant_tid {
            if l != tid && self.in_call[l] && self.at[l].is_some() {
                self.out.interleaved = true;
            }
        }
        let before = self.at[tid].clone();
        if before.as_deref() == Some("T.start_write") && self.live_writer.is_some() && self.sleeping.iter().any(|s| *s) {
            // this thread would become a second sleeper; which of two sleepers the Condvar wakes is up to
            // the OS, so such a grant is not part of any forced schedule
            return false;
        }
        self.last_grant_tid = Some(tid);
        let ev = self.ctl.step(tid);
        if before.as_deref() == Some("T.start_write") && ev != Event::Blocked && ev != Event::Hung {
            self.slot_acquired(tid);
        }
        match (before.as_deref(), self.cur_call(tid)) {
            (Some("M.commit.publish"), _) => self.latest_durable = true,
            (Some("M.nd.publish"), _) => self.latest_durable = false,
            (Some("T.register_read"), Call::BeginRead(r)) => {
                self.reg_on_durable.insert(r, self.latest_durable);
            }
            (Some("M.get_data_root"), Call::BeginRead(r)) => {
                // begin_read must notice that the root is newer than its registration and register again
                // (next event: T.dealloc_read); if it returns instead, the reader is pinned below its root
                if self.reg_on_durable.get(&r) == Some(&true) && !self.latest_durable && matches!(ev, Event::Done(_)) {
                    self.late_root_nd = true;
                }
            }
            _ => {}
        }
        self.handle(tid, ev);
        if before.as_deref() == Some("T.end_write") {
            self.writer_ended(tid);
            for s in 0..self.sleeping.len() {
                if self.sleeping[s] && !self.out.hung {
                    let ev = self.ctl.await_event(s);
                    self.sleeping[s] = false;
                    if ev != Event::Hung && ev != Event::Blocked {
                        self.slot_acquired(s);
                    }
                    if ev == Event::Hung {
                        self.violate(
                            "c03-waiter-not-woken",
                            format!("thread {s} waits in begin_write() and is not woken although the write transaction of thread {tid} has ended (the model's T.start_write step is enabled)"),
                        );
                    }
                    self.handle(s, ev);
                }
            }
        }
        true
    }

    fn handle(&mut self, tid: usize, ev: Event) {
        match ev {
            Event::At(p) => {
                self.out.grants.push((tid, format!("@{p}")));
                self.on_point(tid, &p);
                self.at[tid] = Some(p);
            }
            Event::Blocked => {
                self.out.grants.push((tid, "B".into()));
                self.sleeping[tid] = true;
                if self.live_writer.is_none() {
                    self.violate("c03-blocked-without-writer", format!("thread {tid}: begin_write() went to sleep although no write transaction is live"));
                }
            }
            Event::Done(r) => {
                self.out.grants.push((tid, format!("D{}", r.split(';').next().unwrap())));
                self.in_call[tid] = false;
                self.at[tid] = None;
                let idx = self.pc[tid] - 1;
                self.on_done(tid, idx, &r);
                self.out.results.insert((tid, idx), r);
            }
            Event::Hung => {
                self.out.grants.push((tid, "HUNG".into()));
                self.out.hung = true;
                let call = self.cur_call(tid).text();
                self.violate(
                    "c03-hung",
                    format!("thread {tid} call {call}: no event within the timeout after a grant (deadlock in a schedule the step model allows)"),
                );
            }
        }
    }

    // ---------------------------------------------------------------- oracle hooks

    fn on_call_start(&mut self, tid: usize, call: &Call) {
        match call {
            Call::BeginRead(r) => {
                // every commit() that has already RETURNED must be visible to this reader
                self.reader_floor.insert(*r, self.last_returned_commit);
                self.reader_owner.insert(*r, tid);
            }
            Call::CommitD(_) | Call::CommitND => {
                if let Some(c) = self.live_tag {
                    self.tag_state.insert(c, "committing");
                    self.max_committing = self.max_committing.max(c);
                }
            }
            _ => {}
        }
    }

    fn on_point(&mut self, _tid: usize, _p: &str) {}

    fn writer_ended(&mut self, tid: usize) {
        if self.live_writer == Some(tid) {
            self.live_writer = None;
        }
    }

    fn on_done(&mut self, tid: usize, _idx: usize, r: &str) {
        let call = self.cur_call(tid);
        if r.starts_with("PANIC") {
            self.violate("c03-panic", format!("thread {tid} call {}: {r}", call.text()));
            return;
        }
        match call {
            Call::BeginWrite => {
                if r == "TWO-WRITERS" {
                    self.violate("c03-two-writers", format!("thread {tid}: begin_write() returned while another write transaction is live"));
                } else if r == "ok" {
                    if self.live_writer != Some(tid) {
                        self.violate("c03-two-writers", format!("thread {tid}: begin_write() returned although thread {:?} owns the write slot", self.live_writer));
                    }
                } else if !self.fail_armed {
                    self.violate("c03-call-error", format!("thread {tid} BW: {r}"));
                }
            }
            Call::Put => {
                if let Some(c) = r.strip_prefix("c=").and_then(|x| x.parse::<u64>().ok()) {
                    self.tag_state.insert(c, "live");
                    self.live_tag = Some(c);
                } else {
                    self.violate("c03-call-error", format!("thread {tid} PUT: {r}"));
                }
            }
            Call::CommitD(_) | Call::CommitND => {
                if r == "ok" {
                    if let Some(c) = self.live_tag.take() {
                        self.tag_state.insert(c, "committed");
                        self.last_returned_commit = self.last_returned_commit.max(c);
                    }
                } else if self.fail_armed && r.starts_with("ERR") {
                    // the injected storage failure: this commit did not happen
                    if let Some(c) = self.live_tag.take() {
                        self.tag_state.insert(c, "failed");
                        if let Some((rd, _)) = self.reader_seen.iter().find(|(_, seen)| **seen == c) {
                            self.violate("c03-failed-commit-visible", format!("reader {rd} saw tag {c} and commit() of that transaction then returned {r}"));
                        }
                    }
                } else {
                    self.violate("c03-call-error", format!("thread {tid} commit: {r}"));
                }
                self.writer_ended(tid);
            }
            Call::Abort | Call::DropWtx => {
                if let Some(c) = self.live_tag.take() {
                    self.tag_state.insert(c, "aborted");
                }
                if r != "ok" {
                    self.violate("c03-call-error", format!("thread {tid} abort: {r}"));
                }
                self.writer_ended(tid);
            }
            Call::Observe(rd) => {
                let (r, log) = match r.split_once(";L=") {
                    Some((a, b)) => (a, Some(b.to_string())),
                    None => (r, None),
                };
                let Some(c) = r.strip_prefix("c=").and_then(|x| x.parse::<u64>().ok()) else {
                    let key = if r.starts_with("TORN") { "c03-torn-read" } else { "c03-read-error" };
                    self.violate(key, format!("thread {tid} reader {rd}: {r} (a reader must see one commit's values in both tables)"));
                    return;
                };
                match self.tag_state.get(&c).copied() {
                    Some("committed") | Some("committing") => {}
                    Some("aborted") => self.violate("c03-aborted-visible", format!("reader {rd} sees tag {c} written by an aborted write transaction")),
                    Some(_) => self.violate("c03-uncommitted-visible", format!("reader {rd} sees tag {c} of a write transaction whose commit() has not been called")),
                    None => self.violate("c03-unknown-tag", format!("reader {rd} sees tag {c} that no write transaction wrote")),
                }
                if let Some(log) = log {
                    // exactly the tags <= c of transactions that were not aborted, in order
                    let expect: Vec<String> = self
                        .tag_state
                        .iter()
                        .filter(|(t, st)| **t <= c && matches!(**st, "committed" | "committing" | "failed"))
                        .map(|(t, _)| t.to_string())
                        .collect();
                    if log != expect.join(".") {
                        self.violate(
                            "c03-lost-update",
                            format!("reader {rd} at tag {c}: the append-only log table holds [{log}], the commits up to that tag are [{}]", expect.join(".")),
                        );
                    }
                }
                if self.tag_state.get(&c).copied() == Some("failed") {
                    self.violate("c03-failed-commit-visible", format!("reader {rd} sees tag {c} although commit() of that transaction returned an error"));
                }
                let floor = self.reader_floor.get(&rd).copied().unwrap_or(0);
                if c < floor {
                    self.violate("c03-stale-snapshot", format!("reader {rd} was begun after commit() of tag {floor} had returned but sees tag {c}"));
                }
                if let Some(prev) = self.reader_seen.get(&rd) {
                    if *prev != c {
                        self.violate("c03-snapshot-changed", format!("reader {rd} saw tag {prev} earlier and tag {c} now"));
                    }
                } else {
                    self.reader_seen.insert(rd, c);
                    let owner = self.reader_owner.get(&rd).copied().unwrap_or(tid);
                    if c < self.thread_last_snapshot[owner] {
                        self.violate(
                            "c03-non-monotonic",
                            format!("thread {owner}: reader {rd} sees tag {c} after an earlier reader of the same thread saw tag {}", self.thread_last_snapshot[owner]),
                        );
                    }
                    // readers of one thread are begun in program order, and are first observed in that order
                    self.thread_last_snapshot[owner] = self.thread_last_snapshot[owner].max(c);
                }
            }
            _ => {
                if r != "ok" {
                    self.violate("c03-call-error", format!("thread {tid} {}: {r}", call.text()));
                }
            }
        }
    }

    // ---------------------------------------------------------------- directives

    fn run_calls(&mut self, tid: usize, n: usize) {
        for _ in 0..n {
            if !self.grant(tid) {
                return;
            }
            while self.in_call[tid] && !self.sleeping[tid] && !self.out.hung {
                if !self.grant(tid) {
                    return;
                }
            }
            if self.sleeping[tid] {
                return;
            }
        }
    }

    fn wake(&mut self) {
        let db = self.w.db.lock().unwrap().clone();
        if let Some(db) = db {
            db.verif_spurious_wake();
            self.out.grants.push((usize::MAX, "W".into()));
            for s in 0..self.sleeping.len() {
                if self.sleeping[s] && !self.out.hung {
                    // the waiter must re-check the slot and go back to sleep (or proceed if it is free)
                    let ev = self.ctl.await_event(s);
                    self.sleeping[s] = false;
                    if ev != Event::Hung && ev != Event::Blocked {
                        self.slot_acquired(s);
                    }
                    self.handle(s, ev);
                }
            }
        }
    }

    /// thread `tid` got past T.start_write: it owns the write slot from here to its T.end_write
    fn slot_acquired(&mut self, tid: usize) {
        if let Some(o) = self.live_writer {
            self.violate(
                "c03-two-writers",
                format!("thread {tid} acquired the write slot in begin_write() while the write transaction of thread {o} is still live"),
            );
        }
        self.live_writer = Some(tid);
        if matches!(self.cur_call(tid), Call::BeginWrite) {
            // (the write transaction that close_database() runs inside another call writes no tag)
            self.live_tag = None;
        }
    }

    fn run(&mut self) {
        let dirs = self.sc.dirs.clone();
        for d in dirs {
            if self.out.hung {
                break;
            }
            match d {
                Dir::Calls(t, n) => self.run_calls(t, n),
                Dir::Grants(t, n) => {
                    for i in 0..n {
                        if !self.grant(t) {
                            break;
                        }
                        if !self.in_call[t] && i + 1 < n {
                            // the call ended before the requested gap: stay at the call boundary
                            self.out.short = true;
                            break;
                        }
                    }
                }
                Dir::Wake => self.wake(),
                Dir::FailSync => {
                    let f = &self.file;
                    f.fail_syncs_from.store(f.syncs.load(Ordering::SeqCst), Ordering::SeqCst);
                    self.fail_armed = true;
                }
            }
        }
        // completion: finish everything, lowest thread first
        let n = self.sc.threads.len();
        loop {
            if self.out.hung {
                break;
            }
            let mut progressed = false;
            for t in 0..n {
                while self.has_work(t) && !self.sleeping[t] && !self.out.hung {
                    if !self.grant(t) {
                        break;
                    }
                    progressed = true;
                    if !self.in_call[t] {
                        break;
                    }
                }
            }
            if !(0..n).any(|t| self.has_work(t)) {
                break;
            }
            if !progressed {
                self.violate("c03-deadlock", "every remaining thread sleeps in begin_write()".into());
                self.out.hung = true;
                break;
            }
        }
    }
}

fn execute(sc: &Scenario, ctl: &Arc<Controller>) -> Outcome {
    let file = MemFile::new();
    let w = Arc::new(World {
        db: Mutex::new(None),
        wtx: Mutex::new(None),
        readers: Mutex::new(BTreeMap::new()),
        savepoints: Mutex::new(BTreeMap::new()),
        next_c: AtomicU64::new(1),
        two_writers: AtomicU64::new(0),
        cur_c: AtomicU64::new(0),
    });
    // setup on the (unmanaged) main thread: pause points pass through
    let db = open_db(&file, Some(ctl.clone()), sc.cache).expect("create");
    {
        let tx = db.begin_write().unwrap();
        let c = w.next_c.fetch_add(1, Ordering::SeqCst);
        put_all(&tx, c).unwrap();
        tx.commit().unwrap();
    }
    *w.db.lock().unwrap() = Some(Arc::new(db));
    let n = sc.threads.len();
    let mut ex = Exec {
        ctl,
        file: file.clone(),
        fail_armed: false,
        w: w.clone(),
        sc,
        pc: vec![0; n],
        in_call: vec![false; n],
        at: vec![None; n],
        sleeping: vec![false; n],
        out: Outcome::default(),
        tag_state: BTreeMap::new(),
        live_writer: None,
        live_tag: None,
        last_returned_commit: 1,
        reader_floor: BTreeMap::new(),
        reader_seen: BTreeMap::new(),
        thread_last_snapshot: vec![0; n],
        reader_owner: BTreeMap::new(),
        last_grant_tid: None,
        max_committing: 1,
        latest_durable: true,
        reg_on_durable: BTreeMap::new(),
        late_root_nd: false,
    };
    ex.tag_state.insert(1, "committed");
    ex.run();
    ex.out.late_root_nd = ex.late_root_nd;
    let hung = ex.out.hung;
    let fail_armed = ex.fail_armed;
    let last_commit = ex.last_returned_commit;
    let mut out = std::mem::take(&mut ex.out);
    drop(ex);
    if hung {
        // stuck OS threads cannot be recovered: the caller reports and exits
        return out;
    }
    // teardown (unmanaged): drop every handle, close, reopen, verify the final state
    w.readers.lock().unwrap().clear();
    w.savepoints.lock().unwrap().clear();
    if let Some(tx) = w.wtx.lock().unwrap().take() {
        drop(tx);
    }
    let db = w.db.lock().unwrap().take();
    drop(db);
    if w.two_writers.load(Ordering::SeqCst) == 0 && !fail_armed {
        match rv_harness::catch(|| -> Result<String, String> {
            let mut db = open_db(&file, None, 1 << 20)?;
            let ok = db.check_integrity().map_err(|e| format!("{e}"))?;
            if !ok {
                return Err("check_integrity() = false after clean close".into());
            }
            let rt = db.begin_read().map_err(|e| format!("{e}"))?;
            Ok(observe(&rt))
        }) {
            Ok(Ok(s)) => {
                if s.split(';').next().unwrap() != format!("c={last_commit}") {
                    out.violations.push(("c03-final-state".into(), format!("after close and reopen the tables show {s}, the last commit() that returned wrote tag {last_commit}")));
                }
            }
            Ok(Err(e)) => out.violations.push(("c03-final-state".into(), format!("reopen after the schedule failed: {e}"))),
            Err(p) => out.violations.push(("c03-final-state".into(), format!("reopen after the schedule panicked: {p}"))),
        }
    }
    out
}

// ------------------------------------------------------------------------------------------------
// scenario generation

fn writer_prog(end: &Call, sp: Option<usize>) -> Vec<Call> {
    let mut v = vec![Call::BeginWrite];
    if let Some(s) = sp {
        v.push(Call::Savepoint(s));
    }
    v.push(Call::Put);
    v.push(end.clone());
    v
}

/// page churn after the interesting part: the pages of every version that nobody pins are reused
fn churn(kind: usize) -> Vec<Call> {
    let mut v = vec![];
    for i in 0..3 {
        let end = match kind {
            0 => Call::CommitD(false),
            1 => Call::CommitND,
            _ => {
                if i % 2 == 0 {
                    Call::CommitND
                } else {
                    Call::CommitD(false)
                }
            }
        };
        v.extend(writer_prog(&end, None));
    }
    v
}

fn sweep_scenarios(rng: &mut Rng, thorough: bool) -> Vec<Scenario> {
    let mut out = vec![];
    let targets: Vec<(&str, Call)> = vec![
        ("cd0", Call::CommitD(false)),
        ("cd1", Call::CommitD(true)),
        ("cn", Call::CommitND),
        ("ab", Call::Abort),
        ("dw", Call::DropWtx),
    ];
    // pre-states: what was committed before the target transaction
    let pres: Vec<(&str, Vec<Call>)> = vec![
        ("d", writer_prog(&Call::CommitD(false), None)),
        ("d0", {
            // a durable commit that frees nothing: afterwards the latest commit is durable and no non-durable commit is pending
            let mut v = writer_prog(&Call::CommitD(false), None);
            v.extend(vec![Call::BeginWrite, Call::CommitD(false)]);
            v
        }),
        ("n", writer_prog(&Call::CommitND, None)),
        ("nn", {
            let mut v = writer_prog(&Call::CommitND, None);
            v.extend(writer_prog(&Call::CommitND, None));
            v
        }),
    ];
    let caches = [1usize << 20, 0, 2048];
    // ---- (a) solo traces of every call kind
    for (pn, pre) in &pres {
        for (tn, target) in &targets {
            let mut t0 = pre.clone();
            t0.extend(vec![Call::BeginRead(0), Call::Observe(0), Call::BeginWrite, Call::Savepoint(0), Call::Put, target.clone(),
                           Call::Observe(0), Call::DropSavepoint(0), Call::BeginRead(1), Call::Observe(1), Call::DropReader(0)]);
            t0.extend(churn(2));
            t0.extend(vec![Call::Observe(1), Call::DropReader(1), Call::DropDb]);
            out.push(Scenario { group: String::new(), kind: format!("solo-{pn}-{tn}"), threads: vec![t0], dirs: vec![], cache: 1 << 20 });
        }
    }
    // ---- (b) pairwise placements: thread 1's call Q inside every gap of thread 0's target call, and the reverse
    // Q kinds: br = begin_read+observe, dr = drop of an older reader, bw = begin_write (must wait), ds = Savepoint drop,
    //          ddb = Database drop
    let qs = ["br", "dr", "bw", "ds", "ddb"];
    for (pi, (pn, pre)) in pres.iter().enumerate() {
        for (ti, (tn, target)) in targets.iter().enumerate() {
            for (qi, q) in qs.iter().enumerate() {
                // thread 0: pre ; [reader 9 + savepoint 9 created for dr/ds] ; BW PUT target ; churn
                // thread 1: Q ; later observations
                let mut t0 = pre.clone();
                let mut t1: Vec<Call> = vec![];
                let mut setup0 = pre.len();
                let mut setup1 = 0;
                let with_sp = *q == "ds";
                if *q == "dr" {
                    t1.push(Call::BeginRead(9));
                    t1.push(Call::Observe(9));
                    setup1 = 2;
                }
                // the target transaction; for ds the savepoint is taken by the target transaction itself
                t0.push(Call::BeginWrite);
                if with_sp {
                    t0.push(Call::Savepoint(9));
                }
                t0.push(Call::Put);
                setup0 += if with_sp { 3 } else { 2 };
                t0.push(target.clone());
                let qcalls: Vec<Call> = match *q {
                    "br" => vec![Call::BeginRead(0), Call::Observe(0)],
                    "dr" => vec![Call::DropReader(9)],
                    "bw" => vec![Call::BeginWrite, Call::Put, Call::CommitD(false)],
                    "ds" => vec![Call::DropSavepoint(9)],
                    _ => vec![Call::DropDb],
                };
                let nq = qcalls.len();
                t1.extend(qcalls);
                if *q != "ddb" {
                    // afterwards: a fresh reader, page churn, and every live reader consulted again
                    t1.push(Call::BeginRead(1));
                    t1.push(Call::Observe(1));
                    let ck = (pi + ti + qi) % 3;
                    t0.extend(churn(ck));
                    let mut tail = vec![];
                    if *q == "br" {
                        tail.push(Call::Observe(0));
                    }
                    tail.push(Call::Observe(1));
                    tail.push(Call::BeginRead(2));
                    tail.push(Call::Observe(2));
                    t1.extend(tail);
                }
                for g in 0..=20usize {
                    // forward: target stopped after g grants, Q runs completely
                    let dirs = vec![
                        Dir::Calls(0, setup0),
                        Dir::Calls(1, setup1),
                        Dir::Grants(0, g),
                        Dir::Calls(1, nq),
                        Dir::Calls(0, 1),
                        // a fresh reader, then all the page churn, then every live reader consulted again
                        Dir::Calls(1, 2),
                        Dir::Calls(0, 100),
                        Dir::Calls(1, 100),
                    ];
                    out.push(Scenario {
                        group: format!("fwd-{pn}-{tn}-{q}"),
                        kind: format!("fwd-{pn}-{tn}-{q}-g{g}"),
                        threads: vec![t0.clone(), t1.clone()],
                        dirs,
                        cache: caches[(pi + ti + qi + g) % 3],
                    });
                }
                // reverse: Q stopped after h grants, the target call runs completely
                let hmax = match *q {
                    "br" => 2,
                    "dr" => 1,
                    "bw" => 0, // begin_write cannot get past its first step while the target is live
                    "ds" => 2,
                    _ => 0, // Database::drop defers at its first step; nothing to stop at before
                };
                for h in 1..=hmax {
                  for ck2 in 0..3usize {
                    if *q == "ddb" || (ck2 > 0 && *q != "br") {
                        continue;
                    }
                    let mut t0 = t0.clone();
                    if ck2 > 0 {
                        // same scenario with the other kinds of page churn behind it
                        let keep = setup0 + 1;
                        t0.truncate(keep);
                        t0.extend(churn((pi + ti + qi + ck2) % 3));
                    }
                    let dirs = vec![
                        Dir::Calls(0, setup0),
                        Dir::Calls(1, setup1),
                        Dir::Grants(1, h),
                        Dir::Calls(0, 1),
                        Dir::Calls(1, nq),
                        // all the page churn first (no other reader pins anything), then every reader is consulted
                        Dir::Calls(0, 100),
                        Dir::Calls(1, 100),
                    ];
                    out.push(Scenario {
                        group: String::new(),
                        kind: format!("rev-{pn}-{tn}-{q}-h{h}-k{ck2}"),
                        threads: vec![t0.clone(), t1.clone()],
                        dirs,
                        cache: caches[(pi + ti + qi + h) % 3],
                    });
                  }
                }
            }
        }
    }
    // ---- (b') begin_write must wait: waiter asleep, spurious wakeups, then the holder ends
    for (tn, target) in &targets {
        for wakes in 0..=2usize {
            let mut t0 = writer_prog(target, None);
            t0.extend(churn(0));
            let t1 = vec![Call::BeginWrite, Call::Put, Call::CommitD(false), Call::BeginRead(0), Call::Observe(0)];
            let mut dirs = vec![Dir::Calls(0, 2), Dir::Calls(1, 1)];
            for _ in 0..wakes {
                dirs.push(Dir::Wake);
            }
            dirs.push(Dir::Grants(0, 3));
            dirs.push(Dir::Wake);
            out.push(Scenario { group: String::new(), kind: format!("wait-{tn}-w{wakes}"), threads: vec![t0, t1], dirs, cache: 1 << 20 });
        }
    }
    // ---- (b'') a commit whose flush fails must never have been visible: reader placed right before each sync
    for twopc in [false, true] {
        for at in 0..(if twopc { 2 } else { 1 }) {
            for before in [true, false] {
                let t0 = vec![Call::BeginWrite, Call::Put, Call::CommitD(twopc)];
                let t1 = vec![Call::BeginRead(0), Call::Observe(0), Call::BeginRead(1), Call::Observe(1)];
                // 5 grants: stopped at the first io.sync of mem.commit (6: at the second one of a two-phase commit)
                let mut dirs = vec![Dir::Calls(0, 2), Dir::Grants(0, 5 + at), Dir::FailSync];
                if before {
                    dirs.push(Dir::Calls(1, 2));
                    dirs.push(Dir::Calls(0, 1));
                    dirs.push(Dir::Calls(1, 2));
                } else {
                    dirs.push(Dir::Grants(0, 1));
                    dirs.push(Dir::Calls(1, 2));
                    dirs.push(Dir::Calls(0, 1));
                    dirs.push(Dir::Calls(1, 2));
                }
                out.push(Scenario {
                    group: String::new(),
                    kind: format!("syncfail-{}-s{at}-{}", if twopc { "cd1" } else { "cd0" }, if before { "before" } else { "after" }),
                    threads: vec![t0, t1],
                    dirs,
                    cache: 1 << 20,
                });
            }
        }
    }
    // ---- (c) random 3-thread schedules
    let nrand = if thorough { 2000 } else { 200 };
    for i in 0..nrand {
        out.push(random_scenario(rng, i));
    }
    out
}

fn random_scenario(rng: &mut Rng, i: usize) -> Scenario {
    let nthreads = 3;
    let mut threads: Vec<Vec<Call>> = vec![vec![]; nthreads];
    let mut next_reader = 0;
    let mut next_sp = 0;
    // which thread drops the database (at the very end of its program), if any
    let dropper = if rng.chance(1, 4) { Some(rng.below(nthreads as u64) as usize) } else { None };
    for (t, prog) in threads.iter_mut().enumerate() {
        let mut live_readers: Vec<usize> = vec![];
        let mut live_sps: Vec<usize> = vec![];
        let ncalls = rng.range(3, 7);
        for _ in 0..ncalls {
            match rng.below(10) {
                0..=3 => {
                    // a write transaction
                    prog.push(Call::BeginWrite);
                    if rng.chance(1, 4) {
                        prog.push(Call::Savepoint(100 * t + next_sp));
                        live_sps.push(100 * t + next_sp);
                        next_sp += 1;
                    }
                    if rng.chance(9, 10) {
                        prog.push(Call::Put);
                    }
                    prog.push(match rng.below(8) {
                        0 => Call::Abort,
                        1 => Call::DropWtx,
                        2 | 3 => Call::CommitND,
                        4 => Call::CommitD(true),
                        _ => Call::CommitD(false),
                    });
                }
                4..=6 => {
                    let r = 100 * t + next_reader;
                    next_reader += 1;
                    prog.push(Call::BeginRead(r));
                    prog.push(Call::Observe(r));
                    live_readers.push(r);
                }
                7 => {
                    if let Some(r) = live_readers.first().copied() {
                        prog.push(Call::Observe(r));
                        prog.push(Call::DropReader(r));
                        live_readers.remove(0);
                    }
                }
                8 => {
                    if let Some(s) = live_sps.pop() {
                        prog.push(Call::DropSavepoint(s));
                    }
                }
                _ => {
                    if let Some(r) = live_readers.last().copied() {
                        prog.push(Call::Observe(r));
                    }
                }
            }
        }
        for r in live_readers {
            prog.push(Call::Observe(r));
        }
    }
    let _ = dropper;
    let total: usize = 40 + rng.below(80) as usize;
    let mut dirs = vec![];
    for _ in 0..total {
        let t = rng.below(nthreads as u64) as usize;
        if rng.chance(1, 5) {
            dirs.push(Dir::Calls(t, 1));
        } else {
            dirs.push(Dir::Grants(t, rng.range(1, 3) as usize));
        }
    }
    Scenario { group: String::new(), kind: format!("rand-{i}"), threads, dirs, cache: [1usize << 20, 0, 2048][i % 3] }
}

fn scenario_line(id: usize, sc: &Scenario) -> String {
    let mut s = format!("{id}|{}|{}|", sc.kind, sc.cache);
    for (t, prog) in sc.threads.iter().enumerate() {
        if t > 0 {
            s.push(';');
        }
        let _ = write!(s, "{}", prog.iter().map(Call::text).collect::<Vec<_>>().join(","));
    }
    s.push('|');
    s.push_str(&sc.dirs.iter().map(Dir::text).collect::<Vec<_>>().join(" "));
    s
}

fn parse_scenario(line: &str) -> (usize, Scenario) {
    let f: Vec<&str> = line.split('|').collect();
    let id = f[0].parse().unwrap();
    let threads = f[3]
        .split(';')
        .map(|p| {
            p.split(',')
                .filter(|c| !c.is_empty())
                .map(|c| {
                    let num = |pre: &str| c[pre.len()..].parse::<usize>().unwrap();
                    match c {
                        "BW" => Call::BeginWrite,
                        "PUT" => Call::Put,
                        "CD0" => Call::CommitD(false),
                        "CD1" => Call::CommitD(true),
                        "CN" => Call::CommitND,
                        "AB" => Call::Abort,
                        "DW" => Call::DropWtx,
                        "DDB" => Call::DropDb,
                        _ if c.starts_with("BR") => Call::BeginRead(num("BR")),
                        _ if c.starts_with("OB") => Call::Observe(num("OB")),
                        _ if c.starts_with("DR") => Call::DropReader(num("DR")),
                        _ if c.starts_with("SP") => Call::Savepoint(num("SP")),
                        _ if c.starts_with("DS") => Call::DropSavepoint(num("DS")),
                        _ => panic!("bad call {c}"),
                    }
                })
                .collect()
        })
        .collect();
    let dirs = f[4]
        .split(' ')
        .filter(|d| !d.is_empty())
        .map(|d| {
            if d == "w" {
                Dir::Wake
            } else if d == "f" {
                Dir::FailSync
            } else {
                let (a, b) = d[1..].split_once('x').unwrap();
                let (t, n) = (a.parse().unwrap(), b.parse().unwrap());
                if d.starts_with('c') { Dir::Calls(t, n) } else { Dir::Grants(t, n) }
            }
        })
        .collect();
    (id, Scenario { group: String::new(), kind: f[1].to_string(), threads, dirs, cache: f[2].parse().unwrap() })
}

fn main() {
    rv_harness::silence_panics();
    let args: Vec<String> = std::env::args().collect();
    let mode = args.get(1).map(String::as_str).unwrap_or("sweep");
    let seed = seed_from_env();
    let mut rng = Rng::new(seed);
    let thorough = tier_is_thorough();
    let scenarios: Vec<(usize, Scenario)> = match mode {
        "sweep" => sweep_scenarios(&mut rng, thorough).into_iter().enumerate().collect(),
        "directed" => {
            // bigger random budget around a correspondence difference
            let n: usize = args.get(2).and_then(|s| s.parse().ok()).unwrap_or(4000);
            (0..n).map(|i| (i, random_scenario(&mut rng, i))).collect()
        }
        "replay" => std::fs::read_to_string(&args[2]).unwrap().lines().filter(|l| !l.is_empty()).map(parse_scenario).collect(),
        _ => panic!("mode"),
    };
    let ctl = Controller::new(3, ALPHABET);
    ctl.install();
    let _workers = ctl.spawn_workers();
    let mut cases = std::io::BufWriter::new(std::fs::File::create("cases.txt").unwrap());
    let mut imp = std::io::BufWriter::new(std::fs::File::create("impl.txt").unwrap());
    let mut orc = std::io::BufWriter::new(std::fs::File::create("oracle.txt").unwrap());
    let mut distinct = BTreeSet::new();
    let mut ngrants = 0usize;
    let mut nviol = 0usize;
    let mut kinds: BTreeMap<String, usize> = BTreeMap::new();
    let mut points: BTreeMap<String, usize> = BTreeMap::new();
    let mut executed = 0usize;
    let mut late_roots = 0usize;
    let mut exhausted: BTreeSet<String> = BTreeSet::new();
    for (id, sc) in &scenarios {
        if !sc.group.is_empty() && exhausted.contains(&sc.group) {
            continue;
        }
        // if redb aborts the process (a panic inside a panic), the driver still knows which scenario ran
        std::fs::write("current.txt", scenario_line(*id, sc)).unwrap();
        let out = execute(sc, &ctl);
        if out.short && !sc.group.is_empty() {
            exhausted.insert(sc.group.clone());
        }
        executed += 1;
        let glog: Vec<String> = out
            .grants
            .iter()
            .map(|(t, e)| if *t == usize::MAX { "W".to_string() } else { format!("{t}:{e}") })
            .collect();
        for (_, e) in &out.grants {
            if let Some(p) = e.strip_prefix('@') {
                *points.entry(p.to_string()).or_default() += 1;
            }
        }
        ngrants += glog.len();
        let line = scenario_line(*id, sc);
        // the grant sequence (thread ids and wakes) is part of the case: the model replays it
        let gseq: Vec<String> = out.grants.iter().map(|(t, _)| if *t == usize::MAX { "W".to_string() } else { t.to_string() }).collect();
        writeln!(cases, "{line}|{}", gseq.join(" ")).unwrap();
        writeln!(imp, "{id}|{}", glog.join(" ")).unwrap();
        let k = sc.kind.split('-').next().unwrap().to_string();
        *kinds.entry(k).or_default() += 1;
        if out.interleaved {
            distinct.insert(glog.join(" "));
        }
        for (key, what) in &out.violations {
            nviol += 1;
            // finding F1: everything that goes wrong after a reader was pinned below the non-durable root it
            // reads is reported under one key (the first symptom differs with debug assertions on or off)
            let f1 = out.late_root_nd
                && matches!(key.as_str(), "c03-panic" | "c03-torn-read" | "c03-read-error" | "c03-snapshot-changed" | "c03-call-error" | "c03-final-state");
            if f1 {
                writeln!(orc, "V|c03-F1-nd-reclaim-late-root|{id}|a reader registered at a durable transaction id, read the root of a later non-durable commit, and later non-durable commits reclaimed pages of that root; symptom: {what}").unwrap();
            } else {
                writeln!(orc, "V|{key}|{id}|{what}").unwrap();
            }
        }
        if out.late_root_nd {
            late_roots += 1;
        }
        cases.flush().unwrap();
        imp.flush().unwrap();
        orc.flush().unwrap();
        if out.hung {
            // worker threads are stuck inside redb: nothing more can be run in this process
            writeln!(orc, "H|{id}").unwrap();
            break;
        }
    }
    let _ = std::fs::remove_file("current.txt");
    cases.flush().unwrap();
    imp.flush().unwrap();
    orc.flush().unwrap();
    println!(
        "scenarios={} executed={} distinct_nontrivial={} grants={} violations={} late_root_nd={} kinds={:?} points={:?}",
        scenarios.len(),
        executed,
        distinct.len(),
        ngrants,
        nviol,
        late_roots,
        kinds,
        points
    );
    Controller::uninstall();
    ctl.shutdown();
    std::process::exit(0);
}
