//! C14 harness: the page allocator never double-allocates and never loses space.
//!
//! Runs the REAL allocator code (through the `redb::verif` hook wrappers) on generated op programs and
//! writes, per op, one line to `cases.txt` (the op) and one line to `impl.txt` (return value,
//! observations, serialised bytes) in exactly the format `ocaml/c14_driver.ml` prints for the
//! extracted Coq model.  Independently of the model it evaluates the property itself on the
//! implementation's outputs with a plain order-0 bitmap oracle (S3) and writes every failure to
//! `s3.txt` as one JSON object per line.
//!
//! usage: c14 <mode> <budget>      mode = random | exhaustive | replay   (replay reads a program on stdin)
#![allow(clippy::all)]

use redb::verif::{VAllocMem, VBtreeBitmap, VBuddy, VRegionTracker, VU64Bitmap};
use rv_harness::{Rng, catch, seed_from_env, silence_panics};
use std::collections::{BTreeMap, HashMap, HashSet};
use std::fmt::Write as _;
use std::io::{BufRead, BufWriter, Write};

const MASK: u64 = 0x3FFF_FFFF_FFFF_FFFF;
const MAX_MAX_PAGE_ORDER: u8 = 20;

fn dump_mode() -> bool {
    std::env::var("VERIF_C14_DUMP").map(|v| !v.is_empty()).unwrap_or(false)
}

fn fingerprint(b: &[u8]) -> u64 {
    let mut h: u64 = 1469598103934665603 & MASK;
    for x in b {
        h = ((h ^ u64::from(*x)).wrapping_mul(1099511628211)) & MASK;
    }
    h
}

fn show_bytes(b: &[u8]) -> String {
    if b.len() <= 200 || dump_mode() {
        if b.is_empty() {
            return "-".into();
        }
        let mut s = String::with_capacity(2 * b.len());
        for x in b {
            write!(s, "{x:02x}").unwrap();
        }
        s
    } else {
        format!("#{}:{:x}", b.len(), fingerprint(b))
    }
}

fn son(x: Option<u32>) -> String {
    x.map_or("none".to_string(), |v| v.to_string())
}
fn son8(x: Option<u8>) -> String {
    x.map_or("none".to_string(), |v| v.to_string())
}
fn sb(b: bool) -> &'static str {
    if b { "1" } else { "0" }
}

fn json_str(s: &str) -> String {
    let mut o = String::from("\"");
    for c in s.chars() {
        match c {
            '"' => o.push_str("\\\""),
            '\\' => o.push_str("\\\\"),
            '\n' => o.push_str("\\n"),
            c if (c as u32) < 0x20 => write!(o, "\\u{:04x}", c as u32).unwrap(),
            c => o.push(c),
        }
    }
    o.push('"');
    o
}

// ------------------------------------------------------------------------------------------------
// output

struct Out {
    cases: BufWriter<std::fs::File>,
    imp: BufWriter<std::fs::File>,
    s3: BufWriter<std::fs::File>,
    /// ops of the program currently being written (for replays)
    prog: Vec<String>,
    prog_id: u64,
    evaluations: u64,
    violations: u64,
    programs: u64,
    nontrivial: HashSet<u64>,
    markers: BTreeMap<&'static str, u64>,
    op_kinds: BTreeMap<String, u64>,
    size_hist: BTreeMap<&'static str, u64>,
    samples: Vec<String>,
    impl_panics_valid: u64,
    malformed_panics: u64,
    malformed_ops: u64,
}

impl Out {
    fn new() -> Self {
        let f = |n: &str| BufWriter::with_capacity(1 << 20, std::fs::File::create(n).unwrap());
        Out {
            cases: f("cases.txt"),
            imp: f("impl.txt"),
            s3: f("s3.txt"),
            prog: vec![],
            prog_id: 0,
            evaluations: 0,
            violations: 0,
            programs: 0,
            nontrivial: HashSet::new(),
            markers: BTreeMap::new(),
            op_kinds: BTreeMap::new(),
            size_hist: BTreeMap::new(),
            samples: vec![],
            impl_panics_valid: 0,
            malformed_panics: 0,
            malformed_ops: 0,
        }
    }
    fn begin(&mut self, header: &str, result: &str) {
        self.prog.clear();
        self.prog_id += 1;
        self.programs += 1;
        self.line(header, result);
    }
    fn line(&mut self, case: &str, result: &str) {
        writeln!(self.cases, "{case}").unwrap();
        writeln!(self.imp, "{result}").unwrap();
        self.prog.push(case.to_string());
        self.evaluations += 1;
        if self.samples.len() < 4 && self.prog.len() == 4 {
            self.samples.push(format!("{} => {}", self.prog.join(" ; "), &result[..result.len().min(120)]));
        }
        let k = format!(
            "{}:{}",
            self.prog[0].split(' ').next().unwrap_or("?"),
            case.split(' ').next().unwrap_or("?")
        );
        *self.op_kinds.entry(k).or_insert(0) += 1;
    }
    fn end(&mut self) {
        writeln!(self.cases, "E").unwrap();
        writeln!(self.imp, "E").unwrap();
    }
    fn marker(&mut self, name: &'static str, state_fp: u64) {
        *self.markers.entry(name).or_insert(0) += 1;
        let op = self.prog.last().cloned().unwrap_or_default();
        self.nontrivial.insert(fingerprint(op.as_bytes()) ^ state_fp.rotate_left(17) ^ fingerprint(name.as_bytes()));
    }
    fn violation(&mut self, key: &str, what: &str) {
        self.violations += 1;
        let prog: Vec<String> = self.prog.iter().map(|l| json_str(l)).collect();
        writeln!(
            self.s3,
            "{{\"key\":{},\"what\":{},\"program_id\":{},\"program\":[{}]}}",
            json_str(key),
            json_str(what),
            self.prog_id,
            prog.join(",")
        )
        .unwrap();
    }
    fn flush(&mut self) {
        self.cases.flush().unwrap();
        self.imp.flush().unwrap();
        self.s3.flush().unwrap();
    }
}

// ------------------------------------------------------------------------------------------------
// plain order-0 oracle (independent of the allocator's and the model's algorithms)

#[derive(Clone)]
struct Oracle {
    /// true = allocated
    used: Vec<bool>,
    live: Vec<(u32, u8)>,
}

impl Oracle {
    fn new(len: u32) -> Self {
        Oracle { used: vec![false; len as usize], live: vec![] }
    }
    fn len(&self) -> u32 {
        self.used.len() as u32
    }
    fn in_range(&self, i: u32, k: u8) -> bool {
        k < 32 && ((u64::from(i) + 1) << k) <= self.used.len() as u64
    }
    fn block_free(&self, i: u32, k: u8) -> bool {
        if !self.in_range(i, k) {
            return false;
        }
        let s = (i as usize) << k;
        self.used[s..s + (1usize << k)].iter().all(|u| !*u)
    }
    fn block_used(&self, i: u32, k: u8) -> bool {
        if !self.in_range(i, k) {
            return false;
        }
        let s = (i as usize) << k;
        self.used[s..s + (1usize << k)].iter().all(|u| *u)
    }
    fn lowest_free_block(&self, k: u8) -> Option<u32> {
        if k >= 32 {
            return None;
        }
        (0..(self.len() >> k)).find(|i| self.block_free(*i, k))
    }
    fn mark(&mut self, i: u32, k: u8, v: bool) {
        let s = (i as usize) << k;
        for u in &mut self.used[s..s + (1usize << k)] {
            *u = v;
        }
    }
    fn count_used(&self) -> u32 {
        self.used.iter().filter(|u| **u).count() as u32
    }
    fn last_used(&self) -> Option<u32> {
        self.used.iter().rposition(|u| *u).map(|p| p as u32)
    }
    fn trailing_free(&self) -> u32 {
        match self.last_used() {
            Some(p) => self.len() - 1 - p,
            None => self.len(),
        }
    }
    fn highest_free_aligned_order(&self, max_order: u8) -> Option<u8> {
        (0..=max_order).rev().find(|k| self.lowest_free_block(*k).is_some())
    }
    fn resize(&mut self, n: u32) {
        self.used.resize(n as usize, false);
        let len = n;
        self.live.retain(|(i, k)| ((u64::from(*i) + 1) << *k) <= u64::from(len));
    }
}

fn usable_order(cap: u32) -> u8 {
    // min(MAX_MAX_PAGE_ORDER, floor(log2 cap)), computed without the allocator
    let mut o = 0u8;
    while o < 31 && (1u64 << (o + 1)) <= u64::from(cap) {
        o += 1;
    }
    o.min(MAX_MAX_PAGE_ORDER)
}

// ------------------------------------------------------------------------------------------------
// BuddyAllocator programs

fn buddy_line(ret: &str, a: &VBuddy) -> String {
    // count_allocated_pages = len - count_free_pages underflows (debug panic) on corrupted states that
    // only the malformed stream reaches; printed as "uf" like the model driver does
    let allocated = catch(|| a.count_allocated_pages()).map_or("uf".to_string(), |v| v.to_string());
    format!(
        "{}|{} {} {} {} {}|{}",
        ret,
        a.len(),
        a.get_max_order(),
        allocated,
        a.count_free_pages(),
        son8(a.highest_free_order()),
        show_bytes(&a.to_vec())
    )
}

#[derive(Clone, Debug)]
enum BOp {
    Alloc(u8),
    Lowest(u8),
    Free(u32, u8),
    Record(u32, u8),
    Resize(u32),
    Roundtrip,
    Save(u32),
    Restore(u32),
    Trailing,
}

impl BOp {
    fn text(&self) -> String {
        match self {
            BOp::Alloc(k) => format!("a {k}"),
            BOp::Lowest(k) => format!("l {k}"),
            BOp::Free(p, k) => format!("f {p} {k}"),
            BOp::Record(p, k) => format!("r {p} {k}"),
            BOp::Resize(n) => format!("z {n}"),
            BOp::Roundtrip => "s".into(),
            BOp::Save(j) => format!("k {j}"),
            BOp::Restore(j) => format!("t {j}"),
            BOp::Trailing => "q".into(),
        }
    }
    fn parse(s: &str) -> Option<BOp> {
        let t: Vec<&str> = s.split_whitespace().collect();
        let n = |i: usize| t.get(i).and_then(|x| x.parse::<u32>().ok());
        Some(match (t.first().copied()?, t.len()) {
            ("a", 2) => BOp::Alloc(n(1)? as u8),
            ("l", 2) => BOp::Lowest(n(1)? as u8),
            ("f", 3) => BOp::Free(n(1)?, n(2)? as u8),
            ("r", 3) => BOp::Record(n(1)?, n(2)? as u8),
            ("z", 2) => BOp::Resize(n(1)?),
            ("s", 1) => BOp::Roundtrip,
            ("k", 2) => BOp::Save(n(1)?),
            ("t", 2) => BOp::Restore(n(1)?),
            ("q", 1) => BOp::Trailing,
            _ => return None,
        })
    }
}

struct BuddyRun {
    a: VBuddy,
    o: Oracle,
    cap: u32,
    max_order: u8,
    slots: HashMap<u32, (Vec<u8>, Oracle)>,
    /// false in the malformed stream after the first precondition violation: S3 no longer applies
    oracle_valid: bool,
}

/// Applies one op to the real allocator (under `catch`), checks the property on its output against
/// the plain oracle, and returns the impl.txt line ("panic" if the call panicked).
fn buddy_step(r: &mut BuddyRun, op: &BOp, out: &mut Out, check: bool) -> String {
    let before_fp = if check { fingerprint(&r.a.to_vec()) } else { 0 };
    let len_before = r.o.len();
    let check = check && r.oracle_valid;
    let a = &mut r.a;
    let res: Result<String, String> = match op {
        BOp::Alloc(k) | BOp::Lowest(k) => {
            let lowest = matches!(op, BOp::Lowest(_));
            let k = *k;
            catch(|| if lowest { a.alloc_lowest(k) } else { a.alloc(k) }).map(|got| {
                if check {
                    match got {
                        Some(i) => {
                            if !r.o.in_range(i, k) {
                                out.violation("alloc-out-of-range", &format!("alloc({k}) returned block {i} which is not inside the region of {} pages", r.o.len()));
                            } else if !r.o.block_free(i, k) {
                                out.violation("double-allocation", &format!("alloc({k}) returned block {i} which overlaps a live block"));
                            } else if lowest && r.o.lowest_free_block(k) != Some(i) {
                                out.violation("alloc-lowest-not-lowest", &format!("alloc_lowest({k}) returned {i} but block {:?} is free and lower", r.o.lowest_free_block(k)));
                            }
                            if k > 0 && r.o.in_range(i, k) {
                                // did it have to split a larger block?
                            }
                        }
                        None => {
                            if k <= r.max_order {
                                if let Some(i) = r.o.lowest_free_block(k) {
                                    out.violation("refused-though-possible", &format!("alloc({k}) refused although the aligned block {i} of order {k} is free"));
                                }
                            }
                        }
                    }
                }
                if let Some(i) = got {
                    if r.o.in_range(i, k) {
                        r.o.mark(i, k, true);
                        r.o.live.push((i, k));
                    }
                }
                son(got)
            })
        }
        BOp::Free(p, k) => {
            let (p, k) = (*p, *k);
            catch(|| a.free(p, k)).map(|merged| {
                if let Some(pos) = r.o.live.iter().position(|x| *x == (p, k)) {
                    r.o.live.swap_remove(pos);
                }
                if r.o.in_range(p, k) {
                    r.o.mark(p, k, false);
                }
                if check {
                    if merged < k || merged > r.max_order {
                        out.violation("free-order-range", &format!("free({p},{k}) returned order {merged}"));
                    } else {
                        let anc = p >> (merged - k);
                        if !r.o.block_free(anc, merged) {
                            out.violation("free-merged-block-not-free", &format!("free({p},{k}) reported a free block of order {merged} (index {anc}) which is not entirely free"));
                        } else if merged < r.max_order && r.o.block_free(anc ^ 1, merged) {
                            out.violation("free-not-merged", &format!("free({p},{k}) stopped at order {merged} although the buddy {} is free too", anc ^ 1));
                        }
                    }
                }
                merged.to_string()
            })
        }
        BOp::Record(p, k) => {
            let (p, k) = (*p, *k);
            catch(|| a.record_alloc(p, k)).map(|ok| {
                if check {
                    let possible = k <= r.max_order && r.o.block_free(p, k);
                    if ok && !possible {
                        out.violation("record-alloc-overlap", &format!("record_alloc({p},{k}) accepted a block that is not entirely free / in range"));
                    }
                    if !ok && possible {
                        out.violation("record-alloc-refused", &format!("record_alloc({p},{k}) refused a block that is free and in range"));
                    }
                }
                if ok && r.o.in_range(p, k) {
                    r.o.mark(p, k, true);
                    r.o.live.push((p, k));
                }
                sb(ok).to_string()
            })
        }
        BOp::Resize(n) => {
            let n = *n;
            catch(|| a.resize(n)).map(|()| {
                r.o.resize(n);
                "ok".to_string()
            })
        }
        BOp::Roundtrip => catch(|| VBuddy::from_bytes(&a.to_vec())).map(|b| {
            *a = b;
            "rt".to_string()
        }),
        BOp::Save(j) => {
            r.slots.insert(*j, (a.to_vec(), r.o.clone()));
            Ok("saved".to_string())
        }
        BOp::Restore(j) => {
            let (bytes, o) = r.slots.get(j).cloned().expect("restore of an unsaved slot");
            catch(|| VBuddy::from_bytes(&bytes)).map(|b| {
                *a = b;
                r.o = o;
                "restored".to_string()
            })
        }
        BOp::Trailing => catch(|| a.trailing_free_pages()).map(|t| {
            if check && t != r.o.trailing_free() {
                // not a clause of the property, but try_shrink relies on it: report through S2 only
            }
            t.to_string()
        }),
    };
    match res {
        Err(_) => "panic".to_string(),
        Ok(ret) => {
            let line = match catch(|| buddy_line(&ret, &r.a)) {
                Ok(l) => l,
                Err(_) => return "panic".to_string(),
            };
            if check {
                let a = &r.a;
                if a.len() != r.o.len() {
                    out.violation("len-mismatch", &format!("allocator len {} but {} pages expected", a.len(), r.o.len()));
                } else if a.count_allocated_pages() != r.o.count_used() {
                    out.violation(
                        "lost-or-invented-space",
                        &format!("after `{}`: allocator counts {} allocated pages, the live blocks cover {}", op.text(), a.count_allocated_pages(), r.o.count_used()),
                    );
                }
                // "allocatable again at the largest size": the highest order at which an aligned free
                // block exists must be what the allocator can serve
                let want = r.o.highest_free_aligned_order(r.max_order);
                if a.highest_free_order() != want {
                    out.violation(
                        "highest-free-order",
                        &format!("after `{}`: allocator's highest free order {:?}, largest aligned free block has order {:?}", op.text(), a.highest_free_order(), want),
                    );
                }
                // path markers
                match op {
                    BOp::Alloc(k) | BOp::Lowest(k) => {
                        if ret != "none" && *k < r.max_order {
                            out.marker(if matches!(op, BOp::Lowest(_)) { "alloc_lowest" } else { "alloc" }, before_fp);
                        }
                        if ret == "none" {
                            out.marker("refused", before_fp);
                        }
                    }
                    BOp::Free(_, k) => {
                        if ret.parse::<u8>().map(|m| m > *k).unwrap_or(false) {
                            out.marker("free-merge", before_fp);
                        } else {
                            out.marker("free-nomerge", before_fp);
                        }
                    }
                    BOp::Record(..) => out.marker(if ret == "1" { "record-ok" } else { "record-refused" }, before_fp),
                    BOp::Resize(n) => {
                        out.marker(if n.div_ceil(64) != len_before.div_ceil(64) { "resize-word-boundary" } else { "resize" }, before_fp);
                    }
                    BOp::Roundtrip | BOp::Restore(_) => out.marker("roundtrip", before_fp),
                    _ => {}
                }
            }
            line
        }
    }
}

fn new_buddy_run(n: u32, cap: u32, out: &mut Out) -> Option<BuddyRun> {
    let header = format!("B {n} {cap}");
    match catch(|| VBuddy::new(n, cap)) {
        Err(_) => {
            out.begin(&header, "panic");
            out.end();
            None
        }
        Ok(a) => {
            let line = buddy_line("new", &a);
            out.begin(&header, &line);
            let max_order = usable_order(cap);
            let r = BuddyRun { a, o: Oracle::new(n), cap, max_order, slots: HashMap::new(), oracle_valid: true };
            if r.a.get_max_order() != max_order {
                out.violation("max-order", &format!("new({n},{cap}): max_order {} expected {max_order}", r.a.get_max_order()));
            }
            if r.a.count_allocated_pages() != 0 {
                out.violation("new-not-empty", &format!("new({n},{cap}) has {} allocated pages", r.a.count_allocated_pages()));
            }
            if r.a.highest_free_order() != r.o.highest_free_aligned_order(max_order) {
                out.violation("new-highest-free-order", &format!("new({n},{cap}) highest free order {:?}", r.a.highest_free_order()));
            }
            Some(r)
        }
    }
}

fn pick_cap(rng: &mut Rng) -> u32 {
    // the quick tier keeps most programs small (the extracted model costs time linear in the capacity
    // per op); the thorough tier spends a third of its programs above one bitmap word level
    let w = if rv_harness::tier_is_thorough() { rng.below(100) } else { rng.below(100) * 7 / 10 + if rng.chance(1, 12) { 30 } else { 0 } };
    match w {
        0..=29 => rng.range(1, 12) as u32,
        30..=54 => rng.range(13, 200) as u32,
        55..=64 => *rng.pick(&[63u32, 64, 65, 127, 128, 129, 191, 192, 193, 255, 256, 257]),
        65..=69 => 1u32 << rng.range(0, 9),
        70..=79 => rng.range(200, 1500) as u32,
        80..=89 => *rng.pick(&[4095u32, 4096, 4097, 4100, 4160, 4200, 5000, 8191, 8192, 8193]),
        90..=95 => 1u32 << rng.range(0, 13),
        _ => rng.range(1500, 20000) as u32,
    }
}

fn pick_order(rng: &mut Rng, max_order: u8) -> u8 {
    match rng.below(10) {
        0..=4 => 0,
        5..=6 => rng.range(0, 2.min(u64::from(max_order))) as u8,
        7..=8 => rng.range(0, u64::from(max_order)) as u8,
        _ => rng.range(0, u64::from(max_order) + 1) as u8,
    }
}

fn interesting_size(rng: &mut Rng, lo: u32, hi: u32) -> u32 {
    // sizes near word (64) and tree level (4096) boundaries, inside [lo, hi]
    if lo >= hi {
        return lo;
    }
    let mut cands: Vec<u32> = vec![];
    for b in [64u32, 128, 192, 256, 4096, 8192] {
        for d in [-2i64, -1, 0, 1, 2] {
            let v = i64::from(b) + d;
            if v >= i64::from(lo) && v <= i64::from(hi) {
                cands.push(v as u32);
            }
        }
    }
    if !cands.is_empty() && rng.chance(1, 2) {
        *rng.pick(&cands)
    } else {
        rng.range(u64::from(lo), u64::from(hi)) as u32
    }
}

/// one valid op for the current state
fn gen_valid_op(rng: &mut Rng, r: &BuddyRun, style: u64) -> BOp {
    let o = &r.o;
    let w = rng.below(100);
    let (p_alloc, p_low, p_free, p_rec, p_resize, p_rt) = match style {
        0 => (35, 10, 25, 8, 10, 6),  // mixed
        1 => (60, 5, 10, 5, 10, 5),   // filling
        2 => (10, 5, 60, 5, 10, 5),   // draining
        3 => (15, 15, 20, 10, 30, 5), // resize heavy
        _ => (20, 30, 25, 10, 5, 5),  // alloc_lowest heavy
    };
    let mut acc = p_alloc;
    if w < acc {
        return BOp::Alloc(pick_order(rng, r.max_order));
    }
    acc += p_low;
    if w < acc {
        return BOp::Lowest(pick_order(rng, r.max_order));
    }
    acc += p_free;
    if w < acc {
        if o.live.is_empty() {
            return BOp::Alloc(0);
        }
        let (i, k) = *rng.pick(&o.live);
        return BOp::Free(i, k);
    }
    acc += p_rec;
    if w < acc {
        let k = pick_order(rng, r.max_order);
        if rng.chance(1, 2) {
            // a block that really is free, found from the plain bitmap
            let n = o.len() >> k.min(31);
            if n > 0 {
                let start = rng.below(u64::from(n)) as u32;
                for d in 0..n.min(64) {
                    let i = (start + d) % n;
                    if o.block_free(i, k) {
                        return BOp::Record(i, k);
                    }
                }
            }
        }
        // arbitrary: overlapping / out of range / too large order are all legal inputs (answer: false)
        let i = rng.below(u64::from(o.len()) + 3) as u32;
        return BOp::Record(i >> k.min(31), if rng.chance(1, 10) { r.max_order + 1 + rng.below(3) as u8 } else { k });
    }
    acc += p_resize;
    if w < acc {
        let min_len = o.last_used().map_or(1, |p| p + 1).max(1);
        let n = interesting_size(rng, min_len, r.cap.max(min_len));
        return BOp::Resize(n);
    }
    acc += p_rt;
    if w < acc {
        return BOp::Roundtrip;
    }
    match rng.below(4) {
        0 => BOp::Save(rng.below(3) as u32),
        1 => {
            let keys: Vec<u32> = {
                let mut k: Vec<u32> = r.slots.keys().copied().collect();
                k.sort_unstable();
                k
            };
            if keys.is_empty() { BOp::Save(0) } else { BOp::Restore(*rng.pick(&keys)) }
        }
        _ => BOp::Trailing,
    }
}

fn run_valid_op(r: &mut BuddyRun, op: &BOp, out: &mut Out) -> bool {
    let line = buddy_step(r, op, out, true);
    let panicked = line == "panic";
    out.line(&op.text(), &line);
    if panicked {
        out.impl_panics_valid += 1;
        out.violation("panic-on-valid-program", &format!("the allocator panicked on `{}` although every precondition holds", op.text()));
    }
    !panicked
}

fn random_buddy_program(rng: &mut Rng, out: &mut Out, nops: usize) {
    let cap = pick_cap(rng);
    let n = match rng.below(10) {
        0..=4 => cap,
        5 => 1,
        _ => rng.range(1, u64::from(cap)) as u32,
    };
    *out.size_hist.entry(size_class(cap)).or_insert(0) += 1;
    let Some(mut r) = new_buddy_run(n, cap, out) else { return };
    let style = rng.below(5);
    let mut style_now = style;
    for step in 0..nops {
        if step % 40 == 39 {
            // alternate fill / drain phases so that both full and fragmented states are reached
            style_now = if style_now == 1 { 2 } else if style_now == 2 { 1 } else { style };
        }
        let op = gen_valid_op(rng, &r, style_now);
        if !run_valid_op(&mut r, &op, out) {
            break;
        }
    }
    out.end();
}

fn size_class(cap: u32) -> &'static str {
    match cap {
        0..=12 => "cap<=12",
        13..=64 => "cap<=64",
        65..=4096 => "cap<=4096",
        _ => "cap>4096",
    }
}

/// fill / free patterns: allocate everything at one order, free in a chosen order, check full merge
fn pattern_buddy_program(rng: &mut Rng, out: &mut Out) {
    let cap = pick_cap(rng).min(3000);
    let n = if rng.chance(1, 2) { cap } else { rng.range(1, u64::from(cap)) as u32 };
    *out.size_hist.entry(size_class(cap)).or_insert(0) += 1;
    let Some(mut r) = new_buddy_run(n, cap, out) else { return };
    let k = rng.below(u64::from(r.max_order.min(3)) + 1) as u8;
    // fill
    loop {
        let op = if rng.chance(1, 4) { BOp::Lowest(k) } else { BOp::Alloc(k) };
        let before = r.o.live.len();
        if !run_valid_op(&mut r, &op, out) {
            out.end();
            return;
        }
        if r.o.live.len() == before {
            break;
        }
    }
    // fill the rest with smaller orders
    for kk in (0..k).rev() {
        loop {
            let before = r.o.live.len();
            if !run_valid_op(&mut r, &BOp::Alloc(kk), out) {
                out.end();
                return;
            }
            if r.o.live.len() == before {
                break;
            }
        }
    }
    let mut live = r.o.live.clone();
    match rng.below(5) {
        0 => live.sort_unstable(),
        1 => {
            live.sort_unstable();
            live.reverse();
        }
        2 => {
            // evens then odds
            live.sort_unstable();
            let (a, b): (Vec<_>, Vec<_>) = live.iter().partition(|(i, _)| i % 2 == 0);
            live = a.into_iter().chain(b).collect();
        }
        _ => {
            for i in (1..live.len()).rev() {
                let j = rng.below(i as u64 + 1) as usize;
                live.swap(i, j);
            }
        }
    }
    let keep = if rng.chance(1, 3) { rng.below(live.len() as u64 + 1) as usize } else { 0 };
    for (i, kk) in live.iter().skip(keep) {
        if !run_valid_op(&mut r, &BOp::Free(*i, *kk), out) {
            out.end();
            return;
        }
        if rng.chance(1, 50) {
            run_valid_op(&mut r, &BOp::Roundtrip, out);
        }
    }
    // a few more random ops on the result
    for _ in 0..10 {
        let op = gen_valid_op(rng, &r, 0);
        if !run_valid_op(&mut r, &op, out) {
            break;
        }
    }
    out.end();
}

/// resize up and down across word (64) and summary-level (64^2) boundaries with live blocks at the front
fn resize_buddy_program(rng: &mut Rng, out: &mut Out) {
    let cap = *rng.pick(&[70u32, 130, 200, 4100, 4200, 8200, 9000, 300, 64, 4096]);
    let n = interesting_size(rng, 1, cap);
    *out.size_hist.entry(size_class(cap)).or_insert(0) += 1;
    let Some(mut r) = new_buddy_run(n, cap, out) else { return };
    for _ in 0..rng.range(8, 30) {
        for _ in 0..rng.below(4) {
            let op = gen_valid_op(rng, &r, 0);
            if matches!(op, BOp::Resize(_)) {
                continue;
            }
            if !run_valid_op(&mut r, &op, out) {
                out.end();
                return;
            }
        }
        let min_len = r.o.last_used().map_or(1, |p| p + 1).max(1);
        let nn = interesting_size(rng, min_len, cap.max(min_len));
        if !run_valid_op(&mut r, &BOp::Resize(nn), out) {
            out.end();
            return;
        }
    }
    out.end();
}

/// programs that end with (or continue after) a precondition violation; run under `catch`, compared
/// with the model's modelled panics (S2 only: the property says nothing about such programs)
fn malformed_buddy_program(rng: &mut Rng, out: &mut Out) {
    let cap = rng.range(1, 40) as u32;
    let n = rng.range(0, u64::from(cap)) as u32;
    let Some(mut r) = new_buddy_run(n, cap, out) else { return };
    if n > 0 {
        for _ in 0..rng.below(12) {
            let op = gen_valid_op(rng, &r, 0);
            if !run_valid_op(&mut r, &op, out) {
                out.end();
                return;
            }
        }
    }
    r.oracle_valid = false;
    for _ in 0..rng.range(1, 6) {
        let k = rng.below(u64::from(r.max_order) + 2) as u8;
        let len = r.a.len();
        let op = match rng.below(9) {
            0 => BOp::Free(rng.below(u64::from(len) + 2) as u32, k),                    // anything
            1 => BOp::Free(rng.below(u64::from(len >> k.min(31)) + 1) as u32, k),        // in range, maybe free / maybe a sub-block
            2 => BOp::Resize(rng.below(u64::from(len) + 1) as u32),                      // shrink, tail possibly in use
            3 => BOp::Resize(0),
            4 => BOp::Resize(rng.range(u64::from(cap), 5000) as u32),                    // beyond the declared capacity
            5 => BOp::Trailing,
            6 => BOp::Record(rng.below(u64::from(len) + 2) as u32, k),
            7 => BOp::Alloc(k),
            _ => BOp::Resize(rng.range(0, u64::from(cap)) as u32),
        };
        let line = buddy_step(&mut r, &op, out, false);
        out.line(&op.text(), &line);
        out.malformed_ops += 1;
        if line == "panic" {
            out.malformed_panics += 1;
            break;
        }
    }
    out.end();
}

// ------------------------------------------------------------------------------------------------
// BtreeBitmap / U64GroupedBitmap / RegionTracker programs

fn bt_line(ret: &str, t: &VBtreeBitmap) -> String {
    format!(
        "{}|{} {} {} {}|{}",
        ret,
        t.len(),
        t.count_unset(),
        sb(t.has_unset()),
        son(t.find_first_unset()),
        show_bytes(&t.to_vec())
    )
}

fn tree_program(rng: &mut Rng, out: &mut Out, nops: usize) {
    let padded = rng.chance(1, 2);
    let cap = match rng.below(6) {
        0 => rng.range(1, 70) as u32,
        1 => *rng.pick(&[63u32, 64, 65, 4095, 4096, 4097]),
        2 => rng.range(4000, 4200) as u32,
        3 => rng.range(1, 1000) as u32,
        4 => rng.range(1, 10000) as u32,
        _ => if rv_harness::tier_is_thorough() { rng.range(250_000, 270_000) as u32 } else { rng.range(4000, 4200) as u32 },
    };
    let n = if rng.chance(1, 2) { cap } else { rng.range(0, u64::from(cap)) as u32 };
    let maxcap = if padded { cap.max(*rng.pick(&[1u32, 64, 65, 4096, 4097, 262_144, 262_145, 1_048_576])) } else { cap };
    let header = if padded { format!("P {n} {cap} {maxcap}") } else { format!("T {n} {cap}") };
    let mut t = if padded { VBtreeBitmap::new_padded(n, cap, maxcap) } else { VBtreeBitmap::new(n, cap) };
    // plain oracle: true = set.  With capacity > len the bits in [len, ..) are set.
    let mut bits: Vec<bool> = vec![true; n as usize];
    out.begin(&header, &bt_line("new", &t));
    // the capacity the tree can grow to without a new level
    let mut levels = 1u32;
    {
        let mut c = u64::from(maxcap.max(cap));
        while c > 64 {
            c = c.div_ceil(64);
            levels += 1;
        }
    }
    let tree_cap: u64 = 64u64.pow(levels).min(1 << 22);
    for _ in 0..nops {
        let len = bits.len() as u32;
        let w = rng.below(100);
        let (case, res): (String, Result<String, String>) = if w < 30 && len > 0 {
            let i = rng.below(u64::from(len)) as u32;
            bits[i as usize] = false;
            (format!("c {i}"), catch(|| t.clear(i)).map(|()| "ok".into()))
        } else if w < 45 && len > 0 {
            let i = rng.below(u64::from(len)) as u32;
            bits[i as usize] = true;
            (format!("s {i}"), catch(|| t.set(i)).map(|()| "ok".into()))
        } else if w < 75 {
            let want = bits.iter().position(|b| !*b).map(|p| p as u32);
            let got = catch(|| t.alloc());
            if let Ok(g) = &got {
                if *g != want {
                    out.prog.push("a".into());
                    out.violation("bitmap-alloc-not-first-unset", &format!("BtreeBitmap::alloc returned {g:?}, first unset bit is {want:?}"));
                    out.prog.pop();
                }
            }
            if let Some(p) = want {
                bits[p as usize] = true;
            }
            ("a".into(), got.map(son))
        } else if w < 85 && len > 0 {
            let i = rng.below(u64::from(len)) as u32;
            let got = catch(|| t.get(i));
            if let Ok(g) = &got {
                if *g != bits[i as usize] {
                    out.prog.push(format!("g {i}"));
                    out.violation("bitmap-get", &format!("BtreeBitmap::get({i}) = {g}, expected {}", bits[i as usize]));
                    out.prog.pop();
                }
            }
            (format!("g {i}"), got.map(|g| sb(g).to_string()))
        } else if w < 93 {
            // resize (full = true as every caller in the crate does); shrinking only over set bits
            let min_len = bits.iter().rposition(|b| !*b).map_or(0, |p| p as u32 + 1);
            let grow_limit: u32 = if rv_harness::tier_is_thorough() { 300_000 } else { 9_000 };
            let hi = (tree_cap as u32).min(maxcap.max(cap).saturating_mul(2)).min(grow_limit.max(cap)).max(min_len);
            let nn = interesting_size(rng, min_len, hi);
            bits.resize(nn as usize, true);
            (format!("z {nn} 1"), catch(|| t.resize(nn, true)).map(|()| "ok".into()))
        } else {
            ("y".into(), catch(|| VBtreeBitmap::from_bytes(&t.to_vec())).map(|b| {
                t = b;
                "rt".into()
            }))
        };
        match res {
            Err(_) => {
                out.line(&case, "panic");
                out.violation("panic-on-valid-program", &format!("BtreeBitmap panicked on `{case}`"));
                break;
            }
            Ok(ret) => {
                let line = bt_line(&ret, &t);
                out.line(&case, &line);
                let unset = bits.iter().filter(|b| !**b).count() as u32;
                if t.len() != bits.len() as u32 || t.count_unset() != unset || t.find_first_unset() != bits.iter().position(|b| !*b).map(|p| p as u32) {
                    out.violation(
                        "bitmap-summary",
                        &format!("after `{case}`: len {} count_unset {} find_first_unset {:?}; plain bitmap has len {} unset {} first {:?}",
                            t.len(), t.count_unset(), t.find_first_unset(), bits.len(), unset, bits.iter().position(|b| !*b)),
                    );
                }
                if case.starts_with('z') {
                    out.marker("bitmap-resize", fingerprint(line.as_bytes()));
                } else if levels > 1 {
                    out.marker("bitmap-multilevel", fingerprint(line.as_bytes()));
                }
            }
        }
    }
    out.end();
}

fn u64_program(rng: &mut Rng, out: &mut Out, nops: usize) {
    let cap = rng.range(0, 300) as u32;
    let n = rng.range(0, u64::from(cap)) as u32;
    let mut u = VU64Bitmap::new_full(n, cap);
    let line = |ret: &str, u: &VU64Bitmap| format!("{}|{}|{}", ret, u.len(), show_bytes(&u.to_vec()));
    out.begin(&format!("U {n} {cap}"), &line("new", &u));
    let mut bits = vec![true; n as usize];
    for _ in 0..nops {
        let len = bits.len() as u32;
        let w = rng.below(100);
        let (case, res): (String, Result<String, String>) = if w < 30 && len > 0 {
            let i = rng.below(u64::from(len)) as u32;
            bits[i as usize] = false;
            (format!("c {i}"), catch(|| u.clear(i)).map(|()| "ok".into()))
        } else if w < 55 && len > 0 {
            let i = rng.below(u64::from(len)) as u32;
            bits[i as usize] = true;
            (format!("s {i}"), catch(|| u.set(i)).map(|f| sb(f).to_string()))
        } else if w < 75 && len > 0 {
            let i = rng.below(u64::from(len)) as u32;
            let got = catch(|| u.get(i));
            if let Ok(g) = &got {
                if *g != bits[i as usize] {
                    out.prog.push(format!("g {i}"));
                    out.violation("u64bitmap-get", &format!("get({i}) = {g}, expected {}", bits[i as usize]));
                    out.prog.pop();
                }
            }
            (format!("g {i}"), got.map(|g| sb(g).to_string()))
        } else if w < 92 {
            let nn = interesting_size(rng, 0, 400);
            let full = rng.chance(3, 4);
            bits.resize(nn as usize, full);
            (format!("z {nn} {}", sb(full)), catch(|| u.resize(nn, full)).map(|()| "ok".into()))
        } else {
            ("y".into(), catch(|| VU64Bitmap::from_bytes(&u.to_vec())).map(|b| {
                u = b;
                "rt".into()
            }))
        };
        match res {
            Err(_) => {
                out.line(&case, "panic");
                out.violation("panic-on-valid-program", &format!("U64GroupedBitmap panicked on `{case}`"));
                break;
            }
            Ok(ret) => out.line(&case, &line(&ret, &u)),
        }
    }
    out.end();
}

fn tracker_program(rng: &mut Rng, out: &mut Out, nops: usize) {
    let regions = *rng.pick(&[1u32, 3, 64, 65, 100, 1000, 1001, 4097]);
    let orders = rng.range(1, 21) as u8;
    let mut t = VRegionTracker::new(regions, orders);
    let line = |ret: &str, t: &VRegionTracker| {
        let ff: Vec<String> = (0..orders).map(|k| son(t.find_free(k))).collect();
        format!("{}|{}|{}", ret, ff.join(","), show_bytes(&t.to_vec()))
    };
    out.begin(&format!("R {regions} {orders}"), &line("new", &t));
    // plain oracle: full[k][r]
    let mut full = vec![vec![true; regions as usize]; orders as usize];
    for _ in 0..nops {
        let k = rng.below(u64::from(orders)) as u8;
        let r = rng.below(u64::from(regions)) as u32;
        let w = rng.below(10);
        let (case, res): (String, Result<String, String>) = if w < 5 {
            for kk in 0..=k {
                full[kk as usize][r as usize] = false;
            }
            (format!("f {k} {r}"), catch(|| t.mark_free(k, r)).map(|()| "ok".into()))
        } else if w < 9 {
            for kk in k..orders {
                full[kk as usize][r as usize] = true;
            }
            (format!("u {k} {r}"), catch(|| t.mark_full(k, r)).map(|()| "ok".into()))
        } else {
            ("y".into(), catch(|| VRegionTracker::from_bytes(&t.to_vec())).map(|b| {
                t = b;
                "rt".into()
            }))
        };
        match res {
            Err(_) => {
                out.line(&case, "panic");
                out.violation("panic-on-valid-program", &format!("RegionTracker panicked on `{case}`"));
                break;
            }
            Ok(ret) => {
                out.line(&case, &line(&ret, &t));
                for kk in 0..orders {
                    let want = full[kk as usize].iter().position(|f| !*f).map(|p| p as u32);
                    if t.find_free(kk) != want {
                        out.violation("tracker-find-free", &format!("after `{case}`: find_free({kk}) = {:?}, lowest region not marked full is {want:?}", t.find_free(kk)));
                        break;
                    }
                }
            }
        }
    }
    out.end();
}

// ------------------------------------------------------------------------------------------------
// TransactionalMemory bookkeeping (allocate_helper / free_helper / mark_page_allocated / try_shrink)

/// leaf level of the k-th serialized BtreeBitmap of a serialized RegionTracker -> bit r (true = full)
fn tracker_bits(bytes: &[u8]) -> Vec<Vec<bool>> {
    let u32at = |b: &[u8], o: usize| u32::from_le_bytes(b[o..o + 4].try_into().unwrap()) as usize;
    let orders = u32at(bytes, 0);
    let mut lens = vec![];
    for i in 0..orders {
        lens.push(u32at(bytes, 4 + 4 * i));
    }
    let mut start = 4 + 4 * orders;
    let mut res = vec![];
    for l in lens {
        let bm = &bytes[start..start + l];
        start += l;
        let height = u32at(bm, 0);
        // the last level is the leaf
        let leaf_end = u32at(bm, 4 + 4 * (height - 1));
        let leaf_start = if height >= 2 { u32at(bm, 4 + 4 * (height - 2)) } else { 4 + 4 * height };
        let leaf = &bm[leaf_start..leaf_end];
        let n = u32at(leaf, 0);
        let mut bits = Vec::with_capacity(n);
        for i in 0..n {
            let byte = leaf[4 + i / 8];
            bits.push(byte >> (i % 8) & 1 == 1);
        }
        res.push(bits);
    }
    res
}

struct MemRun {
    m: VAllocMem,
    regions: Vec<Oracle>,
    full_pages: u32,
    max_order: u8,
}

fn region_lens(layout: (u32, u32, Option<u32>)) -> Vec<u32> {
    let (full, nfull, trailing) = layout;
    let mut v = vec![full; nfull as usize];
    if let Some(t) = trailing {
        v.push(t);
    }
    v
}

fn mem_line(ret: &str, m: &VAllocMem) -> (String, Vec<Vec<u8>>, Vec<u8>, (u32, u32, Option<u32>)) {
    let (regions, tracker, layout) = m.allocator_state();
    let all: String = if dump_mode() {
        regions.iter().map(|r| show_bytes(r)).collect::<Vec<_>>().join(";")
    } else {
        show_bytes(&regions.concat())
    };
    let l = format!(
        "{}|{},{},{} {}|{}|{}",
        ret,
        layout.0,
        layout.1,
        son(layout.2),
        regions.len(),
        show_bytes(&tracker),
        all
    );
    (l, regions, tracker, layout)
}

/// S3 for the bookkeeping: the tracker never reports a region full at order k while the plain bitmap
/// of that region has an aligned free block of order >= k
fn check_tracker(r: &MemRun, tracker: &[u8], after: &str, out: &mut Out) {
    let bits = tracker_bits(tracker);
    for (ri, o) in r.regions.iter().enumerate() {
        let Some(h) = o.highest_free_aligned_order(r.max_order) else { continue };
        for k in 0..=h {
            let full = bits.get(k as usize).and_then(|b| b.get(ri)).copied().unwrap_or(true);
            if full {
                out.violation(
                    "tracker-reports-full",
                    &format!("after `{after}`: region {ri} has a free aligned block of order {h} but the region tracker marks it full at order {k}"),
                );
                return;
            }
        }
    }
}

fn mem_program(rng: &mut Rng, out: &mut Out, nops: usize) {
    let (page_size, region_pages): (usize, u32) = match rng.below(9) {
        0 => (512, 16),
        1 => (512, 64),
        2 => (4096, 64),
        3 => (65536, 8),
        4 => (65536, 4),
        5 => (16384, 32),
        // regions larger than the initial file: the first region starts partial, growth fills it out and
        // later creates a PARTIAL trailing region that is filled out in turn (Allocators::resize_to "brand new region")
        6 => (4096, 1024),
        7 => (512, 4096),
        _ => (16384, 128),
    };
    let m = match VAllocMem::new(page_size, u64::from(region_pages) * page_size as u64) {
        Ok(m) => m,
        Err(_) => return,
    };
    let (line, _regs, tracker, layout) = mem_line("new", &m);
    out.begin(&format!("M {page_size} {region_pages}"), &line);
    let mut r = MemRun {
        m,
        regions: region_lens(layout).into_iter().map(Oracle::new).collect(),
        full_pages: region_pages,
        max_order: usable_order(region_pages),
    };
    check_tracker(&r, &tracker, "new", out);
    let mut layout_now = layout;
    let style = rng.below(3);
    for step in 0..nops {
        let phase_fill = match style {
            0 => true,
            1 => (step / 60) % 2 == 0,
            _ => rng.chance(1, 2),
        };
        let live_total: usize = r.regions.iter().map(|o| o.live.len()).sum();
        let w = rng.below(100);
        let p_alloc = if phase_fill { 65 } else { 25 };
        let (case, res): (String, Result<String, String>);
        if w < p_alloc || live_total == 0 {
            let k = pick_order(rng, r.max_order).min(r.max_order);
            let lowest = rng.chance(1, 4);
            case = format!("a {k} {}", sb(lowest));
            // before: does any region have room? (then the file must not grow)
            let room = r.regions.iter().position(|o| o.lowest_free_block(k).is_some());
            let got = catch(|| r.m.allocate(k, lowest));
            res = match got {
                Err(e) => Err(e),
                Ok(Err(e)) => Err(e),
                Ok(Ok((reg, idx, ord))) => {
                    let (_, _, _, new_layout) = mem_line("", &r.m);
                    if new_layout != layout_now {
                        if let Some(ri) = room {
                            out.prog.push(case.clone());
                            out.violation(
                                "grew-though-space-free",
                                &format!("allocate(order {k}) grew the file from {layout_now:?} to {new_layout:?} although region {ri} had a free aligned block of that order"),
                            );
                            out.prog.pop();
                        }
                        apply_layout(&mut r, new_layout, &case, out);
                        layout_now = new_layout;
                        out.prog.push(case.clone());
                        out.marker("grow", fingerprint(case.as_bytes()) ^ u64::from(new_layout.1) << 20 ^ u64::from(new_layout.2.unwrap_or(0)));
                        out.prog.pop();
                    }
                    out.prog.push(case.clone());
                    if ord != k {
                        out.violation("alloc-wrong-order", &format!("allocate(order {k}) returned a page of order {ord}"));
                    } else if (reg as usize) >= r.regions.len() || !r.regions[reg as usize].in_range(idx, k) {
                        out.violation("alloc-out-of-range", &format!("allocate(order {k}) returned region {reg} index {idx}, outside the layout {layout_now:?}"));
                    } else if !r.regions[reg as usize].block_free(idx, k) {
                        out.violation("double-allocation", &format!("allocate(order {k}) returned region {reg} index {idx} which overlaps a live block"));
                    } else {
                        if lowest && r.regions[reg as usize].lowest_free_block(k) != Some(idx) {
                            out.violation("alloc-lowest-not-lowest", &format!("allocate_lowest(order {k}) in region {reg} returned {idx}, lowest free is {:?}", r.regions[reg as usize].lowest_free_block(k)));
                        }
                        r.regions[reg as usize].mark(idx, k, true);
                        r.regions[reg as usize].live.push((idx, k));
                    }
                    out.prog.pop();
                    Ok(format!("{reg},{idx}"))
                }
            };
        } else if w < 90 {
            // free a live block
            let mut choices = vec![];
            for (ri, o) in r.regions.iter().enumerate() {
                for b in &o.live {
                    choices.push((ri as u32, b.0, b.1));
                }
            }
            choices.sort_unstable();
            let (reg, idx, k) = *rng.pick(&choices);
            case = format!("f {reg} {idx} {k}");
            res = catch(|| r.m.free(reg, idx, k)).map(|()| {
                let o = &mut r.regions[reg as usize];
                let pos = o.live.iter().position(|x| *x == (idx, k)).unwrap();
                o.live.swap_remove(pos);
                o.mark(idx, k, false);
                "ok".to_string()
            });
        } else if w < 96 {
            // mark_page_allocated: a free block, or an arbitrary page number
            let extra_regions = if rng.chance(1, 10) { 2 } else { 0 };
            let ri = rng.below(r.regions.len() as u64 + extra_regions) as u32;
            let k = pick_order(rng, r.max_order);
            let idx = if (ri as usize) < r.regions.len() {
                let o = &r.regions[ri as usize];
                let n = (o.len() >> k.min(31)).max(1);
                let start = rng.below(u64::from(n)) as u32;
                (0..n.min(32)).map(|d| (start + d) % n).find(|i| rng.chance(3, 4) && o.block_free(*i, k)).unwrap_or(start)
            } else {
                rng.below(100) as u32
            };
            case = format!("r {ri} {idx} {k}");
            let possible = (ri as usize) < r.regions.len() && k <= MAX_MAX_PAGE_ORDER && r.regions[ri as usize].block_free(idx, k);
            res = catch(|| r.m.record_alloc(ri, idx, k)).map(|ok| {
                out.prog.push(case.clone());
                if ok && !possible {
                    out.violation("record-alloc-overlap", &format!("mark_page_allocated accepted region {ri} index {idx} order {k} which is not a free block inside the layout"));
                }
                if !ok && possible && k <= r.max_order {
                    out.violation("record-alloc-refused", &format!("mark_page_allocated refused region {ri} index {idx} order {k} which is free"));
                }
                out.prog.pop();
                if ok && possible {
                    r.regions[ri as usize].mark(idx, k, true);
                    r.regions[ri as usize].live.push((idx, k));
                }
                sb(ok).to_string()
            });
        } else {
            let force = rng.chance(1, 2);
            case = format!("h {}", sb(force));
            res = match catch(|| r.m.try_shrink(force)) {
                Err(e) => Err(e),
                Ok(Err(e)) => Err(e),
                Ok(Ok(b)) => {
                    let (_, _, _, new_layout) = mem_line("", &r.m);
                    if new_layout != layout_now {
                        apply_layout(&mut r, new_layout, &case, out);
                        layout_now = new_layout;
                        out.prog.push(case.clone());
                        out.marker("shrink", fingerprint(case.as_bytes()) ^ u64::from(new_layout.1) << 20 ^ u64::from(new_layout.2.unwrap_or(0)));
                        out.prog.pop();
                    }
                    Ok(sb(b).to_string())
                }
            };
        }
        match res {
            Err(e) => {
                out.line(&case, "panic");
                out.impl_panics_valid += 1;
                out.violation("panic-on-valid-program", &format!("TransactionalMemory panicked / failed on `{case}`: {e}"));
                break;
            }
            Ok(ret) => {
                let (line, regs, tracker, _) = mem_line(&ret, &r.m);
                out.line(&case, &line);
                check_tracker(&r, &tracker, &case, out);
                // space accounting per region, from the serialized allocators' own header (len) only
                if regs.len() != r.regions.len() {
                    out.violation("region-count", &format!("after `{case}`: {} region allocators, layout has {}", regs.len(), r.regions.len()));
                }
                if case.starts_with('f') || case.starts_with('a') {
                    out.marker(if case.starts_with('f') { "mem-free" } else { "mem-alloc" }, fingerprint(line.as_bytes()));
                }
            }
        }
    }
    let _ = r.full_pages;
    out.end();
}

fn apply_layout(r: &mut MemRun, layout: (u32, u32, Option<u32>), case: &str, out: &mut Out) {
    let lens = region_lens(layout);
    for (i, l) in lens.iter().enumerate() {
        if i < r.regions.len() {
            if *l < r.regions[i].len() {
                if r.regions[i].used[*l as usize..].iter().any(|u| *u) {
                    out.prog.push(case.to_string());
                    out.violation("shrink-dropped-live-pages", &format!("`{case}` shrank region {i} to {l} pages although live blocks lie beyond"));
                    out.prog.pop();
                }
            }
            r.regions[i].resize(*l);
        } else {
            r.regions.push(Oracle::new(*l));
        }
    }
    while r.regions.len() > lens.len() {
        let o = r.regions.pop().unwrap();
        if o.count_used() > 0 {
            out.prog.push(case.to_string());
            out.violation("shrink-dropped-live-pages", &format!("`{case}` dropped a region that still holds live blocks"));
            out.prog.pop();
        }
    }
}

// ------------------------------------------------------------------------------------------------
// exhaustive: every program of length <= depth over small capacities (deduplicated on the state)

fn small_ops(len: u32, cap: u32, max_order: u8) -> Vec<BOp> {
    let mut ops = vec![];
    for k in 0..=max_order + 1 {
        ops.push(BOp::Alloc(k));
        ops.push(BOp::Lowest(k));
    }
    for k in 0..=max_order + 1 {
        for i in 0..=(len >> k) {
            ops.push(BOp::Record(i, k));
            ops.push(BOp::Free(i, k)); // filtered to valid frees by the caller
        }
    }
    for n in 1..=cap {
        ops.push(BOp::Resize(n));
    }
    ops.push(BOp::Roundtrip);
    ops
}

fn replay_path(n: u32, cap: u32, path: &[BOp]) -> (VBuddy, Oracle) {
    let mut a = VBuddy::new(n, cap);
    let mut o = Oracle::new(n);
    for op in path {
        match op {
            BOp::Alloc(k) => {
                if let Some(i) = a.alloc(*k) {
                    o.mark(i, *k, true);
                }
            }
            BOp::Lowest(k) => {
                if let Some(i) = a.alloc_lowest(*k) {
                    o.mark(i, *k, true);
                }
            }
            BOp::Free(p, k) => {
                a.free(*p, *k);
                o.mark(*p, *k, false);
            }
            BOp::Record(p, k) => {
                if a.record_alloc(*p, *k) {
                    o.mark(*p, *k, true);
                }
            }
            BOp::Resize(nn) => {
                a.resize(*nn);
                o.resize(*nn);
            }
            BOp::Roundtrip => a = VBuddy::from_bytes(&a.to_vec()),
            _ => {}
        }
    }
    (a, o)
}

struct ExNode {
    path: Vec<BOp>,
    children: Vec<(BOp, Option<usize>)>,
}

/// Breadth-first over states (key = serialized bytes); every (state, op) edge is evaluated once.  Then the
/// BFS tree is written depth-first with ( ) push/pop lines so the model driver can follow without replays.
fn exhaustive_for(n: u32, cap: u32, depth: usize, out: &mut Out, edges: &mut u64) {
    let max_order = usable_order(cap);
    let mut nodes: Vec<ExNode> = vec![ExNode { path: vec![], children: vec![] }];
    let mut seen: HashMap<Vec<u8>, usize> = HashMap::new();
    seen.insert(VBuddy::new(n, cap).to_vec(), 0);
    let mut frontier = vec![0usize];
    for _d in 0..depth {
        let mut next = vec![];
        for ni in frontier {
            let path = nodes[ni].path.clone();
            let (a0, o0) = replay_path(n, cap, &path);
            let ops = small_ops(a0.len(), cap, max_order);
            for op in ops {
                // valid programs only: free needs an entirely allocated aligned block, shrink a free tail
                match &op {
                    BOp::Free(p, k) => {
                        if *k > max_order || !o0.block_used(*p, *k) {
                            continue;
                        }
                    }
                    BOp::Resize(nn) => {
                        if o0.last_used().map_or(false, |p| p >= *nn) || *nn == a0.len() {
                            continue;
                        }
                    }
                    _ => {}
                }
                let mut p2 = path.clone();
                p2.push(op.clone());
                let (a1, _) = replay_path(n, cap, &p2);
                let key = a1.to_vec();
                *edges += 1;
                let child = if let Some(_) = seen.get(&key) {
                    None
                } else {
                    let id = nodes.len();
                    seen.insert(key, id);
                    nodes.push(ExNode { path: p2, children: vec![] });
                    next.push(id);
                    Some(id)
                };
                nodes[ni].children.push((op, child));
            }
        }
        frontier = next;
    }
    // emit depth-first
    if new_buddy_run(n, cap, out).is_none() {
        return;
    }
    fn emit(ni: usize, nodes: &Vec<ExNode>, n: u32, cap: u32, out: &mut Out, max_order: u8) {
        for (op, child) in &nodes[ni].children {
            // rebuild the parent state for every edge (cheap: depth <= 5) so each edge is checked from it
            let (a, o) = replay_path(n, cap, &nodes[ni].path);
            let mut live_o = o;
            // live list for the oracle's free bookkeeping is not needed: frees are validated by block_used
            live_o.live.clear();
            let mut r = BuddyRun { a, o: live_o, cap, max_order, slots: HashMap::new(), oracle_valid: true };
            out.cases.write_all(b"(\n").unwrap();
            out.imp.write_all(b"(\n").unwrap();
            // the op lines of the path are in out.prog for replays
            let saved = out.prog.clone();
            for p in &nodes[ni].path {
                out.prog.push(p.text());
            }
            let line = buddy_step(&mut r, op, out, true);
            if line == "panic" {
                out.prog.push(op.text());
                out.violation("panic-on-valid-program", &format!("the allocator panicked on `{}`", op.text()));
                out.prog.pop();
            }
            out.line(&op.text(), &line);
            out.prog = saved;
            if let Some(c) = child {
                emit(*c, nodes, n, cap, out, max_order);
            }
            out.cases.write_all(b")\n").unwrap();
            out.imp.write_all(b")\n").unwrap();
        }
    }
    emit(0, &nodes, n, cap, out, max_order);
    out.end();
}

// ------------------------------------------------------------------------------------------------
// sweeps and the F1 probe

fn new_sweep(out: &mut Out, rng: &mut Rng, thorough: bool) {
    // capacities 1..=4096 (thorough) or a sample: new + to_vec, observations
    let caps: Vec<u32> = if thorough { (1..=4096).collect() } else { (1..=130).chain([191, 192, 193, 255, 256, 257, 1000, 4095, 4096, 4097]).collect() };
    for cap in caps {
        let mut ns = vec![cap, 1, cap / 2 + 1, cap.saturating_sub(1).max(1)];
        ns.push(rng.range(1, u64::from(cap)) as u32);
        ns.sort_unstable();
        ns.dedup();
        for n in ns {
            if let Some(_r) = new_buddy_run(n, cap, out) {
                out.end();
            }
        }
    }
    if thorough {
        for cap in [1u32 << 16, (1 << 16) + 1, 100_000, 1 << 20] {
            for n in [cap, cap / 3 + 1] {
                if let Some(mut r) = new_buddy_run(n, cap, out) {
                    for op in [BOp::Alloc(0), BOp::Alloc(3), BOp::Lowest(1), BOp::Roundtrip, BOp::Free(0, 0), BOp::Trailing] {
                        if !run_valid_op(&mut r, &op, out) {
                            break;
                        }
                    }
                    out.end();
                }
            }
        }
    }
}

/// DESIGN 6.3 F1: size 0.  Recorded as observations (stdout), compared with the model's modelled panics.
fn f1_probe(out: &mut Out) -> String {
    let mut notes = vec![];
    for cap in [1u32, 8, 100] {
        // new(0, cap) is fine; growing from 0 and trailing_free_pages on 0 panic
        for op in [BOp::Resize(4.min(cap)), BOp::Trailing, BOp::Alloc(0), BOp::Resize(0)] {
            if let Some(mut r) = new_buddy_run(0, cap, out) {
                r.oracle_valid = false;
                let line = buddy_step(&mut r, &op, out, false);
                out.line(&op.text(), &line);
                notes.push(format!("new(0,{cap});{}=>{}", op.text(), line.split('|').next().unwrap_or("")));
                out.end();
            }
        }
        // shrinking to 0 works, growing back does not
        if let Some(mut r) = new_buddy_run(cap, cap, out) {
            r.oracle_valid = false;
            for op in [BOp::Resize(0), BOp::Resize(1)] {
                let line = buddy_step(&mut r, &op, out, false);
                out.line(&op.text(), &line);
                notes.push(format!("new({cap},{cap});..{}=>{}", op.text(), line.split('|').next().unwrap_or("")));
                if line == "panic" {
                    break;
                }
            }
            out.end();
        }
    }
    notes.join(" ")
}

// ------------------------------------------------------------------------------------------------

fn replay_stdin(out: &mut Out) {
    // reads a buddy program (header + op lines) and runs it with the oracle
    let stdin = std::io::stdin();
    let lines: Vec<String> = stdin.lock().lines().map(|l| l.unwrap()).filter(|l| !l.trim().is_empty()).collect();
    if lines.is_empty() {
        return;
    }
    let t: Vec<&str> = lines[0].split_whitespace().collect();
    if t.len() == 3 && t[0] == "B" {
        let (n, cap) = (t[1].parse().unwrap(), t[2].parse().unwrap());
        if let Some(mut r) = new_buddy_run(n, cap, out) {
            for l in &lines[1..] {
                if l == "E" {
                    break;
                }
                if let Some(op) = BOp::parse(l) {
                    if !run_valid_op(&mut r, &op, out) {
                        break;
                    }
                }
            }
            out.end();
        }
    } else {
        eprintln!("replay supports buddy programs (B n cap) only");
    }
}

fn main() {
    silence_panics();
    let args: Vec<String> = std::env::args().collect();
    let mode = args.get(1).map(String::as_str).unwrap_or("random");
    let budget: usize = args.get(2).and_then(|s| s.parse().ok()).unwrap_or(200);
    let mut rng = Rng::new(seed_from_env() ^ 0xC14);
    let mut out = Out::new();
    let mut extra = String::new();
    match mode {
        "replay" => replay_stdin(&mut out),
        "exhaustive" => {
            let depth = budget.clamp(1, 6);
            let maxcap: u32 = args.get(3).and_then(|s| s.parse().ok()).unwrap_or(12);
            let mut edges = 0u64;
            for cap in 1..=maxcap {
                for n in 1..=cap {
                    exhaustive_for(n, cap, depth, &mut out, &mut edges);
                }
            }
            extra = format!("exhaustive_edges={edges} depth={depth} maxcap={maxcap}");
        }
        _ => {
            // budget = number of random buddy programs; the other streams are scaled from it
            let thorough = rv_harness::tier_is_thorough();
            let f1 = f1_probe(&mut out);
            extra = format!("f1={}", f1.replace(' ', ";"));
            new_sweep(&mut out, &mut rng.fork(1), thorough);
            let mut r2 = rng.fork(2);
            for i in 0..budget {
                let nops = if i % 10 == 0 { 200 } else { 60 };
                random_buddy_program(&mut r2, &mut out, nops);
            }
            let mut r3 = rng.fork(3);
            for _ in 0..budget / 4 {
                pattern_buddy_program(&mut r3, &mut out);
            }
            let mut r4 = rng.fork(4);
            for _ in 0..budget / 4 {
                resize_buddy_program(&mut r4, &mut out);
            }
            let mut r5 = rng.fork(5);
            for _ in 0..budget / 2 {
                malformed_buddy_program(&mut r5, &mut out);
            }
            let mut r6 = rng.fork(6);
            for _ in 0..budget / 5 {
                tree_program(&mut r6, &mut out, 80);
            }
            let mut r7 = rng.fork(7);
            for _ in 0..budget / 10 {
                u64_program(&mut r7, &mut out, 60);
            }
            let mut r8 = rng.fork(8);
            for _ in 0..budget / 20 {
                tracker_program(&mut r8, &mut out, 40);
            }
            let mut r9 = rng.fork(9);
            for _ in 0..(budget / 25).max(2) {
                mem_program(&mut r9, &mut out, 150);
            }
        }
    }
    out.flush();
    let markers: Vec<String> = out.markers.iter().map(|(k, v)| format!("{k}:{v}")).collect();
    let kinds: Vec<String> = out.op_kinds.iter().map(|(k, v)| format!("{k}={v}")).collect();
    let sizes: Vec<String> = out.size_hist.iter().map(|(k, v)| format!("{k}:{v}")).collect();
    println!(
        "evaluations={} programs={} distinct_nontrivial={} s3_violations={} impl_panics_valid={} malformed_ops={} malformed_panics={}",
        out.evaluations, out.programs, out.nontrivial.len(), out.violations, out.impl_panics_valid, out.malformed_ops, out.malformed_panics
    );
    println!("markers {}", markers.join(" "));
    println!("op_kinds {}", kinds.join(" "));
    println!("sizes {}", sizes.join(" "));
    println!("extra {extra}");
    for s in &out.samples {
        println!("sample {s}");
    }
}
